#!/usr/bin/env python3
"""Regenerates /verif/MANIFEST.json from checklib/props.py (so the two never drift)."""
import json, os, sys
ROOT = os.path.dirname(os.path.dirname(os.path.abspath(__file__)))
sys.path.insert(0, os.path.join(ROOT, "checklib"))
import props, subprocess

ALL = ["C%02d" % i for i in range(1, 21)]
hooks = [l.split()[0] for l in subprocess.run(["git", "-C", "/repo", "log", "--format=%H %s"], stdout=subprocess.PIPE).stdout.decode().splitlines() if " verif hook" in l or " verif:" in l]
m = {
    "version": 1,
    "setup_cmd": "./setup.sh",
    "hooks": {
        "guard": "verif",
        "enable": "go build -tags verif (the harness module replaces github.com/vipnode/vipnode/v2 by /repo)",
        "baseline_off_cmd": "cd /repo && GOFLAGS=-mod=mod GOPROXY=off GOSUMDB=off go test -vet=off -count=1 ./...",
        "source_commits": hooks,
        "add_only": True,
    },
    "engines": [
        {"name": "lean-model", "path": "lean/", "serves_properties": [p for p in ALL if p in props.PROPS],
         "kind_free_text": "Lean 4 models (Vipnode/Model), property theorems (Vipnode/Props), compiled line-protocol driver"},
        {"name": "go-harness", "path": "harness/", "serves_properties": [p for p in ALL if p in props.PROPS],
         "kind_free_text": "Go correspondence harness driving the real code built from /repo's working tree; facts regenerated into Lean"},
    ],
    "checks": [],
    "not_applicable": [],
    "notes": "One entry point: ./check <Cxx> <quick|thorough>. See DESIGN.md.",
}
for p in ALL:
    if p in props.PROPS:
        c = props.PROPS[p]
        m["checks"].append({
            "property_id": p,
            "quick_cmd": "./check %s quick" % p,
            "thorough_cmd": "./check %s thorough" % p,
            "evidence_file": "/verif/evidence/%s.json" % p,
            "replay_cmd_template": "./check %s --replay {path}" % p,
            "engine": "lean-model",
            "level_claimed": {"category": "proof", "text": c.get("level_text", ""), "design_ref": "DESIGN.md section 6, " + p},
            "level_note": c.get("level_note", ""),
            "technique": c.get("technique", "Lean 4 theorems over an executable model + differential correspondence of model and implementation"),
        })
    else:
        m["not_applicable"].append({"property_id": p, "reason": props.NOT_YET.get(p, "check not built yet in this session; no claim is made")})
json.dump(m, open(os.path.join(ROOT, "MANIFEST.json"), "w"), indent=1)
print("checks:", [c["property_id"] for c in m["checks"]])
