"""When a proof obligation over the regenerated facts (lean/Vipnode/Generated/Facts.lean) no longer checks, look in
the facts themselves - they are observations of the built binary - for a concrete input on which the property fails."""
import re


def _def(text, name):
    m = re.search(r"def %s\b[^\n]*:=\s*(.*)" % re.escape(name), text)
    return m.group(1).strip() if m else None


def _strings(s):
    return re.findall(r'"([^"]*)"', s or "")


def c20(text):
    exp = _def(text, "expireIntervalNs")
    probe = _def(text, "intervalProbe")
    if exp is None or probe is None:
        return None
    exp = int(exp)
    for ns, acc in re.findall(r"\((-?\d+),\s*(true|false)\)", probe):
        if acc == "true" and int(ns) >= exp:
            return {"input": "vipnode agent --update-interval=%dns" % int(ns),
                    "verdict": "the built binary accepts an update interval of %d ns, which is not shorter than the pool's expiry window of %d ns" % (int(ns), exp)}
    return None


def c16(text):
    served, doc = _strings(_def(text, "servedRpc")), _strings(_def(text, "documentedApi"))
    if not served or not doc:
        return None
    extra = sorted(set(served) - set(doc))
    missing = sorted(set(doc) - set(served))
    if extra:
        return {"input": "JSON-RPC request for method %s sent to the built pool binary" % extra[0],
                "verdict": "the built pool binary answers %s, which the documented API does not list" % ", ".join(extra)}
    if missing:
        return {"input": "JSON-RPC request for method %s sent to the built pool binary" % missing[0],
                "verdict": "the built pool binary does not expose the documented method(s) %s" % ", ".join(missing)}
    return None


def c12(text):
    ks = _strings(_def(text, "badgerKeySpaces"))
    for a in ks:
        for b in ks:
            if a != b and b.startswith(a):
                return {"input": "badger keys %r and %r" % (a + "<id>", b + "<id>"),
                        "verdict": "key space %r is a prefix of key space %r: an id can make a key of one space collide with the other" % (a, b)}
    return None


SEARCH = {"C20": c20, "C16": c16, "C12": c12}
