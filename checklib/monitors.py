"""Property monitors: executable predicates on what the *implementation* did on a case
(resolved op lines + implementation output lines).  A monitor returns None or a short
description of how the property itself fails on that trace.  Monitors are the search for a
concrete failing input when a proof obligation or the correspondence breaks; they never
replace a theorem (DESIGN.md 2.3)."""
import re


def _kv(line):
    d = {}
    for tok in line.split():
        if "=" in tok:
            k, v = tok.split("=", 1)
            d[k] = v
    return d


def _dump(line):
    """parse a pool dump line"""
    if not line.startswith("ok nodes="):
        return None
    d = _kv(line)
    out = {"raw": d}
    st = d.get("stats", "").split("/")
    if len(st) == 7:
        out["total_credit"] = int(st[5])
    out["nb"] = {}
    for e in filter(None, d.get("nb", "").split(",")):
        k, v = e.split("=", 1)
        acct, credit = v.rsplit("/", 1)
        out["nb"][k] = (acct, int(credit))
    out["ab"] = {}
    for e in filter(None, d.get("ab", "").split(",")):
        k, v = e.split("=", 1)
        acct, credit = v.rsplit("/", 1)
        out["ab"][k] = (acct, int(credit))
    out["paid"] = {k: int(v) for k, v in (e.split("=") for e in filter(None, d.get("paid", "").split(",")))}
    out["dep"] = {k: int(v) for k, v in (e.split("=") for e in filter(None, d.get("dep", "").split(",")))}
    out["remotes"] = int(d.get("remotes", "0"))
    out["nodes"] = {}
    for e in filter(None, d.get("nodes", "").split(",")):
        f = e.split(":")
        # name : t : <ns> : kind : isHost : uri... (uri may contain ':')
        out["nodes"][f[0]] = {"lastSeen": int(f[2]), "kind": f[3], "isHost": f[4] == "1", "rest": ":".join(f[5:])}
    out["peers"] = {}
    for e in filter(None, d.get("peers", "").split(",")):
        k, v = e.split(">", 1)
        out["peers"][k] = [x for x in v.split("+") if x]
    return out


def c01_ledger(stream, res, impl):
    """zero-sum: between two dumps the total credit changes only by what a successful withdrawal settled"""
    if stream["component"] != "pool":
        return None
    prev, between = None, []
    for op, out in zip(res, impl):
        t = op.split()
        if len(t) < 2:
            continue
        if t[1] == "dump":
            d = _dump(out)
            if d is None or "total_credit" not in d:
                prev, between = None, []
                continue
            # the ledger total reported by Stats must be the sum of the balances one can read back
            wallets = {}
            tot = 0
            for n, (acct, credit) in d["nb"].items():
                if acct == "~":
                    tot += credit
            for w, (acct, credit) in d["ab"].items():
                tot += credit
            if prev is not None:
                wd = [(o, r) for o, r in between if o.split()[1] == "withdraw" and r.startswith("ok")]
                # `addnb` is the harness writing credit straight into the store (test set-up), not a pool operation
                injected = sum(int(o.split()[3]) for o, r in between if o.split()[1] == "addnb" and r.startswith("ok"))
                if not wd:
                    if d["total_credit"] != prev["total_credit"] + injected:
                        return "ledger total changed from %d to %d without a successful withdrawal (ops: %s)" % (
                            prev["total_credit"], d["total_credit"], "; ".join(o for o, _ in between)[:300])
                elif len(between) == 1:
                    w = between[0][0].split()[2]
                    settled = prev["ab"].get(w, ("~", 0))[1]
                    if d["total_credit"] != prev["total_credit"] - settled:
                        return "withdrawal of %s changed the ledger total by %d, settled credit was %d" % (
                            w, prev["total_credit"] - d["total_credit"], settled)
            prev, between = d, []
        else:
            between.append((op, out))
    return None


def _digest(d):
    """the part of a dump a refused request must leave untouched"""
    raw = dict(d["raw"])
    return raw


def c06_refused_no_effect(stream, res, impl):
    """a request answered VerifyFailed between two dumps (alone) must leave the dump unchanged"""
    if stream["component"] != "pool":
        return None
    prev, between = None, []
    for op, out in zip(res, impl):
        t = op.split()
        if len(t) < 2:
            continue
        if t[1] == "dump":
            d = _dump(out)
            if d is not None and prev is not None and len(between) == 1 and between[0][1].startswith("err VerifyFailed"):
                a, b = dict(prev["raw"]), dict(d["raw"])
                # stats contain active counts that depend on the clock only through the window; compare everything
                if a != b:
                    diff = [k for k in a if a.get(k) != b.get(k)]
                    return "refused request changed %s: %s" % (",".join(diff), between[0][0][:200])
                if "unexpected-" in between[0][1]:
                    return "refused request called a host: %s -> %s" % (between[0][0][:160], between[0][1])
            prev, between = d, []
        else:
            between.append((op, out))
            if out.startswith("err VerifyFailed") and "unexpected-" in out:
                return "refused request called a host: %s -> %s" % (op[:160], out)
    return None


def c07_withdraw(stream, res, impl):
    """paid + owed is conserved up to the fee by a withdrawal; a failed/refused one pays nothing"""
    if stream["component"] != "pool":
        return None
    cfg = {}
    prev, between = None, []
    for op, out in zip(res, impl):
        t = op.split()
        if len(t) < 2:
            continue
        if t[1] == "cfg":
            cfg = _kv(op)
        if t[1] == "dump":
            d = _dump(out)
            if d is not None and prev is not None and len(between) == 1 and between[0][0].split()[1] == "withdraw":
                w = between[0][0].split()[2]
                o, r = between[0]
                owed0 = prev["dep"].get(w, 0) + prev["ab"].get(w, ("~", 0))[1]
                owed1 = d["dep"].get(w, 0) + d["ab"].get(w, ("~", 0))[1]
                paid = d["paid"].get(w, 0) - prev["paid"].get(w, 0)
                fee = 0 if cfg.get("wfee", "off") == "off" else int(cfg["wfee"])
                if r.startswith("ok"):
                    if paid != owed0 - fee:
                        return "withdrawal of %s paid %d, owed %d fee %d" % (w, paid, owed0, fee)
                    if owed1 != 0:
                        return "withdrawal of %s left %d still owed" % (w, owed1)
                    if cfg.get("wmin", "off") != "off" and owed0 < int(cfg["wmin"]):
                        return "withdrawal of %s executed below the minimum (%d < %s)" % (w, owed0, cfg["wmin"])
                else:
                    if paid != 0 or owed1 != owed0:
                        return "failed/refused withdrawal of %s paid %d and changed the balance from %d to %d" % (w, paid, owed0, owed1)
            prev, between = d, []
        else:
            between.append((op, out))
    return None


def c08_peer_reply(stream, res, impl):
    """a reply never holds more hosts than requested / than the maximum; every returned host got a whitelist call"""
    if stream["component"] != "pool":
        return None
    cfg = {}
    for op, out in zip(res, impl):
        t = op.split()
        if len(t) < 2:
            continue
        if t[1] == "cfg":
            cfg = _kv(op)
        if t[1] in ("peer", "client") and out.startswith("ok hosts="):
            kv = _kv(op)
            okv = _kv(out)
            hosts = [h for h in okv.get("hosts", "").split(",") if h]
            wl = [h for h in okv.get("wl", "").split(",") if h]
            num = int(kv.get("num", "0"))
            if t[1] == "client" and num <= 0:
                num = 3
            mx = int(cfg.get("max", "0"))
            if len(hosts) > max(0, num):
                return "reply holds %d hosts, %d were requested: %s" % (len(hosts), num, op[:160])
            if mx > 0 and len(hosts) > mx:
                return "reply holds %d hosts, maximum is %d: %s" % (len(hosts), mx, op[:160])
            if len(wl) < len(hosts):
                return "reply holds %d hosts but only %d whitelist calls were made: %s" % (len(hosts), len(wl), op[:160])
            if t[2] if t[1] == "peer" else t[3] in hosts:
                pass
            who = t[2] if t[1] == "peer" else t[3]
            if who in hosts:
                return "the requester itself was returned: %s" % op[:160]
    return None


def c17_codec(stream, res, impl):
    """every written message is read exactly once, intact and in order; websocket runs deliver every message"""
    if stream["component"] != "codec":
        return None
    for op, out in zip(res, impl):
        t = op.split()
        if len(t) < 2:
            continue
        if t[1] == "stream":
            kv = _kv(op)
            data = bytes.fromhex(kv.get("hex", ""))
            written = [m.hex() for m in data.split(b"\n") if m]
            got = out.split()[1].split(",") if out.startswith("ok ") and len(out.split()) > 1 else []
            if got != written:
                k = 0
                while k < min(len(got), len(written)) and got[k] == written[k]:
                    k += 1
                return "stream of %d messages cut at %s delivered %d messages (first difference at message %d)" % (
                    len(written), kv.get("cuts", ""), len(got), k)
        if t[1] == "ws":
            kv = _kv(op)
            n = int(kv["writers"]) * int(kv["each"])
            okv = _kv(out)
            if okv.get("received") != str(n) or okv.get("intact") != str(n) or okv.get("order") != "ok":
                return "websocket %s run with %s writers x %s messages: %s" % (kv.get("lib"), kv["writers"], kv["each"], out)
    return None


def c18_agent(stream, res, impl):
    """a failed keep-alive makes no node call; non-strict rounds drop exactly the pool's invalid peers"""
    if stream["component"] != "agent":
        return None
    strict = False
    for op, out in zip(res, impl):
        t = op.split()
        if len(t) < 2:
            continue
        kv = _kv(op)
        if t[1] == "setup":
            strict = kv.get("strict") == "1"
        if t[1] == "round":
            okv = _kv(out)
            calls = [c for c in okv.get("calls", "").split(",") if c]
            if kv.get("update") != "ok" and (calls or okv.get("peer") != "none"):
                return "failed keep-alive but the agent acted on the node: %s" % out[:200]
            if kv.get("update") == "ok" and not strict:
                invalid = [x if x != "~" else "" for x in kv.get("I", "").split(";") if x]
                dropped = [c[3:] for c in calls if c.startswith("rm:")]
                if sorted(set(dropped)) != sorted(set(invalid)):
                    return "non-strict round un-trusted %s, the pool declared %s invalid" % (sorted(set(dropped)), sorted(set(invalid)))
    return None


def c14_rpc(stream, res, impl):
    """every call returns the reply sent for its own id; storms return every caller's own token"""
    if stream["component"] != "rpc":
        return None
    tok_id, sent, cancelled = {}, {}, set()
    for op, out in zip(res, impl):
        t = op.split()
        if len(t) < 2:
            continue
        if t[1] == "call" and out.startswith("ok id="):
            tok_id[t[2]] = int(out.split("=")[1])
            kv = _kv(op)
            if "early" in kv:
                sent[tok_id[t[2]]] = ("result", kv["early"])
        elif t[1] == "reply" and out == "ok":
            sent[int(t[2])] = (t[3], t[4] if len(t) > 4 else "")
        elif t[1] == "cancel":
            cancelled.add(t[2])
        elif t[1] == "await" and out in ("pending", "err ctx") and t[2] not in cancelled and tok_id.get(t[2]) in sent:
            return "call %s (id %s) never got the reply that was delivered for its id (%s)" % (t[2], tok_id.get(t[2]), out)
        elif t[1] == "await" and out.startswith("returned "):
            i = tok_id.get(t[2])
            got = out.split(" ", 1)[1]
            if i is None or sent.get(i, (None, None)) != ("result", got):
                return "call %s (id %s) returned %r but the reply sent for its id was %r" % (t[2], i, got, sent.get(i))
        elif t[1] == "request" and "wrong-service-in-context" in out:
            return "a handler obtained a service from its context that is not the connection the request arrived on"
        elif t[1] == "storm":
            kv, okv = _kv(op), _kv(out)
            n = 2 * int(kv["callers"])
            if okv.get("returned") != str(n) or okv.get("own") != str(n):
                return "storm of %s concurrent callers per side (limit %s/%s): %s" % (kv["callers"], kv["limit"], kv["discard"], out)
    return None


def c13_persist(stream, res, impl):
    """a dump taken right after a reopen equals the dump taken right before it; readers never see a moving total"""
    if stream["component"] != "persist":
        return None
    last_dump = None
    after_reopen = False
    for op, out in zip(res, impl):
        t = op.split()
        if len(t) < 2:
            continue
        if t[1] == "dump" and out.startswith("ok "):
            if after_reopen and last_dump is not None and out != last_dump:
                return "state read back after reopen differs from the state acknowledged before it"
            last_dump, after_reopen = out, False
        elif t[1] == "reopen":
            after_reopen = last_dump is not None
        elif t[1] in ("op", "crash", "prepare", "open"):
            if t[1] != "op" or t[2] not in ("getnode", "peers", "getnb", "getab", "nodes", "isan", "stats", "active"):
                last_dump, after_reopen = None, False
        if t[1] == "readers" and out != "ok violations=0":
            return "readers observed a ledger total that moved during a trial-balance migration: %s" % out
        if t[1] == "crash" and not out.startswith("ok crash-consistent"):
            return "state after kill -9 is not the state after the acknowledged operations (or one more)"
    return None


I64MAX, I64MIN = 2**63 - 1, -2**63


def c02_billing(stream, res, impl):
    """an accepted keep-alive of a light client on a trial balance debits it elapsed*price/interval per active peer"""
    if stream["component"] != "pool":
        return None
    cfg = {}
    prev, between = None, []
    for op, out in zip(res, impl):
        t = op.split()
        if len(t) < 2:
            continue
        if t[1] == "cfg":
            cfg = _kv(op)
        if t[1] == "dump":
            d = _dump(out)
            if d is not None and prev is not None and len(between) == 1 and between[0][0].split()[1] == "update" \
                    and between[0][1].startswith("ok ") and cfg.get("nobalance") == "0":
                o = between[0][0]
                who = o.split()[2]
                kv = _kv(o)
                nb0, nb1 = prev["nodes"].get(who), d["nodes"].get(who)
                try:
                    price, interval = int(cfg["price"]), int(cfg["interval"])
                except (KeyError, ValueError):
                    price, interval = 0, 0
                if nb0 and not nb0["isHost"] and interval > 0 and price != 0 and who in prev["nb"] and who in d["nb"] \
                        and prev["nb"][who][0] == "~" and d["nb"][who][0] == "~":
                    mnow = int(kv["mnow"].split(":")[1])
                    el = max(I64MIN, min(I64MAX, mnow - nb0["lastSeen"]))
                    credit = (el * price) // interval
                    peers = [x for x in d["peers"].get(who, [])]
                    n = len(peers)
                    if who in peers:
                        n -= 1  # the client credits and debits itself for its own entry
                    want = -credit * n
                    got = d["nb"][who][1] - prev["nb"][who][1]
                    if credit != 0 and got != want:
                        return "keep-alive of %s: elapsed %d ns x price %d / interval %d = %d per peer, %d active peers: debit should be %d, balance moved by %d" % (
                            who, el, price, interval, credit, len(peers), -want, got)
            prev, between = d, []
        else:
            between.append((op, out))
    return None


def _registry_sim(res, impl):
    """yield (op tokens, out, registry) with registry = host -> connection as the property defines it: the connection
    of the host's most recent registration, unless that connection was closed since"""
    reg = {}
    for op, out in zip(res, impl):
        t = op.split()
        if len(t) < 2:
            continue
        if t[1] == "cfg":
            reg = {}
        if t[1] in ("connect", "host") and len(t) > 5:
            conn, who, sig = t[2], t[3], t[5]
            full = (t[6] == "1") if t[1] == "connect" else True
            # the registration happens once the request is authenticated and its address accepted, before the
            # balance check: an "err LowBalance" answer still registered the connection
            if full and conn != "~" and (out == "ok" or out.startswith("err LowBalance")):
                reg[who] = conn
        if t[1] == "close" and len(t) > 2:
            for h in [h for h, c in reg.items() if c == t[2]]:
                del reg[h]
        yield t, out, dict(reg)


def c09_registry(stream, res, impl):
    """NumRemotes = hosts with a live registration; whitelist/disconnect calls only go to such connections"""
    if stream["component"] != "pool":
        return None
    for t, out, reg in _registry_sim(res, impl):
        if t[1] == "dump":
            d = _dump(out)
            if d is not None and d["remotes"] != len(reg):
                return "pool counts %d connected hosts, %d hosts have a live registered connection (%s)" % (d["remotes"], len(reg), sorted(reg.items()))
        if t[1] in ("peer", "client", "update"):
            okv = _kv(out)
            for key in ("wl", "disconnect"):
                for c in [c for c in okv.get(key, "").split(",") if c]:
                    if c not in reg.values():
                        return "%s call sent over connection %s, which no host is currently registered on (%s)" % (key, c, sorted(reg.items()))
    return None


def c08_acknowledged(stream, res, impl):
    base = c08_peer_reply(stream, res, impl)
    if base:
        return base
    if stream["component"] != "pool":
        return None
    for t, out, reg in _registry_sim(res, impl):
        if t[1] in ("peer", "client") and out.startswith("ok hosts="):
            kv, okv = _kv(" ".join(t)), _kv(out)
            bad = {}
            for e in [e for e in kv.get("outcomes", "").split(",") if e]:
                c, o = e.split(":")
                bad[c] = o
            for h in [h for h in okv.get("hosts", "").split(",") if h]:
                c = reg.get(h)
                if c is None:
                    return "returned host %s has no live registered connection" % h
                if c in bad:
                    return "returned host %s is registered on %s, whose whitelist call was scripted to %s" % (h, c, bad[c])
    return None


def c05_nonce(stream, res, impl):
    """the nonces honoured for one identity are strictly increasing (so no request is honoured twice)"""
    comp = stream["component"]
    last = {}

    def honour(ident, nonce, what):
        if ident in last and nonce <= last[ident]:
            return "identity %s: nonce %d honoured after nonce %d had been honoured (%s)" % (ident, nonce, last[ident], what[:160])
        last[ident] = nonce
        return None
    for op, out in zip(res, impl):
        t = op.split()
        if len(t) < 2:
            continue
        if t[0] == "case":
            last = {}
            continue
        if comp == "noncettl" and t[1] == "run":
            evs = [x for x in t if x.startswith("ev=")]
            if not evs or not out.startswith("verdicts="):
                continue
            vs = out[len("verdicts="):].split(",")
            for e, v in zip(evs[0][3:].split(","), vs):
                f = e.split(":")
                if len(f) == 3 and v == "1":
                    r = honour(f[0], int(f[1]), "replayed around the end of its freshness window, clock %s" % f[2])
                    if r:
                        return r
            last = {}
        elif comp == "store" and t[1] == "nonce" and len(t) >= 4 and out.startswith("ok"):
            try:
                r = honour(t[2], int(t[3].replace("t:", "")), op)
            except ValueError:
                r = None
            if r:
                return r
        elif comp == "pool" and t[1] in ("connect", "update", "peer", "host", "client", "addnode", "withdraw"):
            if out.startswith("err VerifyFailed") or out in ("noop", "") or "#skipped" in op:
                continue
            for i in range(2, len(t)):
                if t[i].startswith("t:"):
                    try:
                        r = honour(t[i - 1], int(t[i][2:]), op)
                    except ValueError:
                        r = None
                    if r:
                        return r
                    break
    return None
