"""Property monitors: executable predicates on what the *implementation* did on a case
(resolved op lines + implementation output lines).  A monitor returns None or a short
description of how the property itself fails on that trace.  Monitors are the search for a
concrete failing input when a proof obligation or the correspondence breaks; they never
replace a theorem (DESIGN.md 2.3)."""
import re


def _kv(line):
    d = {}
    for tok in line.split():
        if "=" in tok:
            k, v = tok.split("=", 1)
            d[k] = v
    return d


def _dump(line):
    """parse a pool dump line"""
    if not line.startswith("ok nodes="):
        return None
    d = _kv(line)
    out = {"raw": d}
    st = d.get("stats", "").split("/")
    if len(st) == 7:
        out["total_credit"] = int(st[5])
    out["nb"] = {}
    for e in filter(None, d.get("nb", "").split(",")):
        k, v = e.split("=", 1)
        acct, credit = v.rsplit("/", 1)
        out["nb"][k] = (acct, int(credit))
    out["ab"] = {}
    for e in filter(None, d.get("ab", "").split(",")):
        k, v = e.split("=", 1)
        acct, credit = v.rsplit("/", 1)
        out["ab"][k] = (acct, int(credit))
    out["paid"] = {k: int(v) for k, v in (e.split("=") for e in filter(None, d.get("paid", "").split(",")))}
    out["dep"] = {k: int(v) for k, v in (e.split("=") for e in filter(None, d.get("dep", "").split(",")))}
    out["remotes"] = int(d.get("remotes", "0"))
    out["nodes"] = {}
    for e in filter(None, d.get("nodes", "").split(",")):
        f = e.split(":")
        # name : t : <ns> : kind : isHost : uri... (uri may contain ':')
        out["nodes"][f[0]] = {"lastSeen": int(f[2]), "kind": f[3], "isHost": f[4] == "1", "rest": ":".join(f[5:])}
    out["peers"] = {}
    for e in filter(None, d.get("peers", "").split(",")):
        k, v = e.split(">", 1)
        out["peers"][k] = [x for x in v.split("+") if x]
    return out


def _during(op, out, dump_before):
    """(node, amount) credited by another request while this withdrawal's settlement was in flight, if the settlement
    handler was reached and the node is registered; else None"""
    d = _kv(op).get("during")
    if not d or not (out.startswith("ok") or out.startswith("err SettleFailed")):
        return None
    node, amt = d.split(":", 1)
    if dump_before is None or node not in dump_before["nb"]:
        return None
    return node, int(amt)


def c01_ledger(stream, res, impl):
    """zero-sum: between two dumps the total credit changes only by what a successful withdrawal settled"""
    if stream["component"] == "conc":
        for op, out in zip(res, impl):
            t = op.split()
            if len(t) > 1 and t[1] == "billrace":
                kv = _kv(out)
                if kv.get("rounds-nonzero-sum", "0") != "0" or kv.get("rounds-wrong-charge", "0") != "0":
                    return ("clients billed at the same moment: in %s round(s) the ledger did not sum to zero, in %s a client was charged for another client's elapsed time (%s)"
                            % (kv.get("rounds-nonzero-sum"), kv.get("rounds-wrong-charge"), kv.get("first", "")))
        return None
    if stream["component"] != "pool":
        return None
    prev, between = None, []
    for op, out in zip(res, impl):
        t = op.split()
        if len(t) < 2:
            continue
        if t[1] == "dump":
            d = _dump(out)
            if d is None or "total_credit" not in d:
                prev, between = None, []
                continue
            # the ledger total reported by Stats must be the sum of the balances one can read back
            wallets = {}
            tot = 0
            for n, (acct, credit) in d["nb"].items():
                if acct == "~":
                    tot += credit
            for w, (acct, credit) in d["ab"].items():
                tot += credit
            if prev is not None:
                wd = [(o, r) for o, r in between if o.split()[1] == "withdraw" and r.startswith("ok")]
                # `addnb` is the harness writing credit straight into the store (test set-up), not a pool operation
                injected = sum(int(o.split()[3]) for o, r in between if o.split()[1] == "addnb" and r.startswith("ok"))
                # ... and `during=` is another request's credit arriving while a settlement is in flight
                for o, r in between:
                    if o.split()[1] == "withdraw":
                        du = _during(o, r, prev)
                        if du:
                            injected += du[1]
                if not wd:
                    if d["total_credit"] != prev["total_credit"] + injected:
                        return "ledger total changed from %d to %d without a successful withdrawal (ops: %s)" % (
                            prev["total_credit"], d["total_credit"], "; ".join(o for o, _ in between)[:300])
                elif len(between) == 1:
                    w = between[0][0].split()[2]
                    settled = prev["ab"].get(w, ("~", 0))[1]
                    if d["total_credit"] != prev["total_credit"] - settled + injected:
                        return "withdrawal of %s changed the ledger total by %d, settled credit was %d" % (
                            w, prev["total_credit"] - d["total_credit"], settled)
            prev, between = d, []
        else:
            between.append((op, out))
    return None


def _digest(d):
    """the part of a dump a refused request must leave untouched"""
    raw = dict(d["raw"])
    return raw


def c06_refused_no_effect(stream, res, impl):
    """a request answered VerifyFailed between two dumps (alone) must leave the dump unchanged"""
    if stream["component"] != "pool":
        return None
    prev, between = None, []
    for op, out in zip(res, impl):
        t = op.split()
        if len(t) < 2:
            continue
        if t[1] == "dump":
            d = _dump(out)
            if d is not None and prev is not None and len(between) == 1 and between[0][1].startswith("err VerifyFailed"):
                a, b = dict(prev["raw"]), dict(d["raw"])
                # stats contain active counts that depend on the clock only through the window; compare everything
                if a != b:
                    diff = [k for k in a if a.get(k) != b.get(k)]
                    return "refused request changed %s: %s" % (",".join(diff), between[0][0][:200])
                if "unexpected-" in between[0][1]:
                    return "refused request called a host: %s -> %s" % (between[0][0][:160], between[0][1])
            prev, between = d, []
        else:
            between.append((op, out))
            if out.startswith("err VerifyFailed") and "unexpected-" in out:
                return "refused request called a host: %s -> %s" % (op[:160], out)
    return None


def c07_withdraw(stream, res, impl):
    """paid + owed is conserved up to the fee by a withdrawal; a failed/refused one pays nothing"""
    if stream["component"] == "conc":
        for op, out in zip(res, impl):
            t = op.split()
            if len(t) > 1 and t[1] == "withdraw" and out.startswith("ok"):
                a, o = _kv(op), _kv(out)
                try:
                    rounds = max(1, int(a.get("rounds", "1")))
                    credit, fee = int(a["credit"]), int(a["fee"])
                    succ, paid, left, mi = int(o["successes"]), int(o["paid"]), int(o["left"]), int(o["maxinflight"])
                except (KeyError, ValueError):
                    continue
                if mi > 1:
                    return "%d settlements of one wallet were in flight at the same time (%s -> %s)" % (mi, op[:160], out)
                if paid + left + fee * succ != rounds * credit or succ > rounds:
                    return ("racing withdrawals of one wallet: %d round(s) of %d earned, %d paid out in %d successful withdrawals (fee %d), %d left: "
                            "the same earnings were paid more than once or lost (%s)" % (rounds, credit, paid, succ, fee, left, op[:160]))
        return None
    if stream["component"] == "cache":
        # the deposit cache: a served value is a still-valid entry or the lookup's answer now
        exp_after, now, items = 0, 0, {}
        for op, out in zip(res, impl):
            t = op.split()
            if len(t) < 2:
                continue
            if t[0] == "case":
                exp_after, now, items = 0, 0, {}
            if t[1] == "reset":
                exp_after, items = int(t[2]), {}
            elif t[1] == "advance":
                now += int(t[2])
            elif t[1] == "set":
                items[t[2]] = (int(t[3]), None if exp_after == 0 else now + exp_after)
            elif t[1] == "get":
                it = items.get(t[2])
                live = it is not None and (it[1] is None or now < it[1])
                if live:
                    want = "ok %d" % it[0]
                elif t[3] == "fail":
                    items.pop(t[2], None)
                    want = "err lookup"
                else:
                    items[t[2]] = (int(t[3]), None if exp_after == 0 else now + exp_after)
                    want = "ok %s" % int(t[3])
                if out != want:
                    if out.startswith("ok") and not live and t[3] == "fail":
                        return "deposit of %s: the cached value expired, the lookup failed, and %s was served all the same (a withdrawal would pay it)" % (t[2], out[3:])
                    return "deposit of %s at clock %d: served `%s`, a still-valid entry or the lookup's answer is `%s`" % (t[2], now, out, want)
        return None
    if stream["component"] != "pool":
        return None
    cfg = {}
    prev, between = None, []
    for op, out in zip(res, impl):
        t = op.split()
        if len(t) < 2:
            continue
        if t[1] == "cfg":
            cfg = _kv(op)
        if t[1] == "dump":
            d = _dump(out)
            if d is not None and prev is not None and len(between) == 1 and between[0][0].split()[1] == "withdraw":
                w = between[0][0].split()[2]
                o, r = between[0]
                owed0 = prev["dep"].get(w, 0) + prev["ab"].get(w, ("~", 0))[1]
                owed1 = d["dep"].get(w, 0) + d["ab"].get(w, ("~", 0))[1]
                paid = d["paid"].get(w, 0) - prev["paid"].get(w, 0)
                fee = 0 if cfg.get("wfee", "off") == "off" else int(cfg["wfee"])
                # what a node of this wallet earned while the settlement was in flight is owed afterwards
                du = _during(o, r, prev)
                meanwhile = du[1] if (du and prev["nb"][du[0]][0] == w) else 0
                owed0 += 0 if r.startswith("ok") else meanwhile
                if r.startswith("ok"):
                    if paid != owed0 - fee:
                        return "withdrawal of %s paid %d, owed %d fee %d" % (w, paid, owed0, fee)
                    if owed1 != meanwhile:
                        return "withdrawal of %s left %d still owed (%d earned while it was being settled)" % (w, owed1, meanwhile)
                    if cfg.get("wmin", "off") != "off" and owed0 < int(cfg["wmin"]):
                        return "withdrawal of %s executed below the minimum (%d < %s)" % (w, owed0, cfg["wmin"])
                else:
                    if paid != 0 or owed1 != owed0:
                        return "failed/refused withdrawal of %s paid %d and changed the balance from %d to %d" % (w, paid, owed0, owed1)
            prev, between = d, []
        else:
            between.append((op, out))
    return None


def c08_peer_reply(stream, res, impl):
    """a reply never holds more hosts than requested / than the maximum; every returned host got a whitelist call"""
    if stream["component"] != "pool":
        return None
    cfg = {}
    for op, out in zip(res, impl):
        t = op.split()
        if len(t) < 2:
            continue
        if t[1] == "cfg":
            cfg = _kv(op)
        if t[1] in ("peer", "client") and out.startswith("ok hosts="):
            kv = _kv(op)
            okv = _kv(out)
            hosts = [h for h in okv.get("hosts", "").split(",") if h]
            wl = [h for h in okv.get("wl", "").split(",") if h]
            num = int(kv.get("num", "0"))
            if t[1] == "client" and num <= 0:
                num = 3
            mx = int(cfg.get("max", "0"))
            if len(hosts) > max(0, num):
                return "reply holds %d hosts, %d were requested: %s" % (len(hosts), num, op[:160])
            if mx > 0 and len(hosts) > mx:
                return "reply holds %d hosts, maximum is %d: %s" % (len(hosts), mx, op[:160])
            if len(wl) < len(hosts):
                return "reply holds %d hosts but only %d whitelist calls were made: %s" % (len(hosts), len(wl), op[:160])
            if t[2] if t[1] == "peer" else t[3] in hosts:
                pass
            who = t[2] if t[1] == "peer" else t[3]
            if who in hosts:
                return "the requester itself was returned: %s" % op[:160]
    return None


def c17_codec(stream, res, impl):
    """every written message is read exactly once, intact and in order; websocket runs deliver every message"""
    if stream["component"] != "codec":
        return None
    for op, out in zip(res, impl):
        t = op.split()
        if len(t) < 2:
            continue
        if t[1] == "stream":
            kv = _kv(op)
            data = bytes.fromhex(kv.get("hex", ""))
            written = [m.hex() for m in data.split(b"\n") if m]
            got = out.split()[1].split(",") if out.startswith("ok ") and len(out.split()) > 1 else []
            if got != written:
                k = 0
                while k < min(len(got), len(written)) and got[k] == written[k]:
                    k += 1
                return "stream of %d messages cut at %s delivered %d messages (first difference at message %d)" % (
                    len(written), kv.get("cuts", ""), len(got), k)
        if t[1] == "http" and _kv(op).get("drop") == "1":
            h = _kv(out).get("handled")
            if h not in (None, "1"):
                return "one message was written over HTTP; the server read and handled it %s times (the reply was lost once)" % h
            continue
        if t[1] == "http" and "reqlen" in _kv(op):
            kv = _kv(op)
            ms, mc, rl, pl = int(kv["maxs"]), int(kv["maxc"]), int(kv["reqlen"]), int(kv.get("resplen", "0"))
            if (ms == 0 or rl <= ms) and out != "ok intact" and (mc == 0 or pl <= mc or pl < 200):
                return "HTTP exchange (request body %d bytes%s, reply of %s characters, limits %d/%d): the message did not arrive intact: %s" % (
                    rl, ", sent chunked" if kv.get("chunked") == "1" else "", kv.get("resp"), ms, mc, out)
        if t[1] == "ws":
            kv = _kv(op)
            n = int(kv["writers"]) * int(kv["each"])
            okv = _kv(out)
            if okv.get("received") != str(n) or okv.get("intact") != str(n) or okv.get("order") != "ok":
                return "websocket %s run with %s writers x %s messages: %s" % (kv.get("lib"), kv["writers"], kv["each"], out)
    return None


def c18_ethrpc(stream, res, impl):
    if stream["component"] != "ethrpc":
        return None
    kind = "geth"
    for op, out in zip(res, impl):
        t = op.split()
        if len(t) == 3 and t[1] == "kind":
            kind = t[2]
            continue
        if len(t) == 3 and out.startswith("panic"):
            return "asked to %s `%s`, the %s node wrapper panicked (%s): the agent's process would die" % (t[1], t[2], kind, out[6:80])
        if len(t) == 3 and t[1] in ("connect", "disconnect", "trust", "untrust") and out.startswith("sent "):
            arg = "" if t[2] == "~" else t[2]
            add = t[1] in ("connect", "trust")
            if kind == "geth":
                meth = {"connect": "admin_addPeer", "disconnect": "admin_removePeer", "trust": "admin_addTrustedPeer", "untrust": "admin_removeTrustedPeer"}[t[1]]
                want = arg if arg.startswith("enode://") else "enode://" + arg
            elif kind == "parity":
                meth = "parity_addReservedPeer" if add else "parity_removeReservedPeer"
                want = arg if arg.startswith("enode://") else "enode://" + arg + "@[::]:30303"
            else:
                meth = "admin_addPeer" if add else "admin_removePeer"
                want = arg
            if out != "sent %s %s" % (meth, want if want else "~"):
                return "the agent asked its %s node to %s `%s`; the node's RPC endpoint received `%s`" % (kind, t[1], arg, out[5:])
    return None


def c18_agent(stream, res, impl):
    if stream["component"] == "ethrpc":
        return c18_ethrpc(stream, res, impl)
    return _c18_agent(stream, res, impl)


def _c18_agent(stream, res, impl):
    """a failed keep-alive makes no node call; non-strict rounds drop exactly the pool's invalid peers"""
    if stream["component"] != "agent":
        return None
    strict = False
    target = None
    for op, out in zip(res, impl):
        t = op.split()
        if len(t) < 2:
            continue
        kv = _kv(op)
        if t[1] == "setup":
            strict = kv.get("strict") == "1"
            target = int(kv["target"]) if kv.get("target", "").lstrip("-").isdigit() else None
        if t[1] == "round":
            okv = _kv(out)
            calls = [c for c in okv.get("calls", "").split(",") if c]
            if kv.get("update") == "ok" and kv.get("failat") == "-" and okv.get("result") == "ok" and target is not None and "peer" in okv:
                # exactly the shortfall against the pool's active list is requested, nothing when there is none
                active = [a for a in kv.get("active", "").split(",") if a]
                want = target - len(active)
                asked = okv["peer"]
                n_asked = 0 if asked == "none" else int(asked.split("/")[0]) if asked.split("/")[0].lstrip("-").isdigit() else None
                if n_asked is not None and n_asked != max(want, 0):
                    return "target %d, the pool lists %d active peers: the agent asked for %s hosts, the shortfall is %d" % (
                        target, len(active), "no" if asked == "none" else n_asked, max(want, 0))
            # whoever is un-trusted / disconnected is named by the key the node knows it under (the enode key of a
            # local peer) or by what the pool declared invalid - never by another field of the peer's description
            if kv.get("update") == "ok" and kv.get("L") is not None:
                known = set()
                for e in kv.get("L", "").split(";"):
                    f = e.split("|")
                    if len(f) == 4:
                        known.update([f[0], f[3]])
                known.update(x if x != "~" else "" for x in kv.get("I", "").split(";") if x)
                for c_ in calls:
                    if c_[:3] in ("rm:", "dc:") and c_[3:] not in known and ("" if c_[3:] == "~" else c_[3:]) not in known:
                        return "the agent asked its node to drop `%s`, which is neither the key of one of its peers (%s) nor an id the pool declared invalid" % (
                            c_[3:], ",".join(sorted(x for x in known if x)))
            if kv.get("update") != "ok" and (calls or okv.get("peer") != "none"):
                return "failed keep-alive but the agent acted on the node: %s" % out[:200]
            if kv.get("update") == "ok" and not strict:
                invalid = [x if x != "~" else "" for x in kv.get("I", "").split(";") if x]
                dropped = [c[3:] for c in calls if c.startswith("rm:")]
                if sorted(set(dropped)) != sorted(set(invalid)):
                    return "non-strict round un-trusted %s, the pool declared %s invalid" % (sorted(set(dropped)), sorted(set(invalid)))
            if kv.get("update") == "ok" and kv.get("failat") == "-" and kv.get("peer", "").startswith("hosts:") and okv.get("result") == "ok" \
                    and okv.get("peer", "none") != "none":
                returned = [h for h in kv["peer"][len("hosts:"):].split(";") if h]
                connected = [c[3:] for c in calls if c.startswith("co:")]
                missing = [h for h in returned if h not in connected]
                if missing:
                    return "the pool returned hosts %s; the agent did not connect to %s" % (returned, missing)
    return None


def c14_rpc(stream, res, impl):
    """every call returns the reply sent for its own id; storms return every caller's own token"""
    if stream["component"] != "rpc":
        return None
    tok_id, sent, cancelled = {}, {}, set()
    for op, out in zip(res, impl):
        t = op.split()
        if len(t) < 2:
            continue
        if t[1] == "call" and out.startswith("ok id="):
            tok_id[t[2]] = int(out.split("=")[1])
            kv = _kv(op)
            if "early" in kv:
                sent[tok_id[t[2]]] = ("result", kv["early"])
        elif t[1] == "reply" and out == "ok":
            sent[int(t[2])] = (t[3], t[4] if len(t) > 4 else "")
        elif t[1] == "cancel":
            cancelled.add(t[2])
        elif t[1] == "await" and out in ("pending", "err ctx") and t[2] not in cancelled and tok_id.get(t[2]) in sent:
            return "call %s (id %s) never got the reply that was delivered for its id (%s)" % (t[2], tok_id.get(t[2]), out)
        elif t[1] == "await" and out.startswith("returned "):
            i = tok_id.get(t[2])
            got = out.split(" ", 1)[1]
            if i is None or sent.get(i, (None, None)) != ("result", got):
                return "call %s (id %s) returned %r but the reply sent for its id was %r" % (t[2], i, got, sent.get(i))
        elif t[1] == "localrelay" and out != "ok answered=inner":
            return "a handler reached through an in-process Local called back over the service in its context and was answered by %s: that service is not the one the request arrived on" % out
        elif t[1] == "request" and "wrong-service-in-context" in out:
            return "a handler obtained a service from its context that is not the connection the request arrived on"
        elif t[1] == "storm":
            kv, okv = _kv(op), _kv(out)
            n = 2 * int(kv["callers"])
            if okv.get("returned") != str(n) or okv.get("own") != str(n):
                return "storm of %s concurrent callers per side (limit %s/%s): %s" % (kv["callers"], kv["limit"], kv["discard"], out)
    return None


def c13_persist(stream, res, impl):
    """a dump taken right after a reopen equals the dump taken right before it; readers never see a moving total"""
    if stream["component"] != "persist":
        return None
    for op, out in zip(res, impl):
        t = op.split()
        if len(t) > 1 and t[1] == "golden" and out.startswith("ok B["):
            try:
                b = out[out.index("B[") + 2:out.index("] L[")]
                l = out[out.index("L[") + 2:out.index("] trials=")] if "] trials=" in out else out[out.index("L[") + 2:].split(" trials=")[0].rstrip("]")
                links = {}
                for e in l.split(","):
                    if "<" in e:
                        a, ids = e.split("<", 1)
                        links[a] = [x for x in ids.split("+") if x]
                for e in b.split(","):
                    if "=" in e:
                        nid, rest = e.split("=", 1)
                        acct = rest.split("/")[0]
                        if acct != "~" and nid not in links.get(acct, []):
                            return ("a database in the current format, written key by key as earlier builds wrote it: after opening, node %s spends from wallet %s "
                                    "(GetNodeBalance) but the wallet's node list does not contain it (%s): the link was not read back" % (nid, acct, l))
            except ValueError:
                pass
    last_dump = None
    after_reopen = False
    prepared = None
    for op, out in zip(res, impl):
        t = op.split()
        if len(t) < 2:
            continue
        if t[1] == "prepare":
            prepared = (_kv(op).get("content"), _kv(op).get("version"), 0)
        elif t[1] == "open" and prepared and out == "ok":
            prepared = (prepared[0], prepared[1], 1)
        elif t[1] == "dump" and prepared and prepared[2] == 1:
            if prepared[0] is not None and out.startswith("ok ") and out[3:] != prepared[0]:
                return ("opening a format-%s database changed its nodes / peers / balances: before the migration %s, after it %s"
                        % (prepared[1], prepared[0][:400], out[3:][:400]))
            prepared = None
        elif t[1] != "version":
            prepared = None
        if t[1] == "dump" and out.startswith("ok "):
            if after_reopen and last_dump is not None and out != last_dump:
                return "state read back after reopen differs from the state acknowledged before it"
            last_dump, after_reopen = out, False
        elif t[1] in ("reopen", "torn"):
            if t[1] == "torn" and out != "ok":
                return "after a torn (never acknowledged) append to the value log the store does not open any more: %s" % out[:200]
            after_reopen = last_dump is not None
        elif t[1] in ("op", "crash", "prepare", "open"):
            if t[1] != "op" or t[2] not in ("getnode", "peers", "getnb", "getab", "nodes", "isan", "stats", "active"):
                last_dump, after_reopen = None, False
        if t[1] == "readers" and out != "ok violations=0":
            return "readers observed a ledger total that moved during a trial-balance migration: %s" % out
        if t[1] == "crash" and not out.startswith("ok crash-consistent"):
            return "state after kill -9 is not the state after the acknowledged operations (or one more)"
    return None


I64MAX, I64MIN = 2**63 - 1, -2**63


def c02_billing(stream, res, impl):
    """an accepted keep-alive of a light client on a trial balance debits it elapsed*price/interval per active peer"""
    if stream["component"] != "pool":
        return None
    cfg = {}
    prev, between = None, []
    for op, out in zip(res, impl):
        t = op.split()
        if len(t) < 2:
            continue
        if t[1] == "cfg":
            cfg = _kv(op)
        if t[1] == "dump":
            d = _dump(out)
            # the keep-alive may be preceded by harness-injected node records (`setnode`): they only move LastSeen
            inj = {}
            for bo, _ in between[:-1]:
                bt = bo.split()
                if len(bt) > 4 and bt[1] == "setnode" and bt[3].startswith("t:"):
                    inj[bt[2]] = {"lastSeen": int(bt[3][2:]), "isHost": bt[4] == "1"}
                else:
                    inj = None
                    break
            if d is not None and prev is not None and between and inj is not None and between[-1][0].split()[1] == "update" \
                    and between[-1][1].startswith("ok ") and cfg.get("nobalance") == "0":
                o = between[-1][0]
                who = o.split()[2]
                kv = _kv(o)
                nb0, nb1 = inj.get(who) or prev["nodes"].get(who), d["nodes"].get(who)
                try:
                    price, interval = int(cfg["price"]), int(cfg["interval"])
                except (KeyError, ValueError):
                    price, interval = 0, 0
                if nb0 and not nb0["isHost"] and interval > 0 and price != 0 and who in prev["nb"] and who in d["nb"] \
                        and prev["nb"][who][0] == "~" and d["nb"][who][0] == "~":
                    mnow = int(kv["mnow"].split(":")[1])
                    el = max(I64MIN, min(I64MAX, mnow - nb0["lastSeen"]))
                    credit = (el * price) // interval
                    peers = [x for x in d["peers"].get(who, [])]
                    n = len(peers)
                    if who in peers:
                        n -= 1  # the client credits and debits itself for its own entry
                    # credits the store refused (fault injection) are not charged
                    failed = [x for x in kv.get("failpeer", "").split(",") if x and x in peers and x != who]
                    n -= len(set(failed))
                    if kv.get("fail"):
                        continue
                    want = -credit * n
                    got = d["nb"][who][1] - prev["nb"][who][1]
                    if credit != 0 and got != want:
                        return "keep-alive of %s: elapsed %d ns x price %d / interval %d = %d per peer, %d active peers: debit should be %d, balance moved by %d" % (
                            who, el, price, interval, credit, len(peers), -want, got)
            # a keep-alive reported as failed (other than cut off for its balance, which keeps the charge, or a failing
            # deposit read-back after the charge) moved nothing: all or nothing
            if d is not None and prev is not None and between and between[-1][0].split()[1] == "update" \
                    and all(bo.split()[1] == "setnode" for bo, _ in between[:-1]) \
                    and between[-1][1].startswith("err ") and not between[-1][1].startswith(("err LowBalance", "err DepositLookup")):
                moved = [n for n in d["nb"] if n in prev["nb"] and d["nb"][n][1] != prev["nb"][n][1]]
                if moved:
                    return "keep-alive of %s failed (%s) yet balances moved: %s" % (
                        between[-1][0].split()[2], between[-1][1][:60], ", ".join("%s %d -> %d" % (n, prev["nb"][n][1], d["nb"][n][1]) for n in moved))
            # a (re)connect restarts the billing clock: the elapsed time of the next keep-alive counts from it
            if d is not None and len(between) == 1 and between[0][0].split()[1] == "connect" and between[0][1] == "ok":
                bt = between[0][0].split()
                cnow = _kv(between[0][0]).get("now", "")
                nd = d["nodes"].get(bt[3])
                if nd and cnow.startswith("t:") and nd["lastSeen"] < int(cnow[2:]):
                    return ("connect of %s at %s left its last check-in at %d: the next keep-alive will bill the time before the connect"
                            % (bt[3], cnow, nd["lastSeen"]))
            prev, between = d, []
        else:
            between.append((op, out))
    return None


def _registry_sim(res, impl):
    """yield (op tokens, out, registry) with registry = host -> connection as the property defines it: the connection
    of the host's most recent registration, unless that connection was closed since"""
    reg = {}
    for op, out in zip(res, impl):
        t = op.split()
        if len(t) < 2:
            continue
        if t[1] == "cfg":
            reg = {}
        if t[1] in ("connect", "host") and len(t) > 5:
            conn, who, sig = t[2], t[3], t[5]
            full = (t[6] == "1") if t[1] == "connect" else True
            # the registration happens once the request is authenticated and its address accepted, before the
            # balance check: an "err LowBalance" answer still registered the connection
            if full and conn != "~" and (out == "ok" or out.startswith("err LowBalance")):
                reg[who] = conn
        if t[1] == "close" and len(t) > 2:
            for h in [h for h, c in reg.items() if c == t[2]]:
                del reg[h]
        yield t, out, dict(reg)


def c09_conn(stream, res, impl):
    if stream["component"] != "fuzz":
        return None
    for op, out in zip(res, impl):
        t = op.split()
        if len(t) > 1 and t[1] == "strayclose" and "remotes-after-close" in out:
            kv = _kv(out)
            return "a host sent a reply nobody was waiting for and closed its connection: the pool still counts %s connected hosts (%s before the close)" % (kv.get("remotes-after-close"), kv.get("remotes-before"))
    return None


def c09_registry(stream, res, impl):
    if stream["component"] == "fuzz":
        return c09_conn(stream, res, impl)
    return _c09_registry(stream, res, impl)


def _c09_registry(stream, res, impl):
    """NumRemotes = hosts with a live registration; whitelist/disconnect calls only go to such connections"""
    if stream["component"] == "poolbin":
        reg, refusing = {}, set()
        for op, out in zip(res, impl):
            t = op.split()
            if len(t) < 2:
                continue
            if t[0] == "case" or t[1] == "start":
                reg, refusing = {}, set()
            elif t[1] == "hostconn" and out == "ok":
                reg[t[3]] = t[2]
            elif t[1] == "hostmode" and t[2] in reg.values():
                (refusing.add if t[3] == "refuse" else refusing.discard)(t[2])
            elif t[1] == "closeconn":
                refusing.discard(t[2])
                for h in [h for h, c in reg.items() if c == t[2]]:
                    del reg[h]
            elif t[1] == "peer" and len(t) > 2:
                # a request for a given number of hosts: the pool's pick is its own, only the counts are prescribed
                kv = _kv(out)
                if out.startswith("ok") and (int(kv.get("nwl", "0")) > len(reg) or int(kv.get("nhosts", "0")) > len(reg)):
                    return "%d hosts have a live connection; the pool called %s connections and named %s hosts" % (len(reg), kv.get("nwl"), kv.get("nhosts"))
            elif t[1] == "peer":
                kv = _kv(out)
                if out.startswith("err client-refused") or out.startswith("err not-running"):
                    continue
                wl = sorted(x for x in kv.get("wl", "").split(",") if x)
                hosts = sorted(x for x in kv.get("hosts", "").split(",") if x)
                acked = sorted(h for h, c in reg.items() if c not in refusing)
                if out.startswith("err HostsFailed") and (not reg or acked):
                    return ("hosts with a live connection: %s, refusing: %s; yet the client was told that calling the hosts failed: "
                            "the pool called a connection that is gone" % (sorted(reg.items()), sorted(refusing)))
                if wl != sorted(reg.values()):
                    return ("hosts with a live connection: %s; the pool called connections %s and answered the client `%s`"
                            % (sorted(reg.items()), wl, out[:160]))
                if hosts != acked:
                    return ("hosts that acknowledged the whitelist instruction: %s (refusing connections: %s); the client was given %s"
                            % (acked, sorted(refusing), hosts))
        return None
    if stream["component"] != "pool":
        return None
    for t, out, reg in _registry_sim(res, impl):
        if t[1] == "dump":
            d = _dump(out)
            if d is not None and d["remotes"] != len(reg):
                return "pool counts %d connected hosts, %d hosts have a live registered connection (%s)" % (d["remotes"], len(reg), sorted(reg.items()))
        if t[1] in ("peer", "client", "update"):
            okv = _kv(out)
            for key in ("wl", "disconnect"):
                for c in [c for c in okv.get(key, "").split(",") if c]:
                    if c not in reg.values():
                        return "%s call sent over connection %s, which no host is currently registered on (%s)" % (key, c, sorted(reg.items()))
    return None


def c08_acknowledged(stream, res, impl):
    base = c08_peer_reply(stream, res, impl)
    if base:
        return base
    if stream["component"] != "pool":
        return None
    peered = {}   # client -> hosts it reported in its latest accepted keep-alive (with their connection still live)
    for t, out, reg in _registry_sim(res, impl):
        if t[1] == "cfg":
            peered = {}
        if t[1] == "update" and out.startswith("ok "):
            kvu = _kv(" ".join(t))
            inval = set(x for x in _kv(out).get("invalid", "").split(",") if x)
            peered[t[2]] = set(p for p in kvu.get("peers", "").split(",") if p and p in reg and p not in inval)
        elif t[1] != "peer" and t[1] != "dump":
            peered = {}   # anything else may move what counts as a peer: judge only right after the client's keep-alive
        if t[1] == "peer" and out.startswith("ok hosts=") and t[2] in peered:
            again = [h for h in _kv(out).get("hosts", "").split(",") if h and h in peered[t[2]]]
            if again:
                return "%s was offered %s again, a host it had just reported as its peer" % (t[2], ",".join(again))
        if t[1] in ("peer", "client") and out.startswith("ok hosts="):
            kv, okv = _kv(" ".join(t)), _kv(out)
            bad = {}
            for e in [e for e in kv.get("outcomes", "").split(",") if e]:
                c, o = e.split(":")
                bad[c] = o
            for h in [h for h in okv.get("hosts", "").split(",") if h]:
                c = reg.get(h)
                if c is None:
                    return "returned host %s has no live registered connection" % h
                if c in bad:
                    return "returned host %s is registered on %s, whose whitelist call was scripted to %s" % (h, c, bad[c])
    return None


def c05_nonce(stream, res, impl):
    """the nonces honoured for one identity are strictly increasing (so no request is honoured twice)"""
    comp = stream["component"]
    last = {}

    def honour(ident, nonce, what):
        if ident in last and nonce <= last[ident]:
            return "identity %s: nonce %d honoured after nonce %d had been honoured (%s)" % (ident, nonce, last[ident], what[:160])
        last[ident] = nonce
        return None
    for op, out in zip(res, impl):
        t = op.split()
        if len(t) < 2:
            continue
        if t[0] == "case":
            last = {}
            continue
        if comp == "conc" and t[1] == "nonces":
            kv = _kv(out)
            if kv.get("rounds-with-duplicates", "0") != "0":
                return ("the same (identity, nonce) was accepted more than once by concurrent submissions in %s round(s): %s -> %s"
                        % (kv["rounds-with-duplicates"], op[:120], out))
            if kv.get("rounds-with-regress", "0") != "0":
                return ("after concurrent submissions of one identity the highest honoured nonce was honoured again in %s round(s): the nonce table moved backwards (%s -> %s)"
                        % (kv["rounds-with-regress"], op[:120], out))
            continue
        if comp == "noncettl" and t[1] == "run":
            evs = [x for x in t if x.startswith("ev=")]
            if not evs or not out.startswith("verdicts="):
                continue
            vs = out[len("verdicts="):].split(",")
            win = [x for x in t if x.startswith("window=")]
            for e, v in zip(evs[0][3:].split(","), vs):
                f = e.split(":")
                if len(f) == 3 and v == "1" and win:
                    # (the clock reading is the one taken before the call: a nonce stale by then is stale for the store)
                    if int(f[1]) <= int(f[2]) - int(win[0][7:]) - 5000000:
                        return "identity %s: nonce %s was honoured at clock %s, %d ms after it had left the %d ms freshness window" % (
                            f[0], f[1], f[2], (int(f[2]) - int(win[0][7:]) - int(f[1])) // 1000000, int(win[0][7:]) // 1000000)
                if len(f) == 3 and v == "1":
                    r = honour(f[0], int(f[1]), "replayed around the end of its freshness window, clock %s" % f[2])
                    if r:
                        return r
            last = {}
        elif comp == "store" and t[1] == "nonce" and len(t) >= 4 and out.startswith("ok"):
            try:
                r = honour(t[2], int(t[3].replace("t:", "")), op)
            except ValueError:
                r = None
            if r:
                return r
        elif comp == "pool" and t[1] in ("connect", "update", "peer", "host", "client", "addnode", "withdraw"):
            if out.startswith("err VerifyFailed") or out in ("noop", "") or "#skipped" in op:
                continue
            for i in range(2, len(t)):
                if t[i].startswith("t:"):
                    try:
                        r = honour(t[i - 1], int(t[i][2:]), op)
                    except ValueError:
                        r = None
                    if r:
                        return r
                    break
    return None


def _sig_fields(t):
    """(identity, nonce, kind) of a signed pool op: the nonce is the first time token, preceded by the identity and
    followed by the signature kind"""
    for i in range(2, len(t) - 1):
        if t[i].startswith("t:"):
            try:
                return t[i - 1], int(t[i][2:]), t[i + 1]
            except ValueError:
                return None
    return None


SIGNED_OPS = ("connect", "update", "peer", "host", "client", "addnode", "withdraw")
NONCE_WINDOW_NS = 15 * 60 * 10**9


def c04_altered_refused(stream, res, impl):
    """a request whose signature does not cover exactly (method, identity, nonce, parameters) under the named
    identity's key is refused; and (C06) a refused request does not consume the identity's nonce"""
    if stream["component"] != "pool":
        return None
    honoured, burned = {}, {}
    for op, out in zip(res, impl):
        t = op.split()
        if len(t) < 2 or "#skipped" in op or out in ("noop", ""):
            continue
        if t[1] == "cfg":
            honoured, burned = {}, {}
        if t[1] not in SIGNED_OPS:
            continue
        f = _sig_fields(t)
        if not f:
            continue
        ident, nonce, kind = f
        refused = out.startswith("err VerifyFailed")
        if kind not in ("good", "oldfmt"):
            if not refused:
                return "request with signature kind `%s` was carried out: %s -> %s" % (kind, op[:200], out[:120])
            burned[ident] = max(burned.get(ident, nonce), nonce)
            continue
        now = _kv(op).get("now", "")
        now = int(now[2:]) if now.startswith("t:") else None
        if refused:
            fresh = now is not None and nonce > now - NONCE_WINDOW_NS + 10**9
            if fresh and nonce > honoured.get(ident, 0) and (ident not in burned or nonce > burned[ident]) \
                    and t[1] not in ("addnode", "withdraw"):
                return ("correctly signed request of %s with a fresh nonce %d above every nonce seen for it (last honoured %d) was refused: %s -> %s"
                        % (ident, nonce, honoured.get(ident, 0), op[:200], out[:80]))
            if fresh and nonce > honoured.get(ident, 0) and ident in burned and nonce <= burned[ident]:
                return ("correctly signed request of %s with fresh nonce %d (last honoured %d) refused after a refused forgery with nonce %d: "
                        "the forgery consumed the nonce: %s" % (ident, nonce, honoured.get(ident, 0), burned[ident], op[:200]))
        else:
            honoured[ident] = max(honoured.get(ident, nonce), nonce)
    return None


def c04_sigstorm(stream, res, impl):
    """many identities verified at once: every genuine fresh request accepted, every altered one refused"""
    if stream["component"] != "conc":
        return None
    for op, out in zip(res, impl):
        t = op.split()
        if len(t) > 1 and t[1] == "sigstorm":
            kv = _kv(out)
            if kv.get("alteredaccepted", "0") != "0":
                return "%s requests whose parameters were altered after signing were honoured while other requests were being verified (%s)" % (kv["alteredaccepted"], kv.get("first", ""))
            if kv.get("goodrefused", "0") != "0":
                return "%s correctly signed fresh requests were refused as badly signed while other requests were being verified (%s)" % (kv["goodrefused"], kv.get("first", ""))
    return None


def c04_c06(stream, res, impl):
    return c04_sigstorm(stream, res, impl) or c04_altered_refused(stream, res, impl) or c06_refused_no_effect(stream, res, impl)


def c03_cutoff(stream, res, impl):
    """a keep-alive cut off for low balance asks exactly the connected hosts among the client's active peers to
    disconnect it, each once; the reported balance is the stored one"""
    if stream["component"] != "pool":
        return None
    pending = None
    for t, out, reg in _registry_sim(res, impl):
        if t[1] == "dump" and pending is not None:
            d = _dump(out)
            who, got, line = pending
            pending = None
            if d is None:
                continue
            want = sorted(reg[h] for h in d["peers"].get(who, []) if h in reg)
            if sorted(got) != want:
                return "low-balance cut-off of %s: disconnect calls went to %s, its connected active peers are on %s (%s)" % (who, sorted(got), want, line[:200])
        elif t[1] == "update" and out.startswith("err LowBalance"):
            okv = _kv(out)
            if "unexpected-disconnect" in okv:
                continue
            pending = (t[2], [c for c in okv.get("disconnect", "").split(",") if c], " ".join(t))
        elif t[1] != "dump":
            pending = None
    return None


EXPIRE_NS = 120 * 10**9


def c11_expiry(stream, res, impl):
    """a keep-alive declares invalid exactly the tracked-or-reported registered peers whose recorded check-in is
    older than the expiry window; the others stay tracked"""
    comp = stream["component"]
    last, tracked = {}, {}

    def ts(tok):
        return int(tok[2:]) if tok.startswith("t:") else int(tok)
    for op, out in zip(res, impl):
        t = op.split()
        if len(t) < 2 or "#skipped" in op or out in ("noop", ""):
            continue
        if t[0] == "case" or t[1] == "cfg":
            last, tracked = {}, {}
        try:
            if comp == "store":
                if t[1] == "setnode" and out == "ok":
                    last[t[2]] = ts(t[3])
                elif t[1] == "unp" and out.startswith("ok inactive="):
                    node, now = t[2], ts(_kv(op)["now"])
                    peers = [x for x in _kv(op).get("peers", "").split(",") if x]
                    got = sorted(x for x in out[len("ok inactive="):].split(",") if x)
                elif t[1] == "peers" and out.startswith("ok peers="):
                    want = sorted(p for p in tracked.get(t[2], {}) if p in last)
                    got = sorted(x for x in out[len("ok peers="):].split(",") if x)
                    if got != want:
                        return "store tracks peers %s for %s, the keep-alive history leaves %s" % (got, t[2], want)
                    continue
                else:
                    continue
                if t[1] == "setnode":
                    continue
            elif comp == "pool":
                if t[1] == "dump":
                    d = _dump(out)
                    if d is not None:
                        last = {k: v["lastSeen"] for k, v in d["nodes"].items()}
                    continue
                if t[1] == "setnode" and out == "ok":
                    last[t[2]] = ts(t[3])
                    continue
                if t[1] in ("connect", "host", "client") and out.startswith("ok"):
                    # (re)registration stamps the node with the pool's clock
                    last[t[3]] = ts(_kv(op)["now"])
                    continue
                if t[1] != "update" or not out.startswith("ok invalid="):
                    continue
                node, now = t[2], ts(_kv(op)["now"])
                peers = [x for x in _kv(op).get("peers", "").split(",") if x]
                got = sorted(x for x in _kv(out).get("invalid", "").split(",") if x)
            else:
                return None
        except (KeyError, ValueError, IndexError):
            continue
        if node not in last:
            continue
        last[node] = now
        tr = tracked.setdefault(node, {})
        for p in peers:
            if p in last:
                tr[p] = last[p]
        want = sorted(p for p, v in tr.items() if v <= now - EXPIRE_NS)
        for p in want:
            del tr[p]
        if got != want:
            return ("keep-alive of %s at %d declared %s invalid; the peers whose recorded check-in is older than the window are %s (%s)"
                    % (node, now, got, want, op[:200]))
    return None


def c16_surface(stream, res, impl):
    """only registered names are callable, and never with a parameter count the declaration does not admit; a refused
    call does not run the method"""
    if stream["component"] not in ("srv", "srvbin"):
        return None
    table = {}
    for op, out in zip(res, impl):
        t = op.split()
        if len(t) < 2:
            continue
        if t[0] == "case":
            table = {}
        if t[1] == "reg" and out == "ok":
            kv = _kv(op)
            pre = "" if t[2] == "~" else t[2]
            allow = [a for a in kv.get("allow", "").split(",") if a]
            for m in [m for m in kv.get("methods", "").split(",") if m]:
                name, _, types = m.partition(":")
                name = name.rstrip("!")
                rpc = name[:1].lower() + name[1:]
                if allow and rpc not in allow:
                    continue
                table.setdefault(pre + rpc, [x for x in types.split(".") if x])
        elif t[1] == "call" and len(t) >= 4:
            if out == "noop" or "#skipped" in op:
                continue  # not sent (the library client cannot produce this parameter shape)
            name = "" if t[2] == "~" else t[2]
            tok = t[3]
            ran = _kv(out).get("inv", "0") != "0"
            if (out.startswith("err InvalidParams") or out.startswith("err MethodNotFound")) and ran:
                return "call refused as %s although the method ran: %s -> %s" % (out.split()[1], op, out)
            if name not in table:
                if not out.startswith("err MethodNotFound") or ran:
                    return "`%s` is not a registered RPC name, yet the call was not refused as method-not-found: %s -> %s" % (name, op, out)
                continue
            types = table[name]
            if tok == "nonarray":
                k = None
            elif tok in ("absent", "null", "[]"):
                k = 0
            else:
                k = len(tok.split("."))
            bad = k is None or k > len(types) or any(not ty.startswith("p") for ty in types[k:])
            if bad and (out.startswith("result") or ran or out == "ran"):
                return ("`%s` declares %d parameter(s) (%s); a call with %s was carried out: %s -> %s"
                        % (name, len(types), ".".join(types) or "none", "non-array params" if k is None else "%d parameter(s)" % k, op, out))
    return None


_HOSTPORT = re.compile(r"^(\[[^\[\]]+\]|[^:\[\]]+):(\d+)$")


def c19_advertised(stream, res, impl):
    if stream["component"] == "conc":
        return c19_noderace(stream, res, impl)
    return _c19_advertised(stream, res, impl)


def _c19_advertised(stream, res, impl):
    """every host the pool stores/advertises carries its own id and an address that splits into host and port"""
    if stream["component"] == "uri":
        for op, out in zip(res, impl):
            t = op.split()
            if len(t) < 2 or t[1] != "norm" or not out.startswith("ok "):
                continue
            kv, okv = _kv(op), _kv(out)
            if okv.get("id") != kv.get("id"):
                return "a host authenticated as %s is advertised under the identity `%s` (override %s)" % (kv.get("id"), okv.get("id"), kv.get("raw"))
            # an override of the plain form enode://[user@]host[:port][/...] whose host is a name, an IPv4 or a
            # bracketed IPv6 literal other than the unspecified address: that host (and port) is what is advertised
            try:
                rawtxt = bytes.fromhex(kv.get("raw", "")).decode("utf-8", "strict")
            except (ValueError, UnicodeDecodeError):
                rawtxt = ""
            mo = re.match(r"^enode://(?:[A-Za-z0-9]*@)?(\[[0-9a-fA-F:.]+(?:%25[A-Za-z0-9]+)?\]|[A-Za-z0-9.-]+)(?::(\d{1,5}))?(?:[/?#].*)?$", rawtxt)
            if mo:
                h = mo.group(1)
                if h.startswith("["):
                    h = h[1:-1].replace("%25", "%")
                if h not in ("", "::") and okv.get("host") not in (None, h):
                    return "host %s supplied the address %s (override %s) and is advertised at %s" % (kv.get("id"), h, rawtxt, okv.get("host"))
                if h not in ("", "::") and mo.group(2) and okv.get("port") not in (None, str(int(mo.group(2)))):
                    return "host %s supplied port %s (override %s) and is advertised with port %s" % (kv.get("id"), mo.group(2), rawtxt, okv.get("port"))
            port = okv.get("port", "")
            if okv.get("host", "~") in ("~", "") or not port.isdigit() or not (0 <= int(port) < 65536):
                return "host %s is advertised at the undialable address %s:%s (override %s, source %s)" % (
                    kv.get("id"), okv.get("host"), port, kv.get("raw"), kv.get("src"))
        return None
    if stream["component"] != "pool":
        return None
    injected = set()
    for op, out in zip(res, impl):
        t = op.split()
        if len(t) > 2 and t[1] == "cfg":
            injected = set()
        if len(t) > 2 and t[1] == "setnode":
            injected.add(t[2])  # a record the harness wrote into the store directly, not one the pool registered
        if len(t) > 3 and t[1] in ("connect", "host") and out.startswith("ok"):
            injected.discard(t[3])
        if len(t) < 2 or t[1] != "dump":
            continue
        d = _dump(out)
        if d is None:
            continue
        for name, n in d["nodes"].items():
            if name in injected:
                continue
            rest = n["rest"].split(":")
            uri = ":".join(rest[:-2])
            if uri in ("", "~") or not n["isHost"]:
                continue
            m = re.match(r"^enode://([^@]*)@(.*)$", uri)
            if not m:
                return "host %s is stored under the URI %s, which is not enode://id@host:port" % (name, uri)
            if m.group(1) != name:
                return "host %s is advertised under the identity %s (%s)" % (name, m.group(1), uri)
            hp = _HOSTPORT.match(m.group(2).split("?")[0])
            if not hp or not (0 < int(hp.group(2)) < 65536):
                return "host %s is advertised at %s, which does not split into a dialable host and port (%s)" % (name, m.group(2), uri)
    return None


def c20_life(stream, res, impl):
    """one loop at a time; a running loop can always be stopped; after it ended the agent can be started again"""
    if stream["component"] != "agentlife":
        return None
    loops = 0
    for op, out in zip(res, impl):
        t = op.split()
        if len(t) < 2:
            continue
        if t[1] == "reset":
            loops = 0
        elif t[1] == "run" and len(t) > 2 and t[2] == "slow" and "cadence=drift" in out:
            return "with a pool that answers after half an interval the agent's keep-alives drift apart: %s (one per interval expected)" % out
        elif t[1] == "start" and len(t) > 2:
            if loops == 1 and not out.startswith("err AlreadyStarted"):
                return "a second start while the loop is running was not refused: %s" % out
            if loops == 0 and out.startswith("err AlreadyStarted"):
                return "start refused as already started although no loop is running (the previous run has ended)"
            if loops == 0 and out == "ok" and t[2] == "ok":
                loops = 1
        elif t[1] == "start2":
            outs = sorted(out.split(","))
            if loops == 0 and outs != ["err AlreadyStarted", "ok"]:
                return "two racing starts: %s (exactly one must be accepted)" % out
            if loops == 1 and outs != ["err AlreadyStarted", "err AlreadyStarted"]:
                return "racing starts while a loop is running: %s" % out
            loops = 1
        elif t[1] == "stop":
            if loops == 1 and out == "blocked":
                return "stop of a running agent did not return"
            if out != "blocked":
                loops = 0
        elif t[1] == "stop2":
            if "blocked" in out:
                return "one of two concurrent stops did not return: %s" % out
            loops = 0
        elif t[1] == "stopfail":
            if out == "blocked":
                return "Stop was pending when the loop ended on a failed keep-alive, and never returned"
            if out != "no-keepalive":
                loops = 0
        elif t[1] == "run":
            m = re.match(r"loops=(\d+)", out)
            if m and int(m.group(1)) > 1:
                return "%s keep-alive loops are running at once" % m.group(1)
            if m and int(m.group(1)) != loops:
                return "%s keep-alive loop(s) running, the start/stop history leaves %d" % (m.group(1), loops)
            if len(t) > 2 and t[2] == "fail":
                loops = 0
    return None


def c10_conc(stream, res, impl):
    """concurrent workloads: nonce decisions and withdrawals must be those of some serial order"""
    return c05_nonce(stream, res, impl) or c07_withdraw(stream, res, impl) or c14_rpc(stream, res, impl)


def c08_c09(stream, res, impl):
    if stream["component"] == "poolbin":
        return c09_registry(stream, res, impl)
    return c08_acknowledged(stream, res, impl)


_UNITS = {"wei": 1, "kwei": 10**3, "babbage": 10**3, "mwei": 10**6, "lovelace": 10**6, "gwei": 10**9, "shannon": 10**9,
          "microether": 10**12, "szabo": 10**12, "milliether": 10**15, "finney": 10**15, "ether": 10**18, "eth": 10**18}


def _ether_flag(tok):
    """the amount in wei an operator means by a flag value like `5_gwei` (None: not an amount)"""
    from fractions import Fraction
    v = tok.replace("_", " ").strip()
    m = re.match(r"^(-?\d+(?:\.\d+)?)\s*([A-Za-z]*)$", v)
    if not m:
        return None
    unit = m.group(2).lower()
    if unit == "":
        return int(m.group(1)) if "." not in m.group(1) else None
    if unit not in _UNITS:
        return None
    return (Fraction(m.group(1)) * _UNITS[unit]).__floor__()


def c03_binary(stream, res, impl):
    """the built pool binary: the minimum balance and the price the operator configured decide who is admitted and
    whether keep-alives are billable"""
    if stream["component"] != "poolbin":
        return c03_cutoff(stream, res, impl)
    minb, price, flagmin = None, None, ""
    bal = {}
    for op, out in zip(res, impl):
        t = op.split()
        if len(t) < 2:
            continue
        if t[0] == "case":
            minb, price = None, None
            bal = {}
        if t[1] == "start" and out == "ok":
            kv = _kv(op)
            flagmin = kv.get("min", "")
            minb = None if kv.get("min") == "off" else _ether_flag(kv.get("min", ""))
            price = _ether_flag(kv.get("price", ""))
            bal = {}
        elif t[1] == "kbillhangup" and minb is not None and minb >= 0 and price and out == "sent disc=":
            return "minimum balance `%s`: client %s was billed below it by a keep-alive (it hung up before the reply); no host was asked to disconnect it" % (flagmin, t[2])
        elif t[1] == "kbill" and "cur" in _kv(op):
            cur = int(_kv(op)["cur"])
            bal[t[2]] = cur
            if minb is not None and cur < minb and out == "ok":
                return "minimum balance configured as `%s` (= %d wei): the keep-alive that left client %s with %d wei was not refused (no cut-off)" % (flagmin, minb, t[2], cur)
            if (minb is None or cur >= minb) and out.startswith("err LowBalance"):
                return "minimum balance `%s`: client %s with %d wei was cut off (%s)" % (flagmin, t[2], cur, out)
        elif t[1] == "client" and minb is not None:
            # a light client that was never billed has a balance of 0
            b = bal.get(t[2], 0)
            if minb > b and out == "ok":
                return "minimum balance configured as `%s` (= %d wei): a client with balance %d was admitted" % (flagmin, minb, b)
            if minb <= b and out.startswith("err LowBalance"):
                return "minimum balance %d wei: a client with balance %d was refused (%s)" % (minb, b, out)
        elif t[1] == "kalive" and price is not None and price > 0 and out.startswith("err InvalidSettings"):
            return "price configured as %d wei per minute, yet the client's keep-alive is refused as `invalid interval settings` (the price was read as 0)" % price
    return None


def c02_binary(stream, res, impl):
    if stream["component"] == "poolbin":
        return c03_binary(stream, res, impl)
    return c02_billing(stream, res, impl)


def c15_binary(stream, res, impl):
    """the built pool binary answers every request and keeps serving the other connections whatever one caller sent"""
    if stream["component"] != "poolbin":
        return None
    last = None
    for op, out in zip(res, impl):
        t = op.split()
        if len(t) < 2:
            continue
        if t[0] == "case":
            last = None
        if t[1] == "hosthttp":
            last = op
            if out == "no-reply":
                return "a correctly signed vipnode_connect of a full node sent over plain HTTP received no reply at all (the connection was closed on it)"
        elif out in ("err transport", "err timeout") and last is not None:
            return "after `%s` the pool binary stopped answering: `%s` -> %s" % (last, op, out)
    return None


def c19_noderace(stream, res, impl):
    if stream["component"] != "conc":
        return None
    for op, out in zip(res, impl):
        t = op.split()
        if len(t) > 1 and t[1] == "noderace":
            kv = _kv(out)
            if kv.get("rounds-with-stale-record", "0") != "0":
                return ("a host re-registered from a new address while its keep-alive was being processed; both were acknowledged, and in %s of the rounds the "
                        "pool still stores (and hands out) the previous address (%s)" % (kv["rounds-with-stale-record"], kv.get("first", "")))
    return None


def c15_all(stream, res, impl):
    """no message from the network crashes or wedges: the binary keeps answering; node wrappers do not panic"""
    if stream["component"] == "ethrpc":
        return c18_ethrpc(stream, res, impl)
    return c15_binary(stream, res, impl)
