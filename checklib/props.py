"""Per-property configuration of ./check: Lean modules holding the theorems,
correspondence streams (harness component + options + budgets), monitors."""
import re
import monitors

TRUSTED_BASE = [
    "Lean 4.33.0 kernel; axioms allowed: propext, Classical.choice, Quot.sound (audited per theorem on every run)",
    "Lean compiler for the driver executable (same definitions the theorems are about)",
    "Go harness (generators, canonicalisation), ./check (diff, shrink, monitors)",
    "Go runtime, standard library and third-party modules pinned by /repo/go.sum",
]
DEFAULT_RULE = ("cases are op sequences generated from one PRNG per (seed, case index) by the component's structured generator; "
                "a case is non-trivial when at least one op changed implementation state, distinct by SHA-256 of its op lines")


def signature(pid, stream, d, verdict=None):
    """stable description of a divergence, matched against known_findings.json"""
    i = d.get("line")
    op = ""
    if i is not None and i < len(d.get("res", [])):
        op = " ".join(d["res"][i].split()[:2])
    impl = d["impl"][i].split()[0:2] if i is not None and i < len(d.get("impl", [])) else []
    model = d["model"][i].split()[0:2] if i is not None and i < len(d.get("model", [])) else []
    s = "stream=%s op=%s impl=%s model=%s" % (stream["name"], op or "-", "_".join(impl) or "-", "_".join(model) or "-")
    if verdict:
        s += " monitor=" + re.sub(r"\s+", "_", str(verdict))[:120]
    if d.get("crash"):
        s += " crash"
    return s


def store_streams(q, t, prefix="store"):
    return [
        {"name": prefix + "-memory", "component": "store", "opts": {"driver": "memory"}, "cases": {"quick": q, "thorough": t}},
        {"name": prefix + "-badger", "component": "store", "opts": {"driver": "badger"}, "cases": {"quick": q, "thorough": t}},
    ]


NOT_YET = {}

def conc_streams(q, t):
    return [
        {"name": "conc-memory", "component": "conc", "gen": "conc-core", "opts": {"driver": "memory"}, "cases": {"quick": q, "thorough": t}, "no_shrink": True, "race": True, "corpus_filter": "^$"},
        {"name": "conc-badger", "component": "conc", "gen": "conc-core", "opts": {"driver": "badger"}, "cases": {"quick": q, "thorough": t}, "no_shrink": True, "race": True, "corpus_filter": "^$"},
    ]


def pool_streams(q, t, gen="pool", prefix="pool"):
    return [
        {"name": prefix + "-memory", "component": "pool", "gen": gen, "opts": {"driver": "memory"}, "cases": {"quick": q, "thorough": t}},
        {"name": prefix + "-badger", "component": "pool", "gen": gen, "opts": {"driver": "badger"}, "cases": {"quick": q, "thorough": t}},
    ]


POOL_NOTE = ("Theorems are about Model/Pool.lean + Model/Balance.lean + Model/Store.lean; their tie to pool/service.go, "
             "pool/balance/perinterval.go, pool/payment/service.go and both store drivers is differential (sampled, op by op, "
             "state dumped after operations). Signature validity enters the model as a boolean (ideal signature scheme, see C04); "
             "clock readings are the ones the implementation used (read back / injected through the verif hook).")

PROPS = {
    "C01": {
        "level_text": "Zero-sum is a Lean theorem over the pool model for every operation (ledger_step), every history (ledger_history, ledger_from_empty) with any configuration, clock readings, peer reports, fault pattern of the per-peer credit calls, and for every interleaving of balanced balance-call threads (ledger_all_schedules). The model is compared with the real pool on both store drivers after every operation, the ledger being read back through Stats and every balance.",
        "level_note": POOL_NOTE + " Concurrency: atomicity of each store method (mutex / badger transaction) is assumed; the badger driver's ErrConflict under concurrent writers is outside the atomic-step model (see DESIGN.md).",
        "lean_modules": ["Vipnode.Props.C01"],
        "streams": pool_streams(100, 1000) + pool_streams(120, 1500, gen="pool-money", prefix="money") + conc_streams(8, 120),
        "monitor": monitors.c01_ledger,
        "race": True,
    },
    "C02": {
        "level_text": "Billing arithmetic (floor(elapsed*price/interval) per active peer, client debited the exact sum, hosts/zero elapsed/empty peer set move nothing, slicing bounds for every schedule and unbounded prices, consecutive keep-alives bill consecutive disjoint intervals) are Lean theorems over the balance-manager and pool models; the models are compared with the real code (manager clock injected) on both drivers. Also through the built pool binary started with generated --contract.price values (poolbin-flags), against the flag-parsing model Model/Ether.lean.",
        "level_note": POOL_NOTE,
        "lean_modules": ["Vipnode.Props.C02"],
        "streams": pool_streams(60, 600) + pool_streams(150, 2000, gen="pool-billing", prefix="billing") + [
            # the operator's price flag through the built binary (pool.go: flag parsing and wiring)
            {"name": "poolbin-flags", "component": "poolbin", "cases": {"quick": 30, "thorough": 200}},
        ] + conc_streams(8, 120),  # a credit whose store transaction is retried is still given once (freshcredit)
        "race": True,
        "monitor": monitors.c02_binary,
    },
    "C03": {
        "level_text": "The minimum-balance decision logic is stated outright in both directions (connect_refused_iff, update_cutoff_iff, hosts_never_refused, cutoff_disconnects) as Lean theorems over the balance-manager and pool models, which are compared with the real code on both drivers, with deposits injected through the contract proxy. Also through the built pool binary started with generated --contract.min-balance values (amounts with and without units, fractions, negatives, unparsable ones), against Model/Ether.lean (Props/C03E: no unit turns an amount into zero; only `off` switches the minimum off - only_off_disables_minimum, C03 zero_minimum_refuses_overdrawn), including clients billed below zero by a billable keep-alive (kbill).",
        "level_note": POOL_NOTE,
        "lean_modules": ["Vipnode.Props.C03", "Vipnode.Props.C03E"],
        "streams": pool_streams(60, 600) + pool_streams(150, 2000, gen="pool-minbal", prefix="minbal") + [
            # the operator's flags through the built binary (pool.go: flag parsing and wiring)
            {"name": "poolbin-flags", "component": "poolbin", "cases": {"quick": 30, "thorough": 200}},
        ],
        "monitor": monitors.c03_binary,
    },
    "C04": {
        "level_text": "Over an ideal signature scheme (laws as hypotheses, satisfiable: toyScheme), the signed payload determines method, identity, nonce and parameters (payload_injective, with the bracket-freeness of every registered RPC name re-proved by `decide` on names regenerated from the method registry), so any alteration or foreign key is refused (altered_is_refused, other_key_refused), honest requests are accepted (honest_accepted) and every signed endpoint of the pool model changes state only for a request signed by the identity it names (endpoint_acts_only_if_signed). The implementation is driven with real keys and real signatures: valid requests plus single-component alterations on every signed endpoint, state dumped after each.",
        "level_note": POOL_NOTE + " Modelled rather than verified: ECDSA/Keccak/EIP-191 (ideal scheme) and the injectivity of encoding/json on the request types (ArrayEncoder hypothesis, sampled by the per-field alteration stream).",
        "lean_modules": ["Vipnode.Props.C04"],
        "streams": pool_streams(60, 600) + pool_streams(150, 1500, gen="pool-nonce", prefix="auth") + [
            # verification is a function of the request alone: many identities verified at once
            {"name": "conc-sigs", "component": "conc", "gen": "conc-sigs", "opts": {"driver": "memory"}, "cases": {"quick": 3, "thorough": 40}, "no_shrink": True, "race": True, "corpus_filter": "^$"},
        ],
        "race": True,
        "monitor": monitors.c04_c06,
    },
    "C05": {
        "level_text": "Strictly increasing accepted nonces per identity and at-most-once acceptance for every history (accepted_strictly_increasing, at_most_once, replay_rejected; replay_rejected_across_ops: also across any other store traffic - only CheckAndSaveNonce writes the nonce table, other_ops_keep_nonces), rejection of stale nonces, independence of identities, at most one accepted copy under every schedule of optimistic transactions (racing_duplicates) and unobservability of the badger TTL for every history (ttl_safe) are Lean theorems about the nonce table model; the model is compared with both drivers at store level and through signed RPCs, and concurrent duplicates / TTL expiry are exercised on the real drivers.",
        "level_note": "Theorems are about Store.checkAndSaveNonce, the optimistic-transaction model txStep and the expiring table model; tie: store and pool correspondence streams (sampled), concurrent duplicate submissions on both drivers, a real TTL expiry run. Trusted: badger conflict detection and TTL implementation.",
        "lean_modules": ["Vipnode.Props.C05"],
        "streams": store_streams(150, 1500) + pool_streams(100, 1000, gen="pool-nonce", prefix="nonce") + conc_streams(8, 120) + [
            {"name": "nonce-ttl", "component": "noncettl", "opts": {}, "cases": {"quick": 2, "thorough": 24}, "no_shrink": True},
        ],
        "monitor": monitors.c05_nonce,
        "race": True,
    },
    "C06": {
        "level_text": "refused_no_effect: for every endpoint of the pool and payment models and every state, a request failing authentication returns the pool state unchanged (all components, including the nonce table and the host registry) and calls no host; victim_not_burned(+_payment): the owner's next verification is unaffected by a forgery. The implementation is driven with every refusal kind interleaved in valid sessions, the full state dumped after each.",
        "level_note": POOL_NOTE,
        "lean_modules": ["Vipnode.Props.C06"],
        "streams": pool_streams(80, 800) + pool_streams(150, 1500, gen="pool-nonce", prefix="refused"),
        "monitor": monitors.c04_c06,
    },
    "C07": {
        "level_text": "withdraw_exact, withdraw_refused_or_failed_no_effect, withdraw_conserves, never_twice and racing_withdrawals (any sequence of attempts — the service serialises withdrawals) are Lean theorems about Pool.Withdraw including the settlement handler's effect on the deposit; compared with the real PaymentService over a scripted settlement handler and deposit oracle on both drivers (also with the deposit lookup failing during a withdrawal). Props/C07C: the deposit cache in front of the contract serves a still-valid entry or what the contract answers now, never an expired entry (get_answer, get_fails_iff, expired_and_failing_lookup_fails, set_then_get) - model Model/Cache.lean compared with the real balanceCache under an injected clock.",
        "level_note": POOL_NOTE + " The on-chain contract is a parameter (settlement outcome ok/fail, deposit set to the new balance on success).",
        "lean_modules": ["Vipnode.Props.C07", "Vipnode.Props.C07C"],
        "streams": pool_streams(150, 2000, gen="pool-money", prefix="money") + conc_streams(8, 120) + [
            # the deposit cache in front of the contract, under an injected clock and a scripted lookup
            {"name": "deposit-cache", "component": "cache", "cases": {"quick": 60, "thorough": 1500}},
        ],
        "monitor": monitors.c07_withdraw,
        "race": True,
    },
    "C08": {
        "level_text": "reply_hosts_eligible, reply_count, whitelist_calls_bounded, error_iff_empty, full_supply, failed_hosts_left_out are Lean theorems about Pool.requestHosts for every store state, every store choice, every outcome of every whitelist call; the store's choice is validated against the ActiveHosts contract (C12) on every implementation call. The real pool is driven over fake host connections scripted to acknowledge, fail or hang. Also with hosts behind the real transport (built binary, WebSocket) that refuse the instruction with an RPC error.",
        "level_note": POOL_NOTE + " The order in which acknowledgements arrive is not modelled (replies are compared as sets); the 5 s whitelist timeout is exercised with a shorter request deadline.",
        "lean_modules": ["Vipnode.Props.C08"],
        "streams": pool_streams(60, 600) + pool_streams(150, 1500, gen="pool-peers", prefix="peers") + [
            # hosts behind the real transport (built binary, WebSocket) answering the instruction with an RPC error
            {"name": "poolbin-ws", "component": "poolbin", "cases": {"quick": 16, "thorough": 200}},
        ],
        "monitor": monitors.c08_c09,
    },
    "C09": {
        "level_text": "callable_iff: after every history of registrations and closes the registry lets the pool call host h on connection c exactly when h's most recent registration was on c and c was not closed since; close_old_keeps_new, closed_not_callable, requests_use_current_registration, numRemotes_eq. Compared with the real registry (connect over distinct connection objects, CloseRemote, NumRemotes, which connection receives vipnode_whitelist), and with the built pool binary: hosts register over real WebSocket connections that end as dropped sockets, close frames of every class or protocol errors, and a light client's peer request shows which connections the pool still calls.",
        "level_note": POOL_NOTE + " Registry steps are atomic (pool mutex); a close racing an in-flight request is covered by requests_use_current_registration for requests that start after the close.",
        "lean_modules": ["Vipnode.Props.C09"],
        "streams": pool_streams(150, 1500, gen="pool-peers", prefix="registry") + [
            {"name": "poolbin-ws", "component": "poolbin", "cases": {"quick": 16, "thorough": 200}},
            # real connections in-process: a stray reply, then the connection ends - the registry forgets the host
            {"name": "registry-conn", "component": "fuzz", "gen": "fuzz-registry", "opts": {"driver": "memory"}, "cases": {"quick": 4, "thorough": 40}, "no_shrink": True},
        ],
        "monitor": monitors.c09_registry,
    },
    "C10": {
        "level_text": "no_lost_update and schedule_independent (after any interleaving of acknowledged balance updates every wallet holds its initial credit plus the deltas addressed to it), peers_state_serialisable (the node and peer tables after any interleaving equal those of the serial execution in commit order, the commit point of a keep-alive being its UpdateNodePeers step: np_of_schedule), final_state_serialisable_partial, plus C05's racing_duplicates/at_most_once for nonce decisions, are Lean theorems over the atomic steps of the store. The full statement (one serial order of whole requests) is kept visible as FinalStateSerialisable; its excluded point (two in-flight keep-alives of one node) is proved to double-bill in the model (same_node_double_billing_counterexample), reproduced deterministically on the real pool and listed as a known finding. Snapshots: every balance and node record ever handed out is re-read after every later operation of the store streams. Real goroutines run the conc workloads on both drivers; their final states must equal the schedule-independent prediction.",
        "level_note": "Partial: (1) data-race freedom is a property of the Go memory model that the Lean model cannot exhibit - supported by running the concurrent streams under -race in the thorough tier; (2) the serialisability theorem covers the tables in commit order and the balances for requests of distinct identities, not the replies' balance read-backs; (3) atomicity of each store method (mutex / badger transaction with conflict retry) is assumed.",
        "lean_modules": ["Vipnode.Props.C10", "Vipnode.Props.C13L"],
        "streams": [
            {"name": "conc-memory", "component": "conc", "opts": {"driver": "memory"}, "cases": {"quick": 16, "thorough": 200}, "no_shrink": True, "race": True},
            {"name": "conc-badger", "component": "conc", "opts": {"driver": "badger"}, "cases": {"quick": 16, "thorough": 200}, "no_shrink": True, "race": True},
        ] + store_streams(150, 1500, prefix="snapshots") + [
            # concurrent requests through the RPC dispatch itself (Server.Handle / Method.Call), both directions of a pipe pair
            {"name": "rpc-storm", "component": "rpc", "gen": "rpc-storm", "cases": {"quick": 6, "thorough": 40}, "no_shrink": True, "race": True},
        ],
        "monitor": monitors.c10_conc,
        "race": True,
    },
    "C11": {
        "level_text": "invalid_iff, active_after, live_never_invalid, self_report_never_invalid, unknown_never_tracked, duplicates_idempotent, pool_reply_maps and the well-formedness invariant peersWF_reachable are Lean theorems about Store.updateNodePeers and the keep-alive reply; compared with both drivers at store level and through the pool.",
        "level_note": POOL_NOTE,
        "lean_modules": ["Vipnode.Props.C11"],
        "streams": store_streams(150, 1500) + pool_streams(120, 1500, gen="pool-expiry", prefix="expiry"),
        "monitor": monitors.c11_expiry,
    },
    "C13": {
        "level_text": "migrate_current_identity, migrate_newer_refused, migrate_preserves (from every supported format the result is the current format with nodes, peers, links, balances and trials unchanged), migrate_idempotent, reopen_identity, txn_all_or_nothing and acknowledged_survive (a crash leaves the state after the acknowledged operations or after one more, given badger's atomic durable commit), trial_never_both_nor_lost (in every committed state a linked node has no trial entry and linking never changes the ledger total) are Lean theorems about the persistence model. The real driver is run on disk: histories with close/reopen after random prefixes, a child process applying operations and killed with SIGKILL, databases prepared at formats 0, 1, 2 and 3 (raw version key), readers taking Stats snapshots while trial balances are migrated. A partial, never acknowledged append at the end of the value log (what a kill during a write leaves) must not keep the store from opening (op torn); credits racing a link (conc linkrace; Props/C13L link_race_no_lost_credit).",
        "level_note": "Assumed, sampled by the kill stream: badger commits are atomic and durable, each store method is one transaction (the model's unit). Not modelled: OS / filesystem / fsync behaviour and badger internals (a SIGKILL leaves the page cache intact, so power-loss durability is outside what this sandbox can exercise).",
        "lean_modules": ["Vipnode.Props.C13", "Vipnode.Props.C13L"],
        "streams": [{"name": "persist-disk", "component": "persist", "cases": {"quick": 12, "thorough": 150}, "no_shrink": True},
                    {"name": "store-badger", "component": "store", "opts": {"driver": "badger"}, "cases": {"quick": 100, "thorough": 1000}},
                    # acknowledged credits racing with the multi-key trial migration (link) on the persistent driver
                    {"name": "conc-badger", "component": "conc", "gen": "conc-core", "opts": {"driver": "badger"}, "cases": {"quick": 10, "thorough": 120}, "no_shrink": True, "corpus_filter": "^$"}],
        "monitor": monitors.c13_persist,
    },
    "C14": {
        "level_text": "An invariant of the pending-reply table (distinct slot ids; every live call has a slot marked as waited-on; buffered messages only for answered ids; live ids distinct) is proved for every honest execution - every schedule of any number of concurrent callers and handlers, replies in any order, cancellations at any point, any table limit (inv_step, inv_run). From it: live_slot_protected, serve_never_blocks, ids_unique, reply_routing (own reply, other calls untouched, also when the reply arrives before the caller waits), cancel_returns_ctx_error, end_releases_every_call / end_every_call_returns / end_keeps_delivered_reply, stray_reply_never_blocks (Props/C14E: when the connection's read loop ends every call in progress returns - its delivered reply if there is one, the connection's error otherwise; stream op endserve), late_reply_never_misdelivered, handled_exactly_once, callback_completes (a handler calling back waits only on its own slot). The real jsonrpc2.Remote is driven through a harness codec that is the scheduler (the harness plays peer and network) and through concurrent storms over a pipe pair with the production table limit. Storms also with handlers that call back before answering, ping-pong recursions up to 80 deep, over Local and HTTP transports; reply and cancellation at the same instant.",
        "level_note": "Theorems are about Model/Rpc.lean, whose steps are the atomic regions of remote.go (r.mu critical sections, channel operations, the atomic id counter); the peer is honest (answers only issued ids, each at most once). Runtime behaviour the model cannot exhibit: goroutine scheduling and Go channel semantics are abstracted as atomic steps (supported by -race storms in the thorough tier).",
        "lean_modules": ["Vipnode.Props.C14", "Vipnode.Props.C14E"],
        "streams": [
            {"name": "rpc-sched", "component": "rpc", "cases": {"quick": 120, "thorough": 2000}},
            {"name": "rpc-storm", "component": "rpc", "gen": "rpc-storm", "cases": {"quick": 9, "thorough": 45}, "no_shrink": True, "race": True, "timeout": 400},
        ],
        "race": True,
        "monitor": monitors.c14_rpc,
    },
    "C15": {
        "level_text": "Theorems: the guards vipnode's own code places in front of every panicking Go operation on received data never let it panic (node_sig_total, address_sig_total, enode_id_total, call_total), a peer request never asks the store for a non-positive or request-sized allocation (active_hosts_limit_positive, active_hosts_alloc_bounded), request handling is total and answers every request with exactly one well-formed class, running code only for well-typed calls to registered methods (reply_well_formed); with C14 serve_never_blocks the read loop is never wedged by honest traffic. Differential fuzz: the real pool, payment, status and agent services, wired as the binary wires them, are fed structured hostile messages (correctly signed requests with hostile parameter values, every kind of bad signature, wrong arities and types, unknown names, odd ids, reply-shaped and non-message bytes) over real Remote connections in a separate process where a panic is an observable exit; after each message a second connection must still be served. Also the other direction: a real agent over pool.Remote whose pool answers connect / keep-alive / peer calls with 18 odd reply shapes (agentreply); a registered sender's odd peer descriptions (regupdate); a flooded host that is then called (wedge).",
        "level_note": "Partial by nature: the theorems cover the guards in vipnode's own code (Model/Guards.lean, Model/Server.lean); panics inside encoding/json, reflect, net/url, go-ethereum crypto and badger are reachable only by the fuzz stream, which samples. A reply carrying `result: null` next to an error counts as well-formed (the property asks for a result or an error).",
        "lean_modules": ["Vipnode.Props.C15"],
        "streams": [
            {"name": "fuzz-memory", "component": "fuzz", "opts": {"driver": "memory"}, "cases": {"quick": 20, "thorough": 90}, "no_shrink": True},
            {"name": "fuzz-badger", "component": "fuzz", "opts": {"driver": "badger"}, "cases": {"quick": 10, "thorough": 40}, "no_shrink": True},
            {"name": "rpc-replies", "component": "rpc", "cases": {"quick": 60, "thorough": 600}},
            # the built binary: connections ending in every way, a full node registering over plain HTTP, requests after it
            {"name": "poolbin-ws", "component": "poolbin", "cases": {"quick": 12, "thorough": 120}},
            # peer ids and URIs of every odd form (what a pool may send an agent) through the node wrappers of all three kinds
            {"name": "eth-rpc", "component": "ethrpc", "cases": {"quick": 15, "thorough": 200}},
        ] + pool_streams(40, 400, gen="pool-nonce", prefix="badsig"),
        "monitor": monitors.c15_all,
    },
    "C16": {
        "level_text": "exposed_exactly (a server exposes exactly prefix+lowerFirst(method) for the receiver's exported methods, restricted to the allow-list), unknown_not_found, bad_params_not_run, runs_only_if_well_typed, too_many/too_few/wrong_type_invalid are Lean theorems about the registry and positional-argument model; production_surface re-proves by `decide`, on every run, that the names the *built pool binary* answers (probed over HTTP with every candidate name derived by reflection from the objects behind its services) are exactly the documented API. The model is compared with jsonrpc2.Server on instrumented receivers (invocation counters) and with the running binary over HTTP and WebSocket.",
        "level_note": "Theorems are about Model/Server.lean; encoding/json's type compatibility is the table `compat` (JSON null decodes into any type). Tie: differential on instrumented receivers with invocation counters; the running binary over HTTP/WebSocket with malformed parameter lists and candidate names. Trusted: reflect, encoding/json.",
        "lean_modules": ["Vipnode.Props.C16"],
        "monitor": monitors.c16_surface,
        "streams": [
            {"name": "srv", "component": "srv", "cases": {"quick": 300, "thorough": 3000}},
            {"name": "srvbin-http", "component": "srvbin", "gen": "srvbin", "opts": {"transport": "http"}, "pool_binary": True, "cases": {"quick": 12, "thorough": 80}, "no_shrink": True},
            {"name": "srvbin-ws", "component": "srvbin", "gen": "srvbin", "opts": {"transport": "ws"}, "pool_binary": True, "cases": {"quick": 12, "thorough": 80}, "no_shrink": True},
        ],
    },
    "C17": {
        "level_text": "chunking_independent (what the persistent-decoder codec delivers depends only on the concatenation of the reads) and stream_exactly_once (for every sequence of framed messages and every chunking, exactly the written messages, in order), locked_writers_do_not_interleave, ws_one_message_per_frame, http_body_one_message (a request or reply body of the HTTP transport, announced length or chunked in any way) are Lean theorems about the byte-level reader model, by induction over unbounded streams; per_message_reader_counterexample keeps the witness of the repaired defect. The model is compared with the real IOCodec on byte streams produced by the real WriteMessage and cut at generated positions; gorilla (concurrent writers) and gobwas codecs are run over loopback WebSocket connections. WebSocket runs include encoded lengths walking byte by byte across the decoder's refill sizes and runs in which one library writes and the other reads.",
        "level_note": "Theorems are about Model/Codec.lean (brace depth outside string literals, escapes); that encoding/json's decoder finds the same message ends is checked differentially on generated messages (braces/escapes/unicode inside strings, nested params, 0 to 5000-byte payloads). Trusted: encoding/json, gorilla/gobwas framing, the write mutex of the gorilla codec (supported by -race runs of the concurrent writer stream in the thorough tier).",
        "lean_modules": ["Vipnode.Props.C17"],
        "streams": [
            {"name": "codec-stream", "component": "codec", "cases": {"quick": 150, "thorough": 2000}, "no_shrink": True},
            {"name": "codec-ws", "component": "codec", "gen": "codec-ws", "cases": {"quick": 18, "thorough": 90}, "no_shrink": True, "race": True},
        ],
        "race": True,
        "monitor": monitors.c17_codec,
    },
    "C19": {
        "level_text": "advertised_id, foreign_id_refused, advertised_address, undetermined_refused and the IPv4/IPv6/DNS round trip join_split / host_port_roundtrip (SplitHostPort(JoinHostPort(h,p)) = (h,p) for every bracket-free host and colon-free port, by induction over the strings) are Lean theorems about normalizeNodeURI on structured overrides; keepalive_keeps_registration / keepalive_keeps_uri (a keep-alive changes nothing of a node's record but the check-in and the block number: the URI of the latest registration is what is stored, across any keep-alives; conc noderace races the two on the real drivers); the real normalizeNodeURI is run on generated override strings (other ids, empty user, user:password, missing/unspecified hosts, IPv6 literals and zones, ports, paths, queries, other schemes, unparsable) x source addresses, its result parsed back with ethnode.ParseNodeURI and net.SplitHostPort; registration through the real connect with a generated RemoteAddr is part of the pool streams.",
        "level_note": "Theorems are about Model/NodeURI.lean; net/url parsing is not re-implemented: the model receives what url.Parse yields for the override (hostname, port, user), observed by the harness. Trusted: net/url, net.SplitHostPort (modelled as splitHostPortL for the round-trip theorem and compared on every case).",
        "lean_modules": ["Vipnode.Props.C19"],
        "monitor": monitors.c19_advertised,
        "streams": [{"name": "uri", "component": "uri", "cases": {"quick": 200, "thorough": 3000}}] + pool_streams(80, 800, gen="pool-peers", prefix="connect") + pool_streams(60, 600) + [
            # the address a host registered last is the one stored, also when the registration races its own keep-alive
            {"name": "noderace-badger", "component": "conc", "gen": "conc-noderace", "opts": {"driver": "badger"}, "cases": {"quick": 2, "thorough": 20}, "no_shrink": True, "corpus_filter": "^$"},
            {"name": "noderace-memory", "component": "conc", "gen": "conc-noderace", "opts": {"driver": "memory"}, "cases": {"quick": 1, "thorough": 10}, "no_shrink": True, "corpus_filter": "^$"},
        ],
    },
    "C18": {
        "level_text": "dropped_iff / dropped_nonstrict (who is un-trusted and disconnected: exactly the pool's invalid peers, plus - strict - the local peers the pool does not list as active under the same host), drop_calls, no_other_peer_dropped, strict_keeps_iff (host compared, ports play no role), shortfall (exactly the shortfall is requested, of the node's kind for a light client, every returned host is connected), failed_keepalive_no_calls, encode_keeps_uri (what reaches a geth node's RPC endpoint is the URI the pool returned) are Lean theorems about the pure round function for every local peer set, pool reply and outcome; the real agent.Agent is driven with a recording EthNode and a scripted pool, and must make the same calls in the same order.",
        "level_note": "Theorems are about Model/Agent.lean `round`; enode URIs enter the model as what ethnode.ParseNodeURI makes of them (id, remote host, unparseable), observed by the harness. Trusted: net/url, the recording EthNode/scripted pool of the harness.",
        "lean_modules": ["Vipnode.Props.C18"],
        "streams": [{"name": "agent-rounds", "component": "agent", "cases": {"quick": 300, "thorough": 5000}},
                    # what the agent asks of its node is what a geth node's RPC endpoint receives (ethnode's geth wrapper)
                    {"name": "eth-rpc", "component": "ethrpc", "cases": {"quick": 20, "thorough": 300}}],
        "monitor": monitors.c18_agent,
    },
    "C20": {
        "level_text": "at_most_one_loop (after every sequence and interleaving of start/stop/wait/tick events, including racing starts), second_start_refused, running_refuses_start, failed_start_leaves_nothing, stop_ends_loop_wait_returns, failed_keepalive_ends_loop, one_keepalive_per_tick are Lean theorems about the life-cycle state machine, by an invariant preserved by every atomic step; accepted_below_expiry / expiry_refused are re-proved on every run on the --update-interval values probed on the built binary. The real agent.Agent is driven through generated life-cycle histories (scripted pool failing at connect / first update / a later keep-alive, two concurrent Starts, keep-alives counted over a window of intervals). Including two concurrent stops and a stop pending while the in-flight keep-alive fails (stop_blocks_only_while_starting, two_stops_both_return, stop_pending_when_loop_dies).",
        "level_note": "Theorems are about Model/Agent.lean `lifeStep` (atomic steps: the mutex-protected check-and-set of `started`, loop start, tick, stop, wait). Partial: wall-clock cadence is runtime behaviour - the model says one keep-alive per tick, the harness checks that the number of keep-alives in a window of 10 intervals is that of one loop (two loops give twice as many). The interval clause is a finite probe of the binary (grid around the 5 s and 120 s bounds), re-proved by `decide`.",
        "lean_modules": ["Vipnode.Props.C20"],
        "monitor": monitors.c20_life,
        "streams": [{"name": "agent-life", "component": "agentlife", "cases": {"quick": 16, "thorough": 150}, "no_shrink": True, "race": True}],
        "race": True,
    },
    "C12": {
        "level_text": "Contract clauses (unregistered = error, balances follow the wallet, trial migrated exactly once and shared, active-host query contract, statistics = true counts, ledger effect of every operation, well-formedness of every reachable store) are Lean theorems about the executable reference model of the documented store contract, for all states and arguments; both drivers are compared with that model op by op on generated histories, so a driver that deviates from the other deviates from the model. Refinement (Props/C12R.lean): each driver's methods are transcribed line by line (Model/Drivers.lean: badger's order of key reads, memory's peers-inside-the-node-record layout and map defaults) and proved to answer and change state exactly as the contract model on every state reachable by store calls (badger_run_eq, badger_queries_eq under the invariant BInv; memory_run_related under the refinement relation MemR), hence drivers_agree / drivers_agree_keepalive: after any history every query and every keep-alive answers identically through both drivers; both ActiveHosts selection loops satisfy the contract predicate for every iteration order and shuffle (drivers_activeHosts_valid).",
        "level_note": "Theorems are about Model/Store.lean; its tie to memory.go/badger.go is differential (sampled). Trusted: badger transaction atomicity, gob round-trip, the harness's clock bracketing.",
        "technique": "Lean 4 proof over reference model + differential correspondence on both drivers",
        "lean_modules": ["Vipnode.Props.C12", "Vipnode.Props.C12R", "Vipnode.Props.C12K"],
        "streams": store_streams(400, 4000),
        "cross_driver": True,
        "assumptions": ["badger transaction atomicity", "clock readings observed by the harness (LastSeen read back; bracketed reads away from boundaries)"],
    },
}
