"""Per-property configuration of ./check: Lean modules holding the theorems,
correspondence streams (harness component + options + budgets), monitors."""
import re

TRUSTED_BASE = [
    "Lean 4.33.0 kernel; axioms allowed: propext, Classical.choice, Quot.sound (audited per theorem on every run)",
    "Lean compiler for the driver executable (same definitions the theorems are about)",
    "Go harness (generators, canonicalisation), ./check (diff, shrink, monitors)",
    "Go runtime, standard library and third-party modules pinned by /repo/go.sum",
]
DEFAULT_RULE = ("cases are op sequences generated from one PRNG per (seed, case index) by the component's structured generator; "
                "a case is non-trivial when at least one op changed implementation state, distinct by SHA-256 of its op lines")


def signature(pid, stream, d, verdict=None):
    """stable description of a divergence, matched against known_findings.json"""
    i = d.get("line")
    op = ""
    if i is not None and i < len(d.get("res", [])):
        op = " ".join(d["res"][i].split()[:2])
    impl = d["impl"][i].split()[0:2] if i is not None and i < len(d.get("impl", [])) else []
    model = d["model"][i].split()[0:2] if i is not None and i < len(d.get("model", [])) else []
    s = "stream=%s op=%s impl=%s model=%s" % (stream["name"], op or "-", "_".join(impl) or "-", "_".join(model) or "-")
    if verdict:
        s += " monitor=" + re.sub(r"\s+", "_", str(verdict))[:120]
    if d.get("crash"):
        s += " crash"
    return s


def store_streams(q, t, prefix="store"):
    return [
        {"name": prefix + "-memory", "component": "store", "opts": {"driver": "memory"}, "cases": {"quick": q, "thorough": t}},
        {"name": prefix + "-badger", "component": "store", "opts": {"driver": "badger"}, "cases": {"quick": q, "thorough": t}},
    ]


NOT_YET = {}

PROPS = {
    "C12": {
        "level_text": "Contract clauses (unregistered = error, balances follow the wallet, trial migrated exactly once and shared, active-host query contract, statistics = true counts, ledger effect of every operation, well-formedness of every reachable store) are Lean theorems about the executable reference model of the documented store contract, for all states and arguments; both drivers are compared with that model op by op on generated histories, so a driver that deviates from the other deviates from the model.",
        "level_note": "Theorems are about Model/Store.lean; its tie to memory.go/badger.go is differential (sampled). Trusted: badger transaction atomicity, gob round-trip, the harness's clock bracketing.",
        "technique": "Lean 4 proof over reference model + differential correspondence on both drivers",
        "lean_modules": ["Vipnode.Props.C12"],
        "streams": store_streams(400, 4000),
        "assumptions": ["badger transaction atomicity", "clock readings observed by the harness (LastSeen read back; bracketed reads away from boundaries)"],
    },
}
