#!/bin/sh
# MANIFEST.setup_cmd: build the Go harness against /repo, regenerate facts, build the Lean project (theorems + driver)
cd "$(dirname "$0")" && exec ./check setup
