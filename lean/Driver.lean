/-
Line-protocol driver: reads resolved op lines on stdin, replays them through
the executable models and prints one output line per op line.
`case <n>` resets every component's state and is echoed.
-/
import Vipnode.Drv.Store
import Vipnode.Drv.Pool
import Vipnode.Drv.Server
import Vipnode.Drv.Codec
import Vipnode.Drv.Uri
import Vipnode.Drv.Agent
import Vipnode.Drv.Rpc
import Vipnode.Drv.Persist
import Vipnode.Drv.Conc
import Vipnode.Drv.NonceTtl
import Vipnode.Drv.PoolBin
import Vipnode.Drv.Cache
open Vipnode Vipnode.Drv

structure DState where
  store : Store := {}
  pool : Pool := {}
  srv : AList Method := []
  agent : AgentDrv := {}
  life : Life := {}
  rpc : Rpc := {}
  persist : PersistDrv := {}
  poolbin : PoolBinDrv := {}
  cache : CacheDrv := {}
  ethKind : String := "geth"

def stepLine (st : DState) (line : String) : DState × String :=
  let toks := (line.trimAscii.toString.splitOn " ").filter (· ≠ "")
  -- an op the harness executed but blanked (clock-sensitive outcome, or not expressible on this transport)
  if toks.contains "#skipped" then (st, "noop") else
  match toks with
  | "case" :: rest => ({}, "case " ++ joinS rest)
  | "base" :: rest => (st, "base " ++ joinS rest)
  | "store" :: args => let (s, o) := storeStep st.store args; ({ st with store := s }, o)
  | "pool" :: args => let (s, o) := poolStep st.pool args; ({ st with pool := s }, o)
  | "srv" :: args => let (s, o) := srvStep st.srv args; ({ st with srv := s }, o)
  | "codec" :: args => (st, codecStep args)
  | "uri" :: args => (st, uriStep args)
  | "agent" :: args => let (s, o) := agentStep st.agent args; ({ st with agent := s }, o)
  | "fuzz" :: args => (st, fuzzStep args)
  | "conc" :: args => (st, concStep args)
  | "noncettl" :: args => (st, nonceTtlStep args)
  | "poolbin" :: args => let (s, o) := poolBinStep st.poolbin args; ({ st with poolbin := s }, o)
  | "persist" :: args => let (s, o) := persistStep st.persist args; ({ st with persist := s }, o)
  | "rpc" :: args => let (s, o) := rpcStep st.rpc args; ({ st with rpc := s }, o)
  | "ethrpc" :: args => let (k, o) := ethRpcStep st.ethKind args; ({ st with ethKind := k }, o)
  | "cache" :: args => let (s, o) := cacheStep st.cache args; ({ st with cache := s }, o)
  | "agentlife" :: args => let (s, o) := lifeDrvStep st.life args; ({ st with life := s }, o)
  | ["noop"] => (st, "noop")
  | [] => (st, "")
  | _ => (st, "bad-op")

partial def loop (h : IO.FS.Stream) (out : IO.FS.Stream) (st : DState) : IO Unit := do
  let line ← h.getLine
  if line.isEmpty then return ()
  let (st', o) := stepLine st line
  out.putStrLn o
  loop h out st'

def main : IO Unit := do
  let out ← IO.getStdout
  loop (← IO.getStdin) out {}
