/-
Line-protocol driver: reads resolved op lines on stdin, replays them through
the executable models and prints one output line per op line.
`case <n>` resets every component's state and is echoed.
-/
import Vipnode.Drv.Store
import Vipnode.Drv.Pool
open Vipnode Vipnode.Drv

structure DState where
  store : Store := {}
  pool : Pool := {}

def stepLine (st : DState) (line : String) : DState × String :=
  match (line.trimAscii.toString.splitOn " ").filter (· ≠ "") with
  | "case" :: rest => ({}, "case " ++ joinS rest)
  | "base" :: rest => (st, "base " ++ joinS rest)
  | "store" :: args => let (s, o) := storeStep st.store args; ({ st with store := s }, o)
  | "pool" :: args => let (s, o) := poolStep st.pool args; ({ st with pool := s }, o)
  | ["noop"] => (st, "noop")
  | [] => (st, "")
  | _ => (st, "bad-op")

partial def loop (h : IO.FS.Stream) (out : IO.FS.Stream) (st : DState) : IO Unit := do
  let line ← h.getLine
  if line.isEmpty then return ()
  let (st', o) := stepLine st line
  out.putStrLn o
  loop h out st'

def main : IO Unit := do
  let out ← IO.getStdout
  loop (← IO.getStdin) out {}
