import Vipnode.Model.AList
import Vipnode.Model.Store
import Vipnode.Drv.Store
