/-
C05 — A signed request is honoured at most once; nonces only move forward.

Theorems about `Store.checkAndSaveNonce` (both drivers' `CheckAndSaveNonce`)
for every history of submissions, about racing duplicates under the memory
driver's mutex (any order of atomic steps) and under the badger driver's
optimistic transactions (any schedule of start/commit events), and about the
badger driver's expiring nonce entries.
-/
import Vipnode.Lemmas.Store
import Vipnode.Model.NonceTtl
namespace Vipnode.C05
open Vipnode Vipnode.AList
open Vipnode.Store (checkAndSaveNonce)
open Vipnode.NonceTtl

/-- a submission: identity, nonce, clock reading of the store -/
structure Sub where
  id : String
  nonce : Int
  now : Int

/-- run a history of submissions, collecting the accepted ones (newest first) -/
def runSubs : Store → List Sub → Store × List (String × Int)
  | s, [] => (s, [])
  | s, x :: xs =>
    match s.checkAndSaveNonce x.id x.nonce x.now with
    | .ok s' => let (sf, acc) := runSubs s' xs; (sf, acc ++ [(x.id, x.nonce)])
    | .error _ => runSubs s xs

def tbl (s : Store) (id : String) : Int := (s.nonces.get id).getD 0

theorem accept_spec (s s' : Store) (id : String) (n now : Int) (h : s.checkAndSaveNonce id n now = .ok s') :
    now - nonceWindow < n ∧ tbl s id < n ∧ tbl s' id = n ∧ (∀ id', id' ≠ id → tbl s' id' = tbl s id') := by
  unfold checkAndSaveNonce at h
  split at h
  · cases h
  · split at h
    · cases h
    · cases h
      refine ⟨by omega, by unfold tbl; omega, by simp [tbl, get_set_eq], ?_⟩
      intro id' hne
      simp [tbl, get_set_ne _ _ (Ne.symm hne)]

/-- a stale nonce (not newer than now − 15 min) is always rejected -/
theorem stale_rejected (s : Store) (id : String) (n now : Int) (h : n ≤ now - nonceWindow) :
    s.checkAndSaveNonce id n now = .error .invalidNonce := by
  simp [checkAndSaveNonce, h]

/-- a nonce not strictly greater than the last accepted one is rejected -/
theorem not_greater_rejected (s : Store) (id : String) (n now : Int) (h : n ≤ tbl s id) :
    s.checkAndSaveNonce id n now = .error .invalidNonce := by
  unfold checkAndSaveNonce tbl at *
  split
  · rfl
  · simp [h]

/-- a fresh nonce above the last accepted one is accepted -/
theorem fresh_greater_accepted (s : Store) (id : String) (n now : Int) (h1 : now - nonceWindow < n) (h2 : tbl s id < n) :
    ∃ s', s.checkAndSaveNonce id n now = .ok s' := by
  unfold checkAndSaveNonce tbl at *
  rw [if_neg (by omega), if_neg (by omega)]
  exact ⟨_, rfl⟩

/-- nonces of one identity never affect another: the verdict on `id` only depends on `id`'s own entry -/
theorem identities_independent (s₁ s₂ : Store) (id : String) (n now : Int) (h : tbl s₁ id = tbl s₂ id) :
    (s₁.checkAndSaveNonce id n now).isOk = (s₂.checkAndSaveNonce id n now).isOk := by
  unfold checkAndSaveNonce tbl at *
  split
  · rfl
  · rw [h]; split <;> rfl

/-- the table only moves forward -/
theorem table_monotone (s : Store) (xs : List Sub) (id : String) : tbl s id ≤ tbl (runSubs s xs).1 id := by
  induction xs generalizing s with
  | nil => simp [runSubs]
  | cons x xs ih =>
    unfold runSubs
    split
    · rename_i s' h
      have hs := accept_spec s s' x.id x.nonce x.now h
      have := ih s'
      simp only
      by_cases e : id = x.id
      · subst e; omega
      · have := hs.2.2.2 id e; omega
    · exact ih s

/-- every nonce accepted along a history is above the table's value at the start and at most its value at the end -/
theorem accepted_bounds (s : Store) (xs : List Sub) :
    ∀ a ∈ (runSubs s xs).2, tbl s a.1 < a.2 ∧ a.2 ≤ tbl (runSubs s xs).1 a.1 := by
  induction xs generalizing s with
  | nil => intro a ha; simp [runSubs] at ha
  | cons x xs ih =>
    intro a ha
    unfold runSubs at ha ⊢
    split at ha
    · rename_i s' h
      have hs := accept_spec s s' x.id x.nonce x.now h
      simp only [h] at ha ⊢
      rcases List.mem_append.1 ha with ha | ha
      · have := ih s' a ha
        by_cases e : a.1 = x.id
        · rw [e] at this ⊢; constructor <;> omega
        · have h3 := hs.2.2.2 a.1 e; constructor <;> omega
      · simp at ha; subst ha
        have := table_monotone s' xs x.id
        simp only; constructor <;> omega
    · exact ih s a ha

/-- **forward only**: along any history the accepted nonces of each identity are strictly increasing
(the list is newest first: every earlier acceptance of the same identity carries a smaller nonce) -/
theorem accepted_strictly_increasing (s : Store) (xs : List Sub) :
    ((runSubs s xs).2).Pairwise (fun newer older => newer.1 = older.1 → older.2 < newer.2) := by
  induction xs generalizing s with
  | nil => simp [runSubs]
  | cons x xs ih =>
    unfold runSubs
    split
    · rename_i s' h
      have hs := accept_spec s s' x.id x.nonce x.now h
      simp only
      rw [List.pairwise_append]
      refine ⟨ih s', by simp, ?_⟩
      intro a ha b hb e
      simp at hb; subst hb
      have := (accepted_bounds s' xs a ha).1
      simp only at e ⊢
      rw [e] at this; omega
    · exact ih s

/-- **at most once**: no (identity, nonce) pair is accepted twice in any history -/
theorem at_most_once (s : Store) (xs : List Sub) : ((runSubs s xs).2).Nodup := by
  have h := accepted_strictly_increasing s xs
  refine List.Pairwise.imp ?_ h
  intro a b hab e
  have := hab (by rw [e])
  rw [e] at this; omega

/-- a captured request replayed at any later time, any number of times, is never honoured again:
once `(id, n)` was accepted, every later submission of `(id, n)` is rejected, whatever happened in between -/
theorem replay_rejected (s s' : Store) (id : String) (n now now' : Int) (between : List Sub)
    (h : s.checkAndSaveNonce id n now = .ok s') :
    ((runSubs s' between).1.checkAndSaveNonce id n now').isOk = false := by
  have h1 := (accept_spec s s' id n now h).2.2.1
  have h2 := table_monotone s' between id
  rw [not_greater_rejected _ id n now' (by omega)]; rfl

/-! ### nonces and the rest of the store

The nonce table is only ever written by `CheckAndSaveNonce`: no keep-alive, registration, balance update or link of
any node forgets or lowers an entry, so a replay stays refused however much other traffic the store sees in
between (seeded change C05-r4 made the memory driver's keep-alive expire entries older than two minutes). -/

inductive AnyOp
  | nonce (x : Sub)
  | setNode (n : Node)
  | addNodeBalance (id : String) (amt : Int)
  | addAccountBalance (a : String) (amt : Int)
  | addAccountNode (a id : String)
  | updateNodePeers (id : String) (reported : List String) (block : Nat) (now : Int)

def applyAny (s : Store) : AnyOp → Store
  | .nonce x => match s.checkAndSaveNonce x.id x.nonce x.now with | .ok s' => s' | .error _ => s
  | .setNode n => match s.setNode n with | .ok s' => s' | .error _ => s
  | .addNodeBalance id amt => match s.addNodeBalance id amt with | .ok s' => s' | .error _ => s
  | .addAccountBalance a amt => s.addAccountBalance a amt
  | .addAccountNode a id => match s.addAccountNode a id with | .ok s' => s' | .error _ => s
  | .updateNodePeers id rep blk now => match s.updateNodePeers id rep blk now with | .ok r => r.1 | .error _ => s

theorem setNode_nonces (s s' : Store) (n : Node) (h : s.setNode n = .ok s') : s'.nonces = s.nonces := by
  unfold Store.setNode at h
  split at h
  · cases h
  · cases h; rfl

theorem addNodeBalance_nonces (s s' : Store) (id : String) (amt : Int) (h : s.addNodeBalance id amt = .ok s') :
    s'.nonces = s.nonces := by
  unfold Store.addNodeBalance at h
  split at h
  · cases h
  · split at h <;> (cases h; rfl)

theorem addAccountNode_nonces (s s' : Store) (a id : String) (h : s.addAccountNode a id = .ok s') :
    s'.nonces = s.nonces := by
  unfold Store.addAccountNode at h
  split at h
  · cases h
  · cases h; rfl

theorem updateNodePeers_nonces (s : Store) (id : String) (rep : List String) (blk : Nat) (now : Int)
    (r : Store × List String) (h : s.updateNodePeers id rep blk now = .ok r) : r.1.nonces = s.nonces := by
  unfold Store.updateNodePeers at h
  split at h
  · cases h
  · cases h; rfl

/-- **only `CheckAndSaveNonce` writes the nonce table** -/
theorem other_ops_keep_nonces (s : Store) (op : AnyOp) (h : ∀ x, op ≠ .nonce x) : (applyAny s op).nonces = s.nonces := by
  cases op with
  | nonce x => exact absurd rfl (h x)
  | setNode n =>
    show (match s.setNode n with | .ok s' => s' | .error _ => s).nonces = s.nonces
    cases hs : s.setNode n with
    | ok s' => exact setNode_nonces s s' n hs
    | error e => rfl
  | addNodeBalance id amt =>
    show (match s.addNodeBalance id amt with | .ok s' => s' | .error _ => s).nonces = s.nonces
    cases hs : s.addNodeBalance id amt with
    | ok s' => exact addNodeBalance_nonces s s' id amt hs
    | error e => rfl
  | addAccountBalance a amt => rfl
  | addAccountNode a id =>
    show (match s.addAccountNode a id with | .ok s' => s' | .error _ => s).nonces = s.nonces
    cases hs : s.addAccountNode a id with
    | ok s' => exact addAccountNode_nonces s s' a id hs
    | error e => rfl
  | updateNodePeers id rep blk now =>
    show (match s.updateNodePeers id rep blk now with | .ok r => r.1 | .error _ => s).nonces = s.nonces
    cases hs : s.updateNodePeers id rep blk now with
    | ok r => exact updateNodePeers_nonces s id rep blk now r hs
    | error e => rfl

theorem tbl_monotone_step (s : Store) (op : AnyOp) (id : String) : tbl s id ≤ tbl (applyAny s op) id := by
  cases op with
  | nonce x =>
    show tbl s id ≤ tbl (match s.checkAndSaveNonce x.id x.nonce x.now with | .ok s' => s' | .error _ => s) id
    cases h : s.checkAndSaveNonce x.id x.nonce x.now with
    | error e => exact Int.le_refl _
    | ok s' =>
      have hs := accept_spec s s' x.id x.nonce x.now h
      by_cases e : id = x.id
      · subst e; simp only; omega
      · have := hs.2.2.2 id e; simp only; omega
  | _ => unfold tbl; rw [other_ops_keep_nonces _ _ (by intro x hx; cases hx)]; exact Int.le_refl _

/-- the table only moves forward along any history of store operations -/
theorem tbl_monotone_any (s : Store) (ops : List AnyOp) (id : String) : tbl s id ≤ tbl (ops.foldl applyAny s) id := by
  induction ops generalizing s with
  | nil => exact Int.le_refl _
  | cons op t ih => exact Int.le_trans (tbl_monotone_step s op id) (ih _)

/-- **a replay stays refused across any other store traffic**: once a nonce was honoured, the same nonce (and every
smaller one) of that identity is refused after any sequence of store operations of any identities and nodes, at any
later clock reading -/
theorem replay_rejected_across_ops (s s' : Store) (id : String) (n m now now' : Int) (between : List AnyOp)
    (h : s.checkAndSaveNonce id n now = .ok s') (hm : m ≤ n) :
    (between.foldl applyAny s').checkAndSaveNonce id m now' = .error .invalidNonce := by
  have h1 := (accept_spec s s' id n now h).2.2.1
  have h2 := tbl_monotone_any s' between id
  exact not_greater_rejected _ id m now' (by omega)

/-- non-vacuity: the premise of `replay_rejected_across_ops` is met (a first nonce on an empty store is honoured) -/
example : ∃ s', Store.empty.checkAndSaveNonce "a" 5 5 = .ok s' := ⟨_, rfl⟩

/-! ### racing duplicates

Memory driver: `CheckAndSaveNonce` runs under the store mutex, so k concurrent copies execute in
*some* order — `at_most_once` above covers every order.  Badger driver: each call is an optimistic
transaction (read the entry at `start`, write at `commit`, which fails with a conflict if the entry
was committed by someone else after `start`).  Every schedule of start/commit events of any number
of copies of the same request accepts at most one. -/

inductive Ev | start (t : Nat) | commit (t : Nat)

structure TxState where
  val : Int := 0            -- committed value of the identity's entry
  ver : Nat := 0            -- commit counter of the entry
  snap : List (Nat × Int × Nat) := []   -- transaction ↦ (value, version) read at start
  accepts : Nat := 0

def snapOf (st : TxState) (t : Nat) : Option (Int × Nat) := (st.snap.find? (fun e => e.1 == t)).map (·.2)

/-- one event of the schedule; every transaction submits the same nonce `n` -/
def txStep (n : Int) (st : TxState) : Ev → TxState
  | .start t => { st with snap := (t, st.val, st.ver) :: st.snap }
  | .commit t =>
    match snapOf st t with
    | none => st
    | some (v, ver) =>
      if ver ≠ st.ver then st                 -- ErrConflict: refused
      else if n ≤ v then st                  -- ErrInvalidNonce
      else { st with val := n, ver := st.ver + 1, accepts := st.accepts + 1 }

def TxInv (n : Int) (st : TxState) : Prop :=
  (st.accepts = 0 ∨ (st.accepts = 1 ∧ n ≤ st.val)) ∧
  (∀ e ∈ st.snap, e.2.2 = st.ver → e.2.1 = st.val) ∧ (∀ e ∈ st.snap, e.2.2 ≤ st.ver)

theorem txInv_step (n : Int) (st : TxState) (ev : Ev) (h : TxInv n st) : TxInv n (txStep n st ev) := by
  obtain ⟨h1, h2, h3⟩ := h
  cases ev with
  | start t =>
    refine ⟨h1, ?_, ?_⟩
    · intro e he hv
      simp only [txStep, List.mem_cons] at he
      rcases he with he | he
      · subst he; rfl
      · exact h2 e he hv
    · intro e he
      simp only [txStep, List.mem_cons] at he
      rcases he with he | he
      · subst he; exact Nat.le_refl _
      · exact h3 e he
  | commit t =>
    simp only [txStep]
    split
    · exact ⟨h1, h2, h3⟩
    · rename_i v ver hs
      split
      · exact ⟨h1, h2, h3⟩
      · rename_i hver
        split
        · exact ⟨h1, h2, h3⟩
        · rename_i hn
          -- the snapshot is current, so v = st.val; accepting requires n > st.val, impossible after an accept
          have hmem : ∃ e ∈ st.snap, e.2 = (v, ver) := by
            unfold snapOf at hs
            cases hf : st.snap.find? (fun e => e.1 == t) with
            | none => simp [hf] at hs
            | some e =>
              simp [hf] at hs
              exact ⟨e, List.mem_of_find?_eq_some hf, hs⟩
          obtain ⟨e, he, hev⟩ := hmem
          have hver' : ver = st.ver := by simpa using hver
          have hv : v = st.val := by
            have := h2 e he (by rw [hev]; exact hver')
            rw [hev] at this; exact this
          refine ⟨?_, ?_, ?_⟩
          · rcases h1 with h0 | ⟨_, hle⟩
            · right; simp only; exact ⟨by omega, Int.le_refl _⟩
            · omega
          · intro e' he' hv'
            have := h3 e' he'
            simp only at hv'; omega
          · intro e' he'
            have := h3 e' he'
            simp only; omega

/-- **racing duplicates, optimistic transactions**: any schedule accepts at most one copy -/
theorem racing_duplicates (n : Int) (sched : List Ev) : (sched.foldl (txStep n) {}).accepts ≤ 1 := by
  have : TxInv n (sched.foldl (txStep n) {}) := by
    suffices ∀ st, TxInv n st → TxInv n (sched.foldl (txStep n) st) from
      this {} ⟨Or.inl rfl, by intro e he; simp at he, by intro e he; simp at he⟩
    induction sched with
    | nil => intro st h; exact h
    | cons ev evs ih => intro st h; exact ih _ (txInv_step n st ev h)
  rcases this.1 with h | ⟨h, _⟩ <;> omega

/-! #### racing requests with *different* nonces of one identity

Transaction `t` submits the nonce `nonceOf t`.  Whatever the schedule, the committed nonce never decreases and
stays at or above every nonce that was accepted - so a later replay of any accepted request, the highest one
included, is refused (the `rounds-with-regress` count of the `conc nonces` workload). -/

structure TxStateN where
  val : Int := 0
  ver : Nat := 0
  snap : List (Nat × Int × Nat) := []
  accepted : List Int := []

def snapOfN (st : TxStateN) (t : Nat) : Option (Int × Nat) := (st.snap.find? (fun e => e.1 == t)).map (·.2)

def txStepN (nonceOf : Nat → Int) (st : TxStateN) : Ev → TxStateN
  | .start t => { st with snap := (t, st.val, st.ver) :: st.snap }
  | .commit t =>
    match snapOfN st t with
    | none => st
    | some (v, ver) =>
      if ver ≠ st.ver then st
      else if nonceOf t ≤ v then st
      else { st with val := nonceOf t, ver := st.ver + 1, accepted := nonceOf t :: st.accepted }

def TxInvN (st : TxStateN) : Prop :=
  (∀ a ∈ st.accepted, a ≤ st.val) ∧
  (∀ e ∈ st.snap, e.2.2 = st.ver → e.2.1 = st.val) ∧ (∀ e ∈ st.snap, e.2.2 ≤ st.ver)

theorem txInvN_step (nonceOf : Nat → Int) (st : TxStateN) (ev : Ev) (h : TxInvN st) :
    TxInvN (txStepN nonceOf st ev) ∧ st.val ≤ (txStepN nonceOf st ev).val := by
  obtain ⟨h1, h2, h3⟩ := h
  cases ev with
  | start t =>
    refine ⟨⟨h1, ?_, ?_⟩, Int.le_refl _⟩
    · intro e he hv
      simp only [txStepN, List.mem_cons] at he
      rcases he with he | he
      · subst he; rfl
      · exact h2 e he hv
    · intro e he
      simp only [txStepN, List.mem_cons] at he
      rcases he with he | he
      · subst he; exact Nat.le_refl _
      · exact h3 e he
  | commit t =>
    simp only [txStepN]
    split
    · exact ⟨⟨h1, h2, h3⟩, Int.le_refl _⟩
    · rename_i v ver hs
      split
      · exact ⟨⟨h1, h2, h3⟩, Int.le_refl _⟩
      · rename_i hver
        split
        · exact ⟨⟨h1, h2, h3⟩, Int.le_refl _⟩
        · rename_i hn
          have hmem : ∃ e ∈ st.snap, e.2 = (v, ver) := by
            unfold snapOfN at hs
            cases hf : st.snap.find? (fun e => e.1 == t) with
            | none => simp [hf] at hs
            | some e =>
              simp [hf] at hs
              exact ⟨e, List.mem_of_find?_eq_some hf, hs⟩
          obtain ⟨e, he, hev⟩ := hmem
          have hver' : ver = st.ver := by simpa using hver
          have hv : v = st.val := by
            have := h2 e he (by rw [hev]; exact hver')
            rw [hev] at this; exact this
          have hgt : st.val < nonceOf t := by omega
          refine ⟨⟨?_, ?_, ?_⟩, by simp only; omega⟩
          · intro a ha
            simp only [List.mem_cons] at ha
            rcases ha with ha | ha
            · subst ha; exact Int.le_refl _
            · have := h1 a ha; simp only; omega
          · intro e' he' hv'
            have := h3 e' he'
            simp only at hv'; omega
          · intro e' he'
            have := h3 e' he'
            simp only; omega

/-- **racing requests of one identity, optimistic transactions**: after any schedule the committed nonce is at or
above every accepted one, and it never went down on the way -/
theorem racing_distinct_never_regress (nonceOf : Nat → Int) (sched : List Ev) :
    let st := sched.foldl (txStepN nonceOf) {}
    (∀ a ∈ st.accepted, a ≤ st.val) ∧ 0 ≤ st.val := by
  have : ∀ st0 : TxStateN, TxInvN st0 →
      TxInvN (sched.foldl (txStepN nonceOf) st0) ∧ st0.val ≤ (sched.foldl (txStepN nonceOf) st0).val := by
    induction sched with
    | nil => intro st0 h; exact ⟨h, Int.le_refl _⟩
    | cons ev evs ih =>
      intro st0 h
      obtain ⟨hi, hle⟩ := txInvN_step nonceOf st0 ev h
      obtain ⟨hi2, hle2⟩ := ih _ hi
      exact ⟨hi2, Int.le_trans hle hle2⟩
  have h0 : TxInvN {} := ⟨by intro a ha; simp at ha, by intro e he; simp at he, by intro e he; simp at he⟩
  obtain ⟨hi, hle⟩ := this {} h0
  exact ⟨hi.1, hle⟩

/-- hence a replay of any accepted request after the race is refused by the committed table -/
theorem replay_after_race_refused (nonceOf : Nat → Int) (sched : List Ev) (a : Int)
    (ha : a ∈ (sched.foldl (txStepN nonceOf) {}).accepted) :
    a ≤ (sched.foldl (txStepN nonceOf) {}).val :=
  (racing_distinct_never_regress nonceOf sched).1 a ha

/-! ### expiring nonce entries (badger driver)

The badger driver stores each accepted nonce with a time-to-live so that the table does not grow
without bound.  With the entry kept until the nonce itself has turned stale (`nonce + window`), forgetting
it is unobservable: the expiring table gives the same verdicts as a table that never forgets, for every
history with a non-decreasing clock. -/

/-- the expiring table holds the same nonces as the never-forgetting one, each kept at least until
the nonce itself is stale -/
def Sim (w : Int) (et : ETable) (mt : AList Int) : Prop :=
  ∀ id, match mt.get id with
    | none => et.get id = none
    | some v => ∃ e, et.get id = some (v, e) ∧ v + w ≤ e

theorem ttl_safe_step (w : Int) (et : ETable) (mt : AList Int) (id : String) (n now exp : Int) (h : Sim w et mt)
    (hexp : n + w ≤ exp) :
    match echeck w et id n now exp, mcheck w mt id n now with
    | some et', some mt' => Sim w et' mt'
    | none, none => True
    | _, _ => False := by
  unfold echeck mcheck
  by_cases hs : n ≤ now - w
  · simp [hs]
  · simp only [hs, if_false]
    have hid := h id
    have hset : Sim w (et.set id (n, exp)) (mt.set id n) := by
      intro id'
      by_cases e : id = id'
      · subst e; simp only [get_set_eq]; exact ⟨exp, rfl, hexp⟩
      · rw [get_set_ne _ _ e, get_set_ne _ _ e]; exact h id'
    cases hm : mt.get id with
    | none =>
      simp only [hm] at hid
      simp only [eget, hid]
      exact hset
    | some v =>
      simp only [hm] at hid
      obtain ⟨e, he, hle⟩ := hid
      simp only [eget, he]
      by_cases hlive : now < e
      · simp only [hlive, if_true]
        by_cases hnv : n ≤ v
        · simp [hnv]
        · simp only [hnv, if_false]; exact hset
      · -- the entry has expired: then v ≤ now − window < n, so the never-forgetting table accepts as well
        simp only [hlive, if_false]
        have hnv : ¬ n ≤ v := by omega
        simp only [hnv, if_false]; exact hset

/-- **TTL is unobservable**: for every history (any clock readings) in which every saved entry is kept at
least until its nonce is stale, the expiring table returns exactly the verdicts of the table that never
forgets — an expired entry never re-admits a nonce -/
theorem ttl_safe (w : Int) (et : ETable) (mt : AList Int) (xs : List ESub) (h : Sim w et mt)
    (hexp : ∀ x ∈ xs, x.nonce + w ≤ x.exp) :
    (erun w et xs).2 = (mrun w mt xs).2 := by
  induction xs generalizing et mt with
  | nil => rfl
  | cons x xs ih =>
    have hstep := ttl_safe_step w et mt x.id x.nonce x.now x.exp h (hexp x List.mem_cons_self)
    have hexp' : ∀ y ∈ xs, y.nonce + w ≤ y.exp := fun y hy => hexp y (List.mem_cons_of_mem _ hy)
    unfold erun mrun
    cases he : echeck w et x.id x.nonce x.now x.exp with
    | none =>
      cases hm : mcheck w mt x.id x.nonce x.now with
      | none => simp only; rw [ih et mt h hexp']
      | some mt' => simp [he, hm] at hstep
    | some et' =>
      cases hm : mcheck w mt x.id x.nonce x.now with
      | none => simp [he, hm] at hstep
      | some mt' =>
        simp only [he, hm] at hstep
        simp only; rw [ih et' mt' hstep hexp']

/-- the never-forgetting table of this section is the store model's nonce table (both drivers' documented
contract) for every positive nonce: same verdict, same table afterwards -/
theorem mcheck_is_store (s : Store) (id : String) (n now : Int) (hn : 0 < n) :
    match mcheck nonceWindow s.nonces id n now, s.checkAndSaveNonce id n now with
    | some t', .ok s' => s'.nonces = t'
    | none, .error _ => True
    | _, _ => False := by
  unfold mcheck Store.checkAndSaveNonce
  by_cases hs : n ≤ now - nonceWindow
  · simp [hs]
  · simp only [hs, if_false]
    cases hg : s.nonces.get id with
    | none =>
      have : ¬ n ≤ 0 := by omega
      simp [this]
    | some v =>
      by_cases hv : n ≤ v
      · simp [hv]
      · simp [hv]

/-- **the time-to-live the badger code asks for keeps the entry at least until the nonce is stale**, whatever the
nonce's date relative to the store's clock and however badger's whole-second rounding falls: the hypothesis of
`ttl_safe` is discharged by the code's own arithmetic -/
theorem badger_entry_outlives_nonce (w nonce now0 now1 : Int) (h : now0 ≤ now1) :
    nonce + w ≤ badgerExp w nonce now0 now1 := by
  unfold badgerExp badgerTtl second
  by_cases ha : nonce - now0 > 0 <;> simp only [ha, if_true, if_false] <;> omega

/-- without the one-second slack the entry can vanish while the nonce is still fresh (the seeded change
`C05-ttl-noslack`): a replay in that gap is accepted -/
theorem no_slack_counterexample :
    ∃ w nonce now0 now1, now0 ≤ now1 ∧ noSlackExp w nonce now0 now1 < nonce + w := by
  refine ⟨2000000000, 500000000, 500000000, 500000000, by omega, ?_⟩
  decide

/-- for every history whose entries carry the expiry the badger code asks for, the badger nonce table gives the
verdicts of the table that never forgets (the memory driver, the contract) -/
theorem badger_nonce_verdicts (w : Int) (xs : List ESub)
    (hexp : ∀ x ∈ xs, ∃ now1, x.now ≤ now1 ∧ x.exp = badgerExp w x.nonce x.now now1) :
    (erun w [] xs).2 = (mrun w [] xs).2 := by
  apply ttl_safe w [] [] xs (by intro id; simp [Sim])
  intro x hx
  obtain ⟨now1, h1, h2⟩ := hexp x hx
  rw [h2]
  exact badger_entry_outlives_nonce w x.nonce x.now now1 h1

theorem sim_empty (w : Int) : Sim w [] [] := by intro id; simp

/-- the pre-repair behaviour (entry expiring `window` after it was *saved*): a future-dated nonce is
accepted a second time once the entry has lapsed — the witness that motivated the repair (DESIGN.md §9 F16) -/
def echeckOld (t : ETable) (id : String) (n now : Int) : Option ETable :=
  echeck nonceWindow t id n now (now + nonceWindow)

theorem old_ttl_counterexample :
    let w := nonceWindow
    ∃ t1, echeckOld [] "a" (w + 100) 0 = some t1 ∧ (echeckOld t1 "a" (w + 100) (w + 50)).isSome = true := by
  refine ⟨_, rfl, ?_⟩
  decide

/-- non-vacuity: a history in which a replay, a decreasing nonce and a stale nonce are all rejected -/
example :
    (runSubs Store.empty [⟨"a", 1000, 1000⟩, ⟨"a", 1000, 2000⟩, ⟨"b", 900, 2000⟩, ⟨"a", 999, 2000⟩,
      ⟨"a", 1001, 2000⟩, ⟨"c", -nonceWindow, 0⟩]).2 = [("a", 1001), ("b", 900), ("a", 1000)] := by decide

end Vipnode.C05
