/-
C20 — An agent runs one keep-alive loop that can always be stopped and restarted.

Theorems about the life-cycle state machine of `Model/Agent.lean` (`Start`,
`Stop`, `Wait`, the update loop of `agent/agent.go`), for every sequence and
interleaving of events — including events that arrive when they "should not"
(a second start while starting, a stop without a loop, ticks after the loop
ended).  The update-interval clause is a regenerated fact: the built binary is
probed with a grid of `--update-interval` values on every run.
-/
import Vipnode.Model.Agent
import Vipnode.Generated.Facts
namespace Vipnode.C20
open Vipnode

/-- the invariant of every reachable life-cycle state -/
def Inv (s : Life) : Prop :=
  s.loops ≤ 1 ∧ (s.started = true ↔ (s.starting = true ∨ s.loops = 1)) ∧ ¬ (s.starting = true ∧ s.loops = 1)

theorem inv_init : Inv {} := by simp [Inv]

theorem inv_step (s : Life) (ev : LifeEv) (h : Inv s) : Inv (lifeStep s ev).1 := by
  obtain ⟨h1, h2, h3⟩ := h
  cases ev with
  | startBegin =>
    simp only [lifeStep]
    by_cases hs : s.started = true
    · rw [if_pos hs]; exact ⟨h1, h2, h3⟩
    · rw [if_neg hs]
      have : ¬ (s.starting = true ∨ s.loops = 1) := fun hx => hs (h2.2 hx)
      refine ⟨h1, by simp, ?_⟩
      intro ⟨_, hl⟩; exact this (Or.inr hl)
  | startFinish ok =>
    simp only [lifeStep]
    by_cases hst : s.starting = true
    · have hl : s.loops = 0 := by
        by_cases e : s.loops = 1
        · exact absurd ⟨hst, e⟩ h3
        · omega
      have hstarted := h2.2 (Or.inl hst)
      cases ok with
      | true => simp [hst, Inv, hl, hstarted]
      | false => simp [hst, Inv, hl]
    · have : s.starting = false := by simpa using hst
      simp only [this, Bool.not_false, if_true]; exact ⟨h1, h2, h3⟩
  | tick ok =>
    simp only [lifeStep]
    by_cases hl : s.loops = 0
    · rw [if_pos hl]; exact ⟨h1, h2, h3⟩
    · rw [if_neg hl]
      have hl1 : s.loops = 1 := by omega
      have hst : s.starting = false := by
        cases hs : s.starting with
        | false => rfl
        | true => exact absurd ⟨hs, hl1⟩ h3
      cases ok with
      | true => simp only [if_true]; exact ⟨h1, h2, h3⟩
      | false => simp [Inv, hl1, hst]
  | stop =>
    simp only [lifeStep]
    by_cases hl : s.loops = 0
    · rw [if_pos hl]; exact ⟨h1, h2, h3⟩
    · rw [if_neg hl]
      have hl1 : s.loops = 1 := by omega
      have hst : s.starting = false := by
        cases hs : s.starting with
        | false => rfl
        | true => exact absurd ⟨hs, hl1⟩ h3
      simp [Inv, hl1, hst]
  | wait =>
    simp only [lifeStep]
    split <;> exact ⟨h1, h2, h3⟩

theorem inv_run (s : Life) (evs : List LifeEv) (h : Inv s) : Inv (lifeRun s evs) := by
  induction evs generalizing s with
  | nil => exact h
  | cons e es ih => exact ih _ (inv_step s e h)

/-- **at most one keep-alive loop**, after every sequence / interleaving of start, stop, wait and tick events -/
theorem at_most_one_loop (evs : List LifeEv) : (lifeRun {} evs).loops ≤ 1 := (inv_run {} evs inv_init).1

/-- **starting again while running (or while another start is in progress) is refused** and changes nothing -/
theorem second_start_refused (s : Life) (h : s.started = true) : lifeStep s .startBegin = (s, .refused) := by
  simp [lifeStep, h]

/-- while a loop runs the agent counts as started, so every further start is refused -/
theorem running_refuses_start (evs : List LifeEv) (h : (lifeRun {} evs).loops = 1) :
    (lifeStep (lifeRun {} evs) .startBegin).2 = .refused := by
  have := (inv_run {} evs inv_init).2.1.2 (Or.inr h)
  simp [lifeStep, this]

/-- **a start that fails at the pool leaves nothing running**, and the agent can be started again -/
theorem failed_start_leaves_nothing (s : Life) (h : Inv s) (hs : s.started = false) :
    let s1 := (lifeStep s .startBegin).1
    let s2 := (lifeStep s1 (.startFinish false)).1
    s2.loops = 0 ∧ s2.started = false ∧ (lifeStep s2 .startBegin).2 = .accepted := by
  have hno : ¬ (s.starting = true ∨ s.loops = 1) := fun hx => by rw [h.2.1.2 hx] at hs; cases hs
  have hl : s.loops = 0 := by
    have hle := h.1
    by_cases e : s.loops = 1
    · exact absurd (Or.inr e) hno
    · omega
  simp [lifeStep, hs, hl]

/-- **stopping ends the loop so that waiting returns** (cleanly), **after which it can be started again** -/
theorem stop_ends_loop_wait_returns (s : Life) (h : s.loops = 1) :
    let s1 := (lifeStep s .stop).1
    s1.loops = 0 ∧ s1.started = false ∧ (∃ r, (lifeStep s1 .wait).2 = .returned r) ∧
    (s.waitBuf = [] → (lifeStep s1 .wait).2 = .returned true) ∧ (lifeStep s1 .startBegin).2 = .accepted := by
  refine ⟨by simp [lifeStep, h], by simp [lifeStep, h], ?_, ?_, by simp [lifeStep, h]⟩
  · cases hw : s.waitBuf with
    | nil => exact ⟨true, by simp [lifeStep, h, hw]⟩
    | cons r rest => exact ⟨r, by simp [lifeStep, h, hw]⟩
  · intro hw; simp [lifeStep, h, hw]

/-- a loop that ends on a failed keep-alive also releases waiters (with the error) and allows a restart; a later
stop has nothing to stop and returns at once -/
theorem failed_keepalive_ends_loop (s : Life) (h : s.loops = 1) (hw : s.waitBuf = []) :
    let s1 := (lifeStep s (.tick false)).1
    s1.loops = 0 ∧ s1.started = false ∧ (lifeStep s1 .wait).2 = .returned false ∧
    (lifeStep s1 .stop).2 = .ignored ∧ (lifeStep s1 .startBegin).2 = .accepted := by
  simp [lifeStep, h, hw]

/-- **one keep-alive per interval**: a tick sends exactly one keep-alive when a loop runs, none otherwise -/
theorem one_keepalive_per_tick (evs : List LifeEv) (ok : Bool) :
    let s := lifeRun {} evs
    (lifeStep s (.tick ok)).1.keepalives = s.keepalives + (if s.loops = 1 then 1 else 0) := by
  have hinv := inv_run {} evs inv_init
  by_cases hl : (lifeRun {} evs).loops = 0
  · simp [lifeStep, hl]
  · have hl1 : (lifeRun {} evs).loops = 1 := by have := hinv.1; omega
    cases ok <;> simp [lifeStep, hl1]

/-- **Stop can only be kept waiting by a Start that has not finished**: in every reachable state, a `Stop` that does
not return at once finds a start attempt in progress (and returns once that attempt has started its loop or failed) -/
theorem stop_blocks_only_while_starting (evs : List LifeEv) (h : (lifeStep (lifeRun {} evs) .stop).2 = .blocked) :
    (lifeRun {} evs).starting = true := by
  obtain ⟨_, h2, _⟩ := inv_run {} evs inv_init
  generalize lifeRun {} evs = s at h h2
  simp only [lifeStep] at h
  by_cases hl : s.loops = 0
  · simp only [hl, if_true] at h
    by_cases hs : s.started = true
    · rcases h2.mp hs with h' | h'
      · exact h'
      · omega
    · simp [hs] at h
  · simp [hl] at h

/-- two callers stopping at once: served in either order, both return (the second finds the loop gone) -/
theorem two_stops_both_return (s : Life) (h : Inv s) (hs : s.starting = false) :
    (lifeStep s .stop).2 ≠ .blocked ∧ (lifeStep (lifeStep s .stop).1 .stop).2 ≠ .blocked := by
  obtain ⟨h1, h2, _⟩ := h
  simp only [lifeStep]
  by_cases hl : s.loops = 0
  · have hst : s.started = false := by
      cases hstd : s.started
      · rfl
      · rcases h2.mp hstd with h' | h'
        · rw [hs] at h'; cases h'
        · omega
    simp [hl, hst]
  · have : s.loops = 1 := by omega
    simp [this]

/-- a Stop that is pending while the loop ends on its own (failed keep-alive) returns: the agent is left stopped, the
failure waits to be collected -/
theorem stop_pending_when_loop_dies (s : Life) (hl : s.loops = 1) :
    let s1 := (lifeStep s (.tick false)).1
    (lifeStep s1 .stop).2 = .ignored ∧ (lifeStep s1 .stop).1.loops = 0 ∧ (lifeStep s1 .stop).1.started = false ∧
    (lifeStep s1 .stop).1.waitBuf = s.waitBuf ++ [false] := by
  simp [lifeStep, hl]

/-- a full cycle: start, three intervals, stop, wait, start again -/
theorem restart_after_stop :
    let s := lifeRun {} [.startBegin, .startFinish true, .tick true, .tick true, .tick true, .stop, .wait, .startBegin, .startFinish true]
    s.loops = 1 ∧ s.keepalives = 3 ∧ s.started = true := by decide

/-- two racing starts: whichever order their steps interleave in, one loop results -/
example : (lifeRun {} [.startBegin, .startBegin, .startFinish true, .startFinish true]).loops = 1 ∧
          (lifeRun {} [.startBegin, .startFinish true, .startBegin, .startFinish true]).loops = 1 := by decide

/-- the pre-repair `Start` never set `started`: two starts ran two loops (DESIGN.md §9 F14) -/
def lifeStepOld (s : Life) : LifeEv → Life
  | .startBegin => { s with starting := true }
  | .startFinish ok => if ok then { s with starting := false, loops := s.loops + 1 } else { s with starting := false }
  | e => (lifeStep s e).1

theorem old_double_start_counterexample :
    ([LifeEv.startBegin, .startFinish true, .startBegin, .startFinish true].foldl lifeStepOld {}).loops = 2 := by decide

/-! ### update interval accepted by the command line -/

/-- **only intervals shorter than the pool's expiry window are accepted**: every probed `--update-interval`
value that the built binary accepted is below `store.ExpireInterval` (regenerated and re-proved on every run) -/
theorem accepted_below_expiry : ∀ p ∈ Facts.intervalProbe, p.2 = true → p.1 < Facts.expireIntervalNs := by decide

/-- the expiry window itself and everything probed above it is refused; the default 60 s is accepted -/
theorem expiry_refused :
    (Facts.expireIntervalNs, false) ∈ Facts.intervalProbe ∧ (60000000000, true) ∈ Facts.intervalProbe ∧
    ∀ p ∈ Facts.intervalProbe, Facts.expireIntervalNs ≤ p.1 → p.2 = false := by decide

end Vipnode.C20
