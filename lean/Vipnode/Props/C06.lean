/-
C06 — A refused request changes nothing.

For every signed endpoint of the pool and payment services: a request that
fails authentication (signature does not verify, or the nonce is stale /
not greater) leaves the whole pool state — nodes, peers, balances, links,
nonce table, host registry, deposits, payouts — exactly as it was, and no host
is called.
-/
import Vipnode.Lemmas.Pool
namespace Vipnode.C06
open Vipnode Vipnode.Pool

/-- a request whose signature does not verify never reaches the nonce table -/
theorem bad_signature_fails (p : Pool) (id : String) (nonce now : Int) :
    p.verify false id nonce now = .error .verifyFailed := rfl

/-- **refused ⇒ no trace**, every endpoint -/
theorem refused_no_effect (p : Pool) (sigOk : Bool) (id : String) (nonce now : Int) (e : PoolErr)
    (hv : p.verify sigOk id nonce now = .error e) :
    (∀ conn src req, p.Connect conn src sigOk id nonce req now = (p, .error .verifyFailed)) ∧
    (∀ reported block mnow fail, p.Update sigOk id nonce reported block now mnow fail = (p, .error .verifyFailed, [])) ∧
    (∀ num choice outcome, p.Peer sigOk id nonce now num choice outcome = (p, .error .verifyFailed)) ∧
    (∀ node, p.AddNode sigOk id nonce now node = (p, .error .verifyFailed)) ∧
    (∀ settleOk, p.Withdraw sigOk id nonce now settleOk = (p, .error .verifyFailed)) := by
  have he := verify_error p sigOk id nonce now e hv
  subst he
  refine ⟨?_, ?_, ?_, ?_, ?_⟩
  · intro conn src req; simp [Connect, hv]
  · intro reported block mnow fail; simp [Update, hv]
  · intro num choice outcome; simp [Peer, hv]
  · intro node; simp [AddNode, payVerify, hv]
  · intro settleOk; simp [Withdraw, payVerify, hv]

/-- in particular no host is asked to whitelist or disconnect anybody -/
theorem refused_calls_no_host (p : Pool) (sigOk : Bool) (id : String) (nonce now : Int) (e : PoolErr)
    (hv : p.verify sigOk id nonce now = .error e) (reported : List String) (block : Nat) (mnow : Int) (fail : Nat → Bool) :
    (p.Update sigOk id nonce reported block now mnow fail).2.2 = [] := by
  rw [(refused_no_effect p sigOk id nonce now e hv).2.1]

/-- as a step of a history: a refused request is the identity on pool states -/
theorem refused_step_identity (p : Pool) (op : Op) :
    (match op with
     | .connect _ _ sigOk id nonce _ now => (p.verify sigOk id nonce now).isOk = false
     | .update sigOk id nonce _ _ now _ _ => (p.verify sigOk id nonce now).isOk = false
     | .peer sigOk id nonce now _ _ _ => (p.verify sigOk id nonce now).isOk = false
     | .addNode sigOk w nonce now _ => (p.verify sigOk w nonce now).isOk = false
     | .withdraw sigOk w nonce now _ => (p.verify sigOk w nonce now).isOk = false
     | _ => False) → step p op = p := by
  cases op with
  | connect conn src sigOk id nonce req now =>
    intro h
    cases hv : p.verify sigOk id nonce now with
    | ok _ => simp [hv, Except.isOk, Except.toBool] at h
    | error e => simp only [step]; rw [(refused_no_effect p sigOk id nonce now e hv).1]
  | update sigOk id nonce reported block now mnow fail =>
    intro h
    cases hv : p.verify sigOk id nonce now with
    | ok _ => simp [hv, Except.isOk, Except.toBool] at h
    | error e => simp only [step]; rw [(refused_no_effect p sigOk id nonce now e hv).2.1]
  | peer sigOk id nonce now num choice outcome =>
    intro h
    cases hv : p.verify sigOk id nonce now with
    | ok _ => simp [hv, Except.isOk, Except.toBool] at h
    | error e => simp only [step]; rw [(refused_no_effect p sigOk id nonce now e hv).2.2.1]
  | addNode sigOk w nonce now node =>
    intro h
    cases hv : p.verify sigOk w nonce now with
    | ok _ => simp [hv, Except.isOk, Except.toBool] at h
    | error e => simp only [step]; rw [(refused_no_effect p sigOk w nonce now e hv).2.2.2.1]
  | withdraw sigOk w nonce now settleOk =>
    intro h
    cases hv : p.verify sigOk w nonce now with
    | ok _ => simp [hv, Except.isOk, Except.toBool] at h
    | error e => simp only [step]; rw [(refused_no_effect p sigOk w nonce now e hv).2.2.2.2]
  | close conn => intro h; exact absurd h id
  | deposit w a => intro h; exact absurd h id

/-- **the victim's nonce is not burned**: after a forged request naming `id` with an arbitrarily large
nonce, the legitimate owner's next request — with a smaller, fresh nonce — is verified exactly as if the
forgery had never been sent -/
theorem victim_not_burned (p : Pool) (id : String) (forgedNonce ownerNonce now now' : Int)
    (conn : Option String) (src : String) (req : ConnectReq) :
    let p' := (p.Connect conn src false id forgedNonce req now).1
    p'.verify true id ownerNonce now' = p.verify true id ownerNonce now' := by
  simp [Connect, verify]

/-- the same for the payment service (where the original code consumed the nonce first, DESIGN.md §9 F4) -/
theorem victim_not_burned_payment (p : Pool) (wallet : String) (forgedNonce ownerNonce now now' : Int) (settleOk : Bool) :
    let p' := (p.Withdraw false wallet forgedNonce now settleOk).1
    p'.payVerify true wallet ownerNonce now' = p.payVerify true wallet ownerNonce now' := by
  simp [Withdraw, payVerify, verify]

/-- the pre-repair order of `PaymentService.verify` (nonce first, then signature) -/
def payVerifyOld (p : Pool) (sigOk : Bool) (wallet : String) (nonce now : Int) : Pool × Except PoolErr Unit :=
  match p.store.checkAndSaveNonce wallet nonce now with
  | .error _ => (p, .error .verifyFailed)
  | .ok s => if sigOk then ({ p with store := s }, .ok ()) else ({ p with store := s }, .error .verifyFailed)

/-- witness for the repaired defect: with the old order a forged request burns the owner's nonces -/
theorem old_payment_verify_counterexample :
    let p : Pool := {}
    let p' := (payVerifyOld p false "w" 5000 1000).1
    (p.payVerify true "w" 2000 1000).isOk = true ∧ (p'.payVerify true "w" 2000 1000).isOk = false := by
  decide

/-- non-vacuity: in a running session a forged keep-alive is refused and changes nothing -/
example :
    let p := run {} [.connect none "" true "c" 1 {} 1000]
    (p.Update false "c" 99 ["h"] 1 2000 2000).1 = p ∧ (p.store.nodes.get "c").isSome = true := by
  refine ⟨rfl, ?_⟩; decide

end Vipnode.C06
