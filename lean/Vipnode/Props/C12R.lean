/-
C12 (refinement part) — both drivers' logic, transcribed method by method in `Model/Drivers.lean`, answers and
changes state exactly as the contract model does, on every state reachable by store operations.

* badger: same tables as the contract, different order of reads (`bdg_*_eq`, invariant `BInv`);
* memory: tracked peers inside the node record (`mem_*`, refinement relation `MemR`).
-/
import Vipnode.Model.Drivers
import Vipnode.Lemmas.AList
import Vipnode.Lemmas.Store
import Vipnode.Props.C12
namespace Vipnode.C12R
open Vipnode Vipnode.AList Vipnode.Store

/-! ### badger -/

/-- what the badger code relies on when it reads a balance or a peer set before checking the registration:
links, trial balances and peer sets exist only for registered nodes -/
def BInv (s : Store) : Prop :=
  (∀ id a, s.accounts.get id = some a → ∃ n, s.nodes.get id = some n) ∧
  (∀ id b, s.trials.get id = some b → ∃ n, s.nodes.get id = some n) ∧
  (∀ id t, s.peers.get id = some t → ∃ n, s.nodes.get id = some n)

theorem bdg_getNodeBalance_eq (s : Store) (id : String) (h : BInv s) :
    Bdg.getNodeBalance s id = s.getNodeBalance id := by
  obtain ⟨h1, h2, _⟩ := h
  unfold Bdg.getNodeBalance Store.getNodeBalance Store.nodeBalance
  cases hn : s.nodes.get id with
  | none =>
    cases ha : s.accounts.get id with
    | some a => obtain ⟨n, hn'⟩ := h1 id a ha; rw [hn] at hn'; cases hn'
    | none =>
      cases ht : s.trials.get id with
      | some b => obtain ⟨n, hn'⟩ := h2 id b ht; rw [hn] at hn'; cases hn'
      | none => simp
  | some n =>
    cases ha : s.accounts.get id with
    | some a => cases hb : s.balances.get a <;> simp [hb]
    | none => cases ht : s.trials.get id <;> simp [ht]

theorem bdg_addNodeBalance_eq (s : Store) (id : String) (amt : Int) (h : BInv s) :
    Bdg.addNodeBalance s id amt = s.addNodeBalance id amt := by
  obtain ⟨h1, h2, _⟩ := h
  unfold Bdg.addNodeBalance Store.addNodeBalance
  cases hn : s.nodes.get id with
  | none =>
    cases ha : s.accounts.get id with
    | some a => obtain ⟨n, hn'⟩ := h1 id a ha; rw [hn] at hn'; cases hn'
    | none =>
      cases ht : s.trials.get id with
      | some b => obtain ⟨n, hn'⟩ := h2 id b ht; rw [hn] at hn'; cases hn'
      | none => simp
  | some n =>
    cases ha : s.accounts.get id with
    | some a => cases hb : s.balances.get a <;> simp [hb]
    | none => cases ht : s.trials.get id <;> simp [ht]

theorem bdg_getAccountBalance_eq (s : Store) (a : String) : Bdg.getAccountBalance s a = s.getAccountBalance a := by
  unfold Bdg.getAccountBalance Store.getAccountBalance
  cases s.balances.get a <;> rfl

theorem bdg_addAccountBalance_eq (s : Store) (a : String) (amt : Int) :
    Bdg.addAccountBalance s a amt = s.addAccountBalance a amt := by
  unfold Bdg.addAccountBalance Store.addAccountBalance
  cases s.balances.get a <;> rfl

theorem bdg_addAccountNode_eq (s : Store) (a id : String) : Bdg.addAccountNode s a id = s.addAccountNode a id := by
  unfold Bdg.addAccountNode Store.addAccountNode
  cases s.nodes.get id with
  | none => rfl
  | some n => cases s.trials.get id <;> cases s.balances.get a <;> rfl

theorem bdg_isAccountNode_eq (s : Store) (a id : String) : Bdg.isAccountNode s a id = s.isAccountNode a id := by
  unfold Bdg.isAccountNode Store.isAccountNode
  cases s.accounts.get id with
  | none => rfl
  | some a' => by_cases e : a' = a <;> simp [e]

theorem scan_eq_filter (l : AList String) (a : String) :
    l.foldr (fun kv r => if kv.2 != a then r else kv.1 :: r) [] = (l.filter (fun kv => kv.2 == a)).map (·.1) := by
  induction l with
  | nil => rfl
  | cons kv t ih =>
    simp only [List.foldr_cons, List.filter_cons, ih]
    by_cases e : kv.2 = a <;> simp [e]

theorem bdg_getAccountNodes_eq (s : Store) (a : String) : Bdg.getAccountNodes s a = s.getAccountNodes a := by
  unfold Bdg.getAccountNodes Store.getAccountNodes
  exact scan_eq_filter _ _

theorem bdg_getNode_eq (s : Store) (id : String) : Bdg.getNode s id = s.getNode id := by
  unfold Bdg.getNode Store.getNode
  cases s.nodes.get id <;> rfl

theorem bdg_setNode_eq (s : Store) (n : Node) : Bdg.setNode s n = s.setNode n := rfl

theorem bdg_nodePeers_eq (s : Store) (id : String) (h : BInv s) : Bdg.nodePeers s id = s.nodePeers id := by
  obtain ⟨_, _, h3⟩ := h
  unfold Bdg.nodePeers Store.nodePeers Store.trackedPeers
  cases hp : s.peers.get id with
  | none => cases hn : s.nodes.get id <;> simp
  | some t =>
    obtain ⟨n, hn⟩ := h3 id t hp
    simp [hn]

theorem recordPeers_eq (nodes : AList Node) (tracked : AList Int) (ps : List String) :
    Bdg.recordPeers nodes tracked ps = refreshPeers nodes tracked ps := by
  induction ps generalizing tracked with
  | nil => rfl
  | cons p ps ih =>
    unfold Bdg.recordPeers refreshPeers
    cases nodes.get p with
    | none => exact ih tracked
    | some pn => exact ih _

theorem bdg_updateNodePeers_eq (s : Store) (id : String) (r : List String) (b : Nat) (now : Int) :
    Bdg.updateNodePeers s id r b now = s.updateNodePeers id r b now := by
  unfold Bdg.updateNodePeers Store.updateNodePeers
  cases s.nodes.get id with
  | none => rfl
  | some n =>
    have hf : ∀ (d : Int), (fun (kv : String × Int) => !decide (d < kv.2)) = (fun kv => decide (kv.2 ≤ d)) := by
      intro d; funext kv; by_cases e : d < kv.2
      · have : ¬ kv.2 ≤ d := by omega
        simp [e, this]
      · have : kv.2 ≤ d := by omega
        simp [e, this]
    cases hp : s.peers.get id <;> simp only [recordPeers_eq, hf, Option.getD]

/-! #### statistics: the `CountNode` / `CountBalance` folds are the true counts and sums -/

theorem countNode_fold (now : Int) (ns : List Node) (st : Stats) :
    ns.foldl (countNode now) st =
      { st with
        activeHosts := st.activeHosts + (ns.filter (fun n => n.isHost && decide (now - W < n.lastSeen))).length
        totalHosts := st.totalHosts + (ns.filter (·.isHost)).length
        activeClients := st.activeClients + (ns.filter (fun n => !n.isHost && decide (now - W < n.lastSeen))).length
        totalClients := st.totalClients + (ns.filter (fun n => !n.isHost)).length
        latestBlock := ns.foldl (fun m n => max m n.block) st.latestBlock } := by
  induction ns generalizing st with
  | nil => simp
  | cons n t ih =>
    rw [List.foldl_cons, ih]
    obtain ⟨ah, th, ac, tc, lb, cr, dp, tb⟩ := st
    simp only [countNode, List.filter_cons, List.foldl_cons]
    by_cases hb : n.block > lb
    · have hm : max lb n.block = n.block := by rw [Nat.max_def]; split <;> omega
      by_cases hh : n.isHost <;> by_cases ha : now - W < n.lastSeen <;>
        simp [hh, ha, hb, hm] <;> omega
    · have hm : max lb n.block = lb := by rw [Nat.max_def]; split <;> omega
      by_cases hh : n.isHost <;> by_cases ha : now - W < n.lastSeen <;>
        simp [hh, ha, hb, hm] <;> omega

theorem countBalance_fold (bs : List Bal) (st : Stats) :
    bs.foldl countBalance st =
      { st with
        totalCredit := st.totalCredit + sumInts (bs.map (·.credit))
        totalDeposit := st.totalDeposit + sumInts (bs.map (·.deposit))
        trialBalances := st.trialBalances + (bs.filter (fun b => b.account == "")).length } := by
  induction bs generalizing st with
  | nil => simp [sumInts]
  | cons b t ih =>
    rw [List.foldl_cons, ih]
    obtain ⟨ah, th, ac, tc, lb, cr, dp, tb⟩ := st
    simp only [countBalance, List.map_cons, List.filter_cons, sumInts, List.foldr_cons]
    by_cases he : b.account = "" <;> simp [he] <;> omega

theorem sumInts_append (a b : List Int) : sumInts (a ++ b) = sumInts a + sumInts b := by
  induction a with
  | nil => simp [sumInts]
  | cons x t ih => simp only [sumInts, List.cons_append, List.foldr_cons] at *; omega

theorem bdg_stats_eq (s : Store) (now : Int) : Bdg.stats s now = s.stats now := by
  unfold Bdg.stats Store.stats
  rw [countBalance_fold, countBalance_fold, countNode_fold]
  simp only [ledgerSum, creditSum, depositSum, List.filter_append, List.length_append]
  congr 1 <;> simp <;> omega

/-! #### the invariant holds in every reachable state, so the badger code *is* the contract -/

theorem get_set_isSome {α : Type} (l : AList α) (k k' : String) (v : α) (h : ∃ x, l.get k' = some x) :
    ∃ x, (l.set k v).get k' = some x := by
  by_cases e : k = k'
  · subst e; exact ⟨v, get_set_eq _ _ _⟩
  · rw [get_set_ne _ _ e]; exact h

theorem get_of_get_del {α : Type} (l : AList α) (k k' : String) (v : α) (h : (l.del k).get k' = some v) :
    ∃ x, l.get k' = some x := by
  induction l with
  | nil => simp [AList.del, AList.get] at h
  | cons kv t ih =>
    obtain ⟨k0, v0⟩ := kv
    unfold AList.del at h
    unfold AList.get
    by_cases e0 : k0 = k'
    · simp [e0]
    · simp only [e0, if_false]
      by_cases e1 : k0 = k
      · simp only [e1, if_true] at h
        -- the first binding was removed; `k'` is found further on
        exact ⟨v, h⟩
      · simp only [e1, if_false] at h
        unfold AList.get at h
        simp only [e0, if_false] at h
        exact ih h

theorem bInv_empty : BInv Store.empty := by
  refine ⟨?_, ?_, ?_⟩ <;> intro id x h <;> simp [Store.empty] at h

theorem bInv_applyOp (s : Store) (op : Op) (h : BInv s) : BInv (applyOp s op) := by
  obtain ⟨h1, h2, h3⟩ := h
  cases op with
  | setNode n =>
    simp only [applyOp, Store.setNode]
    split
    · rename_i s' hs
      split at hs
      · cases hs
      · cases hs
        exact ⟨fun id a ha => get_set_isSome _ _ _ _ (h1 id a ha), fun id b hb => get_set_isSome _ _ _ _ (h2 id b hb),
          fun id t ht => get_set_isSome _ _ _ _ (h3 id t ht)⟩
    · exact ⟨h1, h2, h3⟩
  | unp id r b now =>
    simp only [applyOp, Store.updateNodePeers]
    cases hn : s.nodes.get id with
    | none => exact ⟨h1, h2, h3⟩
    | some n =>
      refine ⟨fun id' a ha => get_set_isSome _ _ _ _ (h1 id' a ha), fun id' b hb => get_set_isSome _ _ _ _ (h2 id' b hb), ?_⟩
      intro id' t ht
      by_cases e : id = id'
      · subst e; exact ⟨_, get_set_eq _ _ _⟩
      · simp only at ht
        rw [get_set_ne _ _ e] at ht
        exact get_set_isSome _ _ _ _ (h3 id' t ht)
  | addNodeBalance id amt =>
    simp only [applyOp, Store.addNodeBalance]
    cases hn : s.nodes.get id with
    | none => exact ⟨h1, h2, h3⟩
    | some n =>
      cases ha : s.accounts.get id with
      | some a => exact ⟨h1, h2, h3⟩
      | none =>
        refine ⟨h1, ?_, h3⟩
        intro id' b hb
        by_cases e : id = id'
        · subst e; exact ⟨n, hn⟩
        · simp only at hb
          rw [get_set_ne _ _ e] at hb
          exact h2 id' b hb
  | addAccountBalance a amt => exact ⟨h1, h2, h3⟩
  | addAccountNode a id =>
    simp only [applyOp, Store.addAccountNode]
    cases hn : s.nodes.get id with
    | none => exact ⟨h1, h2, h3⟩
    | some n =>
      refine ⟨?_, ?_, h3⟩
      · intro id' a' ha'
        by_cases e : id = id'
        · subst e; exact ⟨n, hn⟩
        · simp only at ha'
          rw [get_set_ne _ _ e] at ha'
          exact h1 id' a' ha'
      · intro id' b hb
        simp only at hb
        obtain ⟨x, hx⟩ := get_of_get_del _ _ _ _ hb
        exact h2 id' x hx
  | nonce id n now =>
    simp only [applyOp, Store.checkAndSaveNonce]
    split
    · rename_i s' hs
      split at hs
      · cases hs
      · split at hs
        · cases hs
        · cases hs; exact ⟨h1, h2, h3⟩
    · exact ⟨h1, h2, h3⟩

theorem bInv_reachable (ops : List Op) : BInv (run Store.empty ops) := by
  suffices ∀ s, BInv s → BInv (run s ops) from this _ bInv_empty
  induction ops with
  | nil => intro s h; exact h
  | cons op ops ih => intro s h; exact ih _ (bInv_applyOp s op h)

/-- one call through the badger code changes the state exactly as the contract prescribes -/
theorem bdg_applyOp_eq (s : Store) (op : Op) (h : BInv s) : Bdg.applyOp s op = applyOp s op := by
  cases op with
  | setNode n => rfl
  | unp id r b now => simp only [Bdg.applyOp, applyOp, bdg_updateNodePeers_eq]; rfl
  | addNodeBalance id amt => simp only [Bdg.applyOp, applyOp, bdg_addNodeBalance_eq s id amt h]; rfl
  | addAccountBalance a amt => simp only [Bdg.applyOp, applyOp, bdg_addAccountBalance_eq]
  | addAccountNode a id => simp only [Bdg.applyOp, applyOp, bdg_addAccountNode_eq]; rfl
  | nonce id n now => rfl

/-- **the badger driver's logic refines the contract**: after any history of store calls from the empty database
the badger code has built exactly the contract's state ... -/
theorem badger_run_eq (ops : List Op) : Bdg.run Store.empty ops = run Store.empty ops := by
  suffices ∀ s, BInv s → Bdg.run s ops = run s ops from this _ bInv_empty
  induction ops with
  | nil => intro s _; rfl
  | cons op ops ih =>
    intro s h
    show Bdg.run (Bdg.applyOp s op) ops = run (applyOp s op) ops
    rw [bdg_applyOp_eq s op h]
    exact ih _ (bInv_applyOp s op h)

/-- ... and answers every query as the contract does -/
theorem badger_queries_eq (ops : List Op) (id a : String) (now : Int) :
    let b := Bdg.run Store.empty ops
    let s := run Store.empty ops
    Bdg.getNode b id = s.getNode id ∧ Bdg.getNodeBalance b id = s.getNodeBalance id ∧
    Bdg.getAccountBalance b a = s.getAccountBalance a ∧ Bdg.isAccountNode b a id = s.isAccountNode a id ∧
    Bdg.getAccountNodes b a = s.getAccountNodes a ∧ Bdg.nodePeers b id = s.nodePeers id ∧
    Bdg.stats b now = s.stats now := by
  simp only [badger_run_eq]
  have h := bInv_reachable ops
  exact ⟨bdg_getNode_eq _ _, bdg_getNodeBalance_eq _ _ h, bdg_getAccountBalance_eq _ _, bdg_isAccountNode_eq _ _ _,
    bdg_getAccountNodes_eq _ _, bdg_nodePeers_eq _ _ h, bdg_stats_eq _ _⟩

/-! ### memory -/

/-- the memory driver's state represents a contract state: same tables, the tracked peers of a node stored inside
its record -/
def MemR (m : Mem) (s : Store) : Prop :=
  s.nodes = m.nodes.map (fun kv => (kv.1, kv.2.1)) ∧
  (∀ id, s.trackedPeers id = match m.nodes.get id with | some mn => mn.2 | none => []) ∧
  s.accounts = m.accounts ∧ s.balances = m.balances ∧ s.trials = m.trials ∧ s.nonces = m.nonces

theorem get_mapv {α β : Type} (l : AList α) (f : α → β) (k : String) :
    AList.get (l.map (fun kv => (kv.1, f kv.2)) : AList β) k = (AList.get l k).map f := by
  induction l with
  | nil => rfl
  | cons kv t ih =>
    obtain ⟨k0, v0⟩ := kv
    simp only [List.map_cons, AList.get]
    by_cases e : k0 = k <;> simp [e, ih]

theorem set_mapv {α β : Type} (l : AList α) (f : α → β) (k : String) (v : α) :
    ((AList.set l k v).map (fun kv => (kv.1, f kv.2)) : AList β) = AList.set (l.map (fun kv => (kv.1, f kv.2)) : AList β) k (f v) := by
  induction l with
  | nil => rfl
  | cons kv t ih =>
    obtain ⟨k0, v0⟩ := kv
    simp only [AList.set, List.map_cons]
    by_cases e : k0 = k <;> simp [e, ih]

theorem set_set {α : Type} (l : AList α) (k : String) (a b : α) : (l.set k a).set k b = l.set k b := by
  induction l with
  | nil => simp [AList.set]
  | cons kv t ih =>
    obtain ⟨k0, v0⟩ := kv
    simp only [AList.set]
    by_cases e : k0 = k <;> simp [e, AList.set, ih]

theorem balOf_eq (l : AList Bal) (k : String) : Mem.balOf l k = (l.get k).getD {} := by
  unfold Mem.balOf; cases l.get k <;> rfl

theorem memR_nodes_get (m : Mem) (s : Store) (h : MemR m s) (id : String) :
    s.nodes.get id = (m.nodes.get id).map (·.1) := by
  rw [h.1]; exact get_mapv _ _ _

theorem memR_empty : MemR {} Store.empty := by
  refine ⟨rfl, ?_, rfl, rfl, rfl, rfl⟩
  intro id; rfl

theorem mem_getNode_eq (m : Mem) (s : Store) (h : MemR m s) (id : String) : Mem.getNode m id = s.getNode id := by
  unfold Mem.getNode Store.getNode
  rw [memR_nodes_get m s h]
  cases m.nodes.get id <;> rfl

theorem mem_getNodeBalance_eq (m : Mem) (s : Store) (h : MemR m s) (id : String) :
    Mem.getNodeBalance m id = s.getNodeBalance id := by
  unfold Mem.getNodeBalance Store.getNodeBalance Store.nodeBalance
  rw [memR_nodes_get m s h]
  obtain ⟨_, _, ha, hb, ht, _⟩ := h
  rw [ha, hb, ht]
  cases m.nodes.get id with
  | none => rfl
  | some mn => cases m.accounts.get id <;> simp [balOf_eq]

theorem mem_getAccountBalance_eq (m : Mem) (s : Store) (h : MemR m s) (a : String) :
    Mem.getAccountBalance m a = s.getAccountBalance a := by
  unfold Mem.getAccountBalance Store.getAccountBalance
  rw [h.2.2.2.1, balOf_eq]

theorem mem_isAccountNode_eq (m : Mem) (s : Store) (h : MemR m s) (a id : String) :
    Mem.isAccountNode m a id = s.isAccountNode a id := by
  unfold Mem.isAccountNode Store.isAccountNode
  rw [h.2.2.1]
  cases m.accounts.get id with
  | none => rfl
  | some a' => by_cases e : a' = a <;> simp [e]

theorem scan_eq_filter' (l : AList String) (a : String) :
    l.foldr (fun kv r => if a == kv.2 then kv.1 :: r else r) [] = (l.filter (fun kv => kv.2 == a)).map (·.1) := by
  induction l with
  | nil => rfl
  | cons kv t ih =>
    simp only [List.foldr_cons, List.filter_cons, ih]
    by_cases e : kv.2 = a
    · simp [e]
    · have : ¬ a = kv.2 := fun h => e h.symm
      simp [e, this]

theorem mem_getAccountNodes_eq (m : Mem) (s : Store) (h : MemR m s) (a : String) :
    Mem.getAccountNodes m a = s.getAccountNodes a := by
  unfold Mem.getAccountNodes Store.getAccountNodes
  rw [h.2.2.1]
  exact scan_eq_filter' _ _

theorem filterMap_ext {α β : Type} (l : List α) (f g : α → Option β) (h : ∀ x, f x = g x) :
    l.filterMap f = l.filterMap g := by
  have : f = g := funext h
  rw [this]

theorem mem_nodePeers_eq (m : Mem) (s : Store) (h : MemR m s) (id : String) : Mem.nodePeers m id = s.nodePeers id := by
  unfold Mem.nodePeers Store.nodePeers
  rw [memR_nodes_get m s h]
  have ht := h.2.1 id
  cases hn : m.nodes.get id with
  | none => rfl
  | some mn =>
    rw [hn] at ht
    simp only [Option.map_some, ht]
    congr 1
    apply filterMap_ext
    intro kv
    exact (memR_nodes_get m s h kv.1).symm

theorem mem_stats_eq (m : Mem) (s : Store) (h : MemR m s) (now : Int) : Mem.stats m now = s.stats now := by
  rw [← bdg_stats_eq]
  unfold Mem.stats Bdg.stats
  obtain ⟨hn, _, _, hb, ht, _⟩ := h
  rw [hn, hb, ht]
  simp [AList.vals, List.map_map, Function.comp_def]

theorem mem_recordPeers_eq (nodes : AList (Node × AList Int)) (tracked : AList Int) (ps : List String) :
    Mem.recordPeers nodes tracked ps = refreshPeers (nodes.map (fun kv => (kv.1, kv.2.1))) tracked ps := by
  induction ps generalizing tracked with
  | nil => rfl
  | cons p ps ih =>
    unfold Mem.recordPeers refreshPeers
    rw [get_mapv]
    cases nodes.get p with
    | none => exact ih tracked
    | some pn => exact ih _

theorem inactive_filter_eq (d : Int) :
    (fun (kv : String × Int) => !decide (d < kv.2)) = (fun kv => decide (kv.2 ≤ d)) := by
  funext kv; by_cases e : d < kv.2
  · have : ¬ kv.2 ≤ d := by omega
    simp [e, this]
  · have : kv.2 ≤ d := by omega
    simp [e, this]

/-- a keep-alive through the memory code: same refusal, same peers declared inactive, related states -/
theorem mem_updateNodePeers (m : Mem) (s : Store) (h : MemR m s) (id : String) (r : List String) (b : Nat) (now : Int) :
    match Mem.updateNodePeers m id r b now, s.updateNodePeers id r b now with
    | .ok (m', i), .ok (s', j) => i = j ∧ MemR m' s'
    | .error e, .error e' => e = e'
    | _, _ => False := by
  unfold Mem.updateNodePeers Store.updateNodePeers
  rw [memR_nodes_get m s h]
  cases hn : m.nodes.get id with
  | none => simp
  | some mn =>
    have htr : (s.peers.get id).getD [] = mn.2 := by
      have := h.2.1 id; rw [hn] at this; exact this
    obtain ⟨h1, h2, h3, h4, h5, h6⟩ := h
    simp only [Option.map_some, htr, mem_recordPeers_eq, set_mapv (f := fun (x : Node × AList Int) => x.1), ← h1,
      inactive_filter_eq, set_set]
    refine ⟨trivial, ?_, ?_, h3, h4, h5, h6⟩
    · rw [set_mapv (f := fun (x : Node × AList Int) => x.1), ← h1]
    · intro id'
      unfold Store.trackedPeers
      by_cases e : id = id'
      · subst e; simp only [get_set_eq, Option.getD]
      · rw [get_set_ne _ _ e, get_set_ne _ _ e]; exact h2 id'

theorem mem_setNode (m : Mem) (s : Store) (h : MemR m s) (n : Node) :
    match Mem.setNode m n, s.setNode n with
    | .ok m', .ok s' => MemR m' s'
    | .error e, .error e' => e = e'
    | _, _ => False := by
  unfold Mem.setNode Store.setNode
  by_cases he : n.id = ""
  · simp [he]
  · simp only [he, if_false]
    obtain ⟨h1, h2, h3, h4, h5, h6⟩ := h
    refine ⟨?_, ?_, h3, h4, h5, h6⟩
    · simp only; rw [set_mapv (f := fun (x : Node × AList Int) => x.1), ← h1]
    · intro id'
      have := h2 id'
      unfold Store.trackedPeers at *
      by_cases e : n.id = id'
      · subst e; simp only [get_set_eq]; rw [this]
        cases m.nodes.get n.id <;> rfl
      · simp only; rw [get_set_ne _ _ e]; exact this

theorem mem_addNodeBalance (m : Mem) (s : Store) (h : MemR m s) (id : String) (amt : Int) :
    match Mem.addNodeBalance m id amt, s.addNodeBalance id amt with
    | .ok m', .ok s' => MemR m' s'
    | .error e, .error e' => e = e'
    | _, _ => False := by
  unfold Mem.addNodeBalance Store.addNodeBalance
  rw [memR_nodes_get m s h]
  obtain ⟨h1, h2, h3, h4, h5, h6⟩ := h
  cases hn : m.nodes.get id with
  | none => simp
  | some mn =>
    simp only [Option.map_some, h3]
    cases ha : m.accounts.get id with
    | some a =>
      simp only [balOf_eq, h4]
      refine ⟨h1, h2, ?_, ?_, ?_, h6⟩ <;> first | rfl | assumption
    | none =>
      simp only [balOf_eq, h5]
      refine ⟨h1, h2, ?_, ?_, ?_, h6⟩ <;> first | rfl | assumption

theorem mem_addAccountBalance (m : Mem) (s : Store) (h : MemR m s) (a : String) (amt : Int) :
    MemR (Mem.addAccountBalance m a amt) (s.addAccountBalance a amt) := by
  unfold Mem.addAccountBalance Store.addAccountBalance
  obtain ⟨h1, h2, h3, h4, h5, h6⟩ := h
  simp only [balOf_eq, h4]
  refine ⟨h1, h2, ?_, ?_, ?_, h6⟩ <;> first | rfl | assumption

theorem mem_addAccountNode (m : Mem) (s : Store) (h : MemR m s) (a id : String) :
    match Mem.addAccountNode m a id, s.addAccountNode a id with
    | .ok m', .ok s' => MemR m' s'
    | .error e, .error e' => e = e'
    | _, _ => False := by
  unfold Mem.addAccountNode Store.addAccountNode
  rw [memR_nodes_get m s h]
  obtain ⟨h1, h2, h3, h4, h5, h6⟩ := h
  cases hn : m.nodes.get id with
  | none => simp
  | some mn =>
    simp only [Option.map_some, balOf_eq, h3, h4, h5]
    refine ⟨h1, h2, ?_, ?_, ?_, h6⟩ <;> first | rfl | assumption

theorem mem_checkAndSaveNonce (m : Mem) (s : Store) (h : MemR m s) (id : String) (n now : Int) :
    match Mem.checkAndSaveNonce m id n now, s.checkAndSaveNonce id n now with
    | .ok m', .ok s' => MemR m' s'
    | .error e, .error e' => e = e'
    | _, _ => False := by
  unfold Mem.checkAndSaveNonce Store.checkAndSaveNonce
  obtain ⟨h1, h2, h3, h4, h5, h6⟩ := h
  by_cases hs : n ≤ now - nonceWindow
  · simp [hs]
  · simp only [hs, if_false, h6]
    cases hg : m.nonces.get id with
    | none =>
      simp only [Option.getD]
      by_cases hv : n ≤ 0
      · have : (0 : Int) ≥ n := hv
        simp [hv, this]
      · have : ¬ (0 : Int) ≥ n := hv
        simp only [hv, this, if_false]
        refine ⟨h1, h2, h3, h4, h5, ?_⟩; rfl
    | some v =>
      simp only [Option.getD]
      by_cases hv : n ≤ v
      · have : v ≥ n := hv
        simp [hv, this]
      · have : ¬ v ≥ n := hv
        simp only [hv, this, if_false]
        refine ⟨h1, h2, h3, h4, h5, ?_⟩; rfl

/-- one call through the memory code keeps the two states related -/
theorem memR_applyOp (m : Mem) (s : Store) (h : MemR m s) (op : Op) : MemR (Mem.applyOp m op) (applyOp s op) := by
  cases op with
  | setNode n =>
    have := mem_setNode m s h n
    simp only [Mem.applyOp, applyOp]
    cases h1 : Mem.setNode m n <;> cases h2 : s.setNode n <;> simp [h1, h2] at this ⊢ <;> first | exact this | exact h
  | unp id r b now =>
    have := mem_updateNodePeers m s h id r b now
    simp only [Mem.applyOp, applyOp]
    cases h1 : Mem.updateNodePeers m id r b now <;> cases h2 : s.updateNodePeers id r b now <;>
      simp [h1, h2] at this ⊢ <;> first | exact this.2 | exact h
  | addNodeBalance id amt =>
    have := mem_addNodeBalance m s h id amt
    simp only [Mem.applyOp, applyOp]
    cases h1 : Mem.addNodeBalance m id amt <;> cases h2 : s.addNodeBalance id amt <;>
      simp [h1, h2] at this ⊢ <;> first | exact this | exact h
  | addAccountBalance a amt => exact mem_addAccountBalance m s h a amt
  | addAccountNode a id =>
    have := mem_addAccountNode m s h a id
    simp only [Mem.applyOp, applyOp]
    cases h1 : Mem.addAccountNode m a id <;> cases h2 : s.addAccountNode a id <;>
      simp [h1, h2] at this ⊢ <;> first | exact this | exact h
  | nonce id n now =>
    have := mem_checkAndSaveNonce m s h id n now
    simp only [Mem.applyOp, applyOp]
    cases h1 : Mem.checkAndSaveNonce m id n now <;> cases h2 : s.checkAndSaveNonce id n now <;>
      simp [h1, h2] at this ⊢ <;> first | exact this | exact h

/-- **the memory driver's logic refines the contract**: after any history its state represents the contract's -/
theorem memory_run_related (ops : List Op) : MemR (Mem.run {} ops) (run Store.empty ops) := by
  suffices ∀ m s, MemR m s → MemR (Mem.run m ops) (run s ops) from this _ _ memR_empty
  induction ops with
  | nil => intro m s h; exact h
  | cons op ops ih => intro m s h; exact ih _ _ (memR_applyOp m s h op)

/-- **swapping one driver for the other never changes an answer**: after the same history of store calls, every
query is answered identically by the memory code and by the badger code (and as the contract prescribes) -/
theorem drivers_agree (ops : List Op) (id a : String) (now : Int) :
    let m := Mem.run {} ops
    let b := Bdg.run Store.empty ops
    Mem.getNode m id = Bdg.getNode b id ∧ Mem.getNodeBalance m id = Bdg.getNodeBalance b id ∧
    Mem.getAccountBalance m a = Bdg.getAccountBalance b a ∧ Mem.isAccountNode m a id = Bdg.isAccountNode b a id ∧
    Mem.getAccountNodes m a = Bdg.getAccountNodes b a ∧ Mem.nodePeers m id = Bdg.nodePeers b id ∧
    Mem.stats m now = Bdg.stats b now := by
  have hb := badger_queries_eq ops id a now
  have hm := memory_run_related ops
  simp only at hb ⊢
  obtain ⟨b1, b2, b3, b4, b5, b6, b7⟩ := hb
  exact ⟨(mem_getNode_eq _ _ hm id).trans b1.symm, (mem_getNodeBalance_eq _ _ hm id).trans b2.symm,
    (mem_getAccountBalance_eq _ _ hm a).trans b3.symm, (mem_isAccountNode_eq _ _ hm a id).trans b4.symm,
    (mem_getAccountNodes_eq _ _ hm a).trans b5.symm, (mem_nodePeers_eq _ _ hm id).trans b6.symm,
    (mem_stats_eq _ _ hm now).trans b7.symm⟩

/-- the keep-alive's answer (the peers declared inactive) is the same through both drivers after any history -/
theorem drivers_agree_keepalive (ops : List Op) (id : String) (r : List String) (blk : Nat) (now : Int) :
    ((Mem.updateNodePeers (Mem.run {} ops) id r blk now).toOption.map (·.2)) =
    ((Bdg.updateNodePeers (Bdg.run Store.empty ops) id r blk now).toOption.map (·.2)) := by
  rw [badger_run_eq, bdg_updateNodePeers_eq]
  have := mem_updateNodePeers _ _ (memory_run_related ops) id r blk now
  cases h1 : Mem.updateNodePeers (Mem.run {} ops) id r blk now with
  | error e =>
    cases h2 : (run Store.empty ops).updateNodePeers id r blk now with
    | error e' => simp [Except.toOption]
    | ok y => simp [h1, h2] at this
  | ok x =>
    cases h2 : (run Store.empty ops).updateNodePeers id r blk now with
    | error e' => simp [h1, h2] at this
    | ok y =>
      simp only [h1, h2] at this
      simp [Except.toOption, this.1]

/-- non-vacuity: a history exercising registration, keep-alive with a stale and a live peer, trial credit, linking
and wallet credit gives the same (non-trivial) answers through all three -/
def sampleOps : List Op := [.setNode { id := "h", isHost := true, lastSeen := 5 }, .setNode { id := "c", lastSeen := 500 },
  .addNodeBalance "c" (-7), .unp "c" ["h", "zz"] 9 (W + 1), .addAccountNode "X" "c", .addAccountBalance "X" 100]

def showBal : Except StoreErr Bal → String × Int
  | .ok b => (b.account, b.credit)
  | .error _ => ("error", 0)

example : showBal (Mem.getNodeBalance (Mem.run {} sampleOps) "c") = ("X", 93) ∧
    showBal (Bdg.getNodeBalance (Bdg.run Store.empty sampleOps) "c") = ("X", 93) ∧
    showBal ((run Store.empty sampleOps).getNodeBalance "c") = ("X", 93) ∧
    ((Mem.updateNodePeers (Mem.run {} sampleOps) "c" [] 1 (2 * W + 2)).toOption.map (·.2)) = some ["h"] := by decide

/-! ### `ActiveHosts`: both drivers' selection loops meet the contract predicate -/

theorem mem_activeHosts_eq (kind : String) (now : Int) (it : List Node) (limit : Int) :
    Mem.activeHosts kind now it limit =
      (if limit ≤ 0 then it.filter (isActiveHost kind now) else (it.filter (isActiveHost kind now)).take limit.toNat) := by
  induction it generalizing limit with
  | nil => simp [Mem.activeHosts]
  | cons n t ih =>
    unfold Mem.activeHosts
    by_cases hp : isActiveHost kind now n = true
    · simp only [hp, if_true, List.filter_cons_of_pos]
      by_cases h1 : limit - 1 = 0
      · have : limit = 1 := by omega
        subst this
        simp
      · simp only [h1, if_false, ih]
        by_cases h0 : limit ≤ 0
        · have : limit - 1 ≤ 0 := by omega
          simp [h0, this]
        · have h2 : ¬ limit - 1 ≤ 0 := by omega
          simp only [h0, h2, if_false]
          have : limit.toNat = (limit - 1).toNat + 1 := by omega
          rw [this, List.take_succ_cons]
    · have hp' : isActiveHost kind now n = false := by simpa using hp
      simp only [hp', ih, List.filter_cons]
      simp

theorem dedup_of_nodup (l : List String) (h : l.Nodup) : dedupStrings l = l := by
  induction l with
  | nil => rfl
  | cons x t ih =>
    have hx : ¬ x ∈ t := (List.nodup_cons.mp h).1
    unfold dedupStrings
    simp [hx, ih (List.nodup_cons.mp h).2]

/-- any duplicate-free selection of the prescribed size from the eligible hosts satisfies the contract predicate -/
theorem valid_of_selection (s : Store) (kind : String) (limit now : Int) (sel : List Node)
    (hsub : ∀ n ∈ sel, n ∈ s.eligibleHosts kind now) (hnd : (sel.map (·.id)).Nodup)
    (hlen : sel.length = expectedHostCount limit (s.eligibleHosts kind now).length) :
    s.validHostChoice kind limit now (sel.map (·.id)) = true := by
  simp only [validHostChoice, Bool.and_eq_true, List.all_eq_true, List.contains_iff_mem, List.mem_map, beq_iff_eq,
    List.length_map, dedup_of_nodup _ hnd]
  refine ⟨⟨?_, trivial⟩, hlen⟩
  intro c hc
  obtain ⟨n, hn, rfl⟩ := hc
  exact ⟨n, hsub n hn, rfl⟩

/-- the memory driver's loop: for every order in which the map yields the records -/
theorem mem_activeHosts_valid (s : Store) (kind : String) (limit now : Int) (it : List Node)
    (hperm : it.Perm s.nodes.vals) (hids : (s.nodes.vals.map (·.id)).Nodup) :
    s.validHostChoice kind limit now ((Mem.activeHosts kind now it limit).map (·.id)) = true := by
  have hel : (it.filter (isActiveHost kind now)).Perm (s.eligibleHosts kind now) := hperm.filter _
  have hndE : ((s.eligibleHosts kind now).map (·.id)).Nodup :=
    List.Nodup.sublist (List.Sublist.map _ (List.filter_sublist)) hids
  have hndI : ((it.filter (isActiveHost kind now)).map (·.id)).Nodup := (hel.map _).nodup_iff.mpr hndE
  rw [mem_activeHosts_eq]
  apply valid_of_selection
  · intro n hn
    apply hel.mem_iff.mp
    by_cases h0 : limit ≤ 0
    · simpa [h0] using hn
    · simp only [h0, if_false] at hn; exact List.mem_of_mem_take hn
  · by_cases h0 : limit ≤ 0
    · simpa [h0] using hndI
    · simp only [h0, if_false]
      exact List.Nodup.sublist (List.Sublist.map _ (List.take_sublist _ _)) hndI
  · unfold expectedHostCount
    by_cases h0 : limit ≤ 0
    · simp [h0, hel.length_eq]
    · simp [h0, List.length_take, hel.length_eq]

/-- the badger driver's filter-then-shuffle: for every iteration order and every shuffle that permutes -/
theorem bdg_activeHosts_valid (s : Store) (kind : String) (limit now : Int) (it : List Node)
    (shuffle : List Node → List Node) (hsh : ∀ l, (shuffle l).Perm l)
    (hperm : it.Perm s.nodes.vals) (hids : (s.nodes.vals.map (·.id)).Nodup) :
    s.validHostChoice kind limit now ((Bdg.activeHosts it shuffle kind limit now).map (·.id)) = true := by
  have hel : (it.filter (isActiveHost kind now)).Perm (s.eligibleHosts kind now) := hperm.filter _
  have hndE : ((s.eligibleHosts kind now).map (·.id)).Nodup :=
    List.Nodup.sublist (List.Sublist.map _ (List.filter_sublist)) hids
  have hndI : ((it.filter (isActiveHost kind now)).map (·.id)).Nodup := (hel.map _).nodup_iff.mpr hndE
  have hsr := hsh (it.filter (isActiveHost kind now))
  have hndS : ((shuffle (it.filter (isActiveHost kind now))).map (·.id)).Nodup := (hsr.map _).nodup_iff.mpr hndI
  unfold Bdg.activeHosts
  apply valid_of_selection
  · intro n hn
    apply hel.mem_iff.mp
    by_cases hc : limit ≤ 0 ∨ ((it.filter (isActiveHost kind now)).length : Int) < limit
    · simpa [hc] using hn
    · simp only [hc, if_false] at hn
      exact hsr.mem_iff.mp (List.mem_of_mem_take hn)
  · by_cases hc : limit ≤ 0 ∨ ((it.filter (isActiveHost kind now)).length : Int) < limit
    · simpa [hc] using hndI
    · simp only [hc, if_false]
      exact List.Nodup.sublist (List.Sublist.map _ (List.take_sublist _ _)) hndS
  · unfold expectedHostCount
    have hl := hel.length_eq
    by_cases hc : limit ≤ 0 ∨ ((it.filter (isActiveHost kind now)).length : Int) < limit
    · simp only [hc, if_true]
      rcases hc with h0 | h1
      · simp [h0, hl]
      · have h0 : ¬ limit ≤ 0 := by omega
        simp only [h0, if_false, hl]
        rw [hl] at h1
        omega
    · have h0 : ¬ limit ≤ 0 := fun h => hc (Or.inl h)
      have h1 : ¬ ((it.filter (isActiveHost kind now)).length : Int) < limit := fun h => hc (Or.inr h)
      have hif : ¬ (limit ≤ 0 ∨ ((it.filter (isActiveHost kind now)).length : Int) < limit) := hc
      rw [if_neg hif, List.length_take, hsr.length_eq, hl]
      simp [h0]

/-! #### on every reachable state the node ids are distinct, so the hypotheses above hold -/

theorem keysMatch_applyOp (s : Store) (op : Op) (h : KeysMatch s) : KeysMatch (applyOp s op) := by
  cases op with
  | setNode n =>
    simp only [applyOp]
    cases hs : s.setNode n with
    | error e => exact h
    | ok s' => exact keysMatch_setNode s s' n h hs
  | unp id r b now =>
    simp only [applyOp]
    cases hs : s.updateNodePeers id r b now with
    | error e => exact h
    | ok x => obtain ⟨s', i⟩ := x; exact keysMatch_unp s s' id r b now i h hs
  | addNodeBalance id amt =>
    simp only [applyOp]
    cases hs : s.addNodeBalance id amt with
    | error e => exact h
    | ok s' =>
      apply keysMatch_of_nodes_eq s s' h
      unfold Store.addNodeBalance at hs
      split at hs
      · cases hs
      · split at hs <;> cases hs <;> rfl
  | addAccountBalance a amt => exact keysMatch_of_nodes_eq s _ h rfl
  | addAccountNode a id =>
    simp only [applyOp]
    cases hs : s.addAccountNode a id with
    | error e => exact h
    | ok s' =>
      apply keysMatch_of_nodes_eq s s' h
      unfold Store.addAccountNode at hs
      split at hs <;> cases hs
      rfl
  | nonce id n now =>
    simp only [applyOp]
    cases hs : s.checkAndSaveNonce id n now with
    | error e => exact h
    | ok s' =>
      apply keysMatch_of_nodes_eq s s' h
      unfold Store.checkAndSaveNonce at hs
      split at hs
      · cases hs
      · split at hs <;> cases hs
        rfl

theorem keysMatch_reachable (ops : List Op) : KeysMatch (run Store.empty ops) := by
  suffices ∀ s, KeysMatch s → KeysMatch (run s ops) from this _ keysMatch_empty
  induction ops with
  | nil => intro s h; exact h
  | cons op ops ih => intro s h; exact ih _ (keysMatch_applyOp s op h)

theorem get_of_mem {α : Type} (l : AList α) (h : NoDupKeys l) (k : String) (v : α) (hm : (k, v) ∈ l) :
    l.get k = some v := by
  induction l with
  | nil => cases hm
  | cons kv t ih =>
    obtain ⟨k0, v0⟩ := kv
    have hnd := List.nodup_cons.mp h
    unfold AList.get
    rcases List.mem_cons.mp hm with e | hmt
    · cases e; simp
    · by_cases e0 : k0 = k
      · exfalso
        apply hnd.1
        subst e0
        exact List.mem_map.mpr ⟨(k0, v), hmt, rfl⟩
      · simp only [e0, if_false]; exact ih hnd.2 hmt

theorem ids_eq_keys (l : AList Node) (h : ∀ kv ∈ l, kv.2.id = kv.1) : l.vals.map (·.id) = l.keys := by
  induction l with
  | nil => rfl
  | cons kv t ih =>
    simp only [AList.vals, AList.keys, List.map_cons, List.map_map] at *
    rw [h kv List.mem_cons_self]
    congr 1
    exact ih (fun kv' hm => h kv' (List.mem_cons_of_mem _ hm))

theorem reachable_ids_nodup (ops : List Op) : ((run Store.empty ops).nodes.vals.map (·.id)).Nodup := by
  have hw := (C12.wf_reachable ops).1
  have hk := keysMatch_reachable ops
  rw [ids_eq_keys]
  · exact hw
  · intro kv hm
    exact hk kv.1 kv.2 (get_of_mem _ hw kv.1 kv.2 hm)

/-- **both drivers' host selection meets the contract after any history**, for every map-iteration order and every
shuffle -/
theorem drivers_activeHosts_valid (ops : List Op) (kind : String) (limit now : Int) (it : List Node)
    (shuffle : List Node → List Node) (hsh : ∀ l, (shuffle l).Perm l)
    (hperm : it.Perm (run Store.empty ops).nodes.vals) :
    let s := run Store.empty ops
    s.validHostChoice kind limit now ((Mem.activeHosts kind now it limit).map (·.id)) = true ∧
    s.validHostChoice kind limit now ((Bdg.activeHosts it shuffle kind limit now).map (·.id)) = true :=
  ⟨mem_activeHosts_valid _ kind limit now it hperm (reachable_ids_nodup ops),
   bdg_activeHosts_valid _ kind limit now it shuffle hsh hperm (reachable_ids_nodup ops)⟩

end Vipnode.C12R
