/-
C13 — The persistent store keeps every acknowledged change across restarts and crashes.
-/
import Vipnode.Model.Persist
import Vipnode.Props.C12
namespace Vipnode.C13
open Vipnode Vipnode.AList
open Vipnode.Store (applyOp ledgerSum)

/-! ### migration -/

/-- reopening a database of the current format changes nothing -/
theorem migrate_current_identity (d : Disk) (h : d.version = latestVersion) : migrate d = .ok d := by
  simp [migrate, h]

/-- a database written by a newer version is refused and left untouched (no result image) -/
theorem migrate_newer_refused (d : Disk) (h : latestVersion < d.version) : migrate d = .error .newer := by
  unfold migrate
  have : d.version ≠ latestVersion := by omega
  simp [this, h]

/-- **older formats are migrated without touching balances or nodes**: from every supported version the result is
at the current version and nodes, peers, wallet links, balances and trial balances are unchanged (format 1→2 drops
the nonce table, nothing else) -/
theorem migrate_preserves (d : Disk) (h : d.version ≤ latestVersion) :
    ∃ d', migrate d = .ok d' ∧ d'.version = latestVersion ∧ d'.store.nodes = d.store.nodes ∧ d'.store.peers = d.store.peers ∧
      d'.store.accounts = d.store.accounts ∧ d'.store.balances = d.store.balances ∧ d'.store.trials = d.store.trials ∧
      (d.version = latestVersion → d'.store.nonces = d.store.nonces) := by
  unfold migrate latestVersion at *
  have hv : d.version = 0 ∨ d.version = 1 ∨ d.version = 2 := by omega
  rcases hv with hv | hv | hv
  · refine ⟨migrateStep (migrateStep d), by simp [hv], ?_⟩
    simp [migrateStep, hv]
  · refine ⟨migrateStep (migrateStep d), by simp [hv], ?_⟩
    simp [migrateStep, hv]
  · refine ⟨d, by simp [hv], hv, rfl, rfl, rfl, rfl, rfl, fun _ => rfl⟩

theorem migrate_idempotent (d d' : Disk) (h : migrate d = .ok d') : migrate d' = .ok d' := by
  unfold migrate at h
  split at h
  · cases h; rename_i hv; simp [migrate, hv]
  · split at h
    · cases h
    · cases h
      rename_i h1 h2
      have hv : d.version = 0 ∨ d.version = 1 := by unfold latestVersion at *; omega
      rcases hv with hv | hv <;> simp [migrate, migrateStep, hv, latestVersion]

/-! ### restarts and crashes -/

/-- **close and reopen**: a clean restart reads back exactly what was acknowledged -/
theorem reopen_identity (d : Disk) (ops : List Store.Op) (d1 : Disk)
    (h : runProcess d ops none = .ok d1) : runProcess d1 [] none = .ok d1 := by
  unfold runProcess openDisk at *
  cases hm : migrate d with
  | error e => simp [hm] at h
  | ok d0 =>
    simp only [hm] at h
    cases h
    have hv : d0.version = latestVersion := by
      unfold migrate at hm
      split at hm
      · cases hm; assumption
      · split at hm
        · cases hm
        · cases hm
          rename_i h1 h2
          have hv : d.version = 0 ∨ d.version = 1 := by unfold latestVersion at *; omega
          rcases hv with hv | hv <;> simp [migrateStep, hv, latestVersion]
    have : migrate { d0 with store := Store.run d0.store ops } = .ok { d0 with store := Store.run d0.store ops } :=
      migrate_current_identity _ hv
    show (match migrate { d0 with store := Store.run d0.store ops } with
      | Except.error e => (Except.error e : Except MigrateErr Disk)
      | Except.ok d1 => Except.ok { d1 with store := Store.run d1.store [] }) = _
    rw [this]; rfl

/-- **a crash is all-or-nothing per operation**: killed while operation `op` is in flight (after `ops` were
acknowledged), the restarted process sees the state after `ops` or after `ops ++ [op]`, never anything in between -/
theorem txn_all_or_nothing (d : Disk) (ops : List Store.Op) (op : Store.Op) (committed : Bool) (d1 : Disk)
    (h : runProcess d ops (some (op, committed)) = .ok d1) :
    runProcess d ops none = .ok d1 ∨ runProcess d (ops ++ [op]) none = .ok d1 := by
  unfold runProcess at *
  cases hm : openDisk d with
  | error e => simp [hm] at h
  | ok d0 =>
    simp only [hm] at h ⊢
    cases committed with
    | false => left; exact h
    | true =>
      right
      cases h
      simp [Store.run, List.foldl_append]

/-- acknowledged operations are never lost by a crash: the recovered state extends the acknowledged history -/
theorem acknowledged_survive (d : Disk) (ops : List Store.Op) (inflight : Option (Store.Op × Bool)) (d1 : Disk)
    (h : runProcess d ops inflight = .ok d1) :
    ∃ d0, openDisk d = .ok d0 ∧ (d1.store = Store.run d0.store ops ∨ ∃ op, d1.store = applyOp (Store.run d0.store ops) op) := by
  unfold runProcess at h
  cases hm : openDisk d with
  | error e => simp [hm] at h
  | ok d0 =>
    simp only [hm] at h
    cases h
    refine ⟨d0, rfl, ?_⟩
    cases inflight with
    | none => exact Or.inl rfl
    | some x =>
      obtain ⟨op, c⟩ := x
      cases c
      · exact Or.inl rfl
      · exact Or.inr ⟨op, rfl⟩

/-- what the kill-and-reopen stream checks: a process that runs the script `all` and is killed after completing
`k` operations, of which the parent had seen `a ≤ k` acknowledged, restarts in the state after a prefix of the
script that contains every acknowledged operation - `a ≤ k' ≤ length all` and no torn operation -/
theorem recovered_is_prefix_beyond_acked (d : Disk) (all : List Store.Op) (a k : Nat) (committed : Bool) (d1 : Disk)
    (hak : a ≤ k) (hk : k ≤ all.length)
    (h : runProcess d (all.take k) ((all[k]?).map (fun op => (op, committed))) = .ok d1) :
    ∃ d0 k', openDisk d = .ok d0 ∧ a ≤ k' ∧ k' ≤ all.length ∧ d1.store = Store.run d0.store (all.take k') := by
  unfold runProcess at h
  cases hm : openDisk d with
  | error e => simp [hm] at h
  | ok d0 =>
    simp only [hm] at h
    cases h
    cases hop : all[k]? with
    | none => exact ⟨d0, k, rfl, hak, hk, by simp⟩
    | some op =>
      have hlt : k < all.length := by
        rcases Nat.lt_or_ge k all.length with h | h
        · exact h
        · rw [List.getElem?_eq_none h] at hop; cases hop
      cases committed with
      | false => exact ⟨d0, k, rfl, hak, hk, by simp⟩
      | true =>
        refine ⟨d0, k + 1, rfl, by omega, hlt, ?_⟩
        have : all.take (k + 1) = all.take k ++ [op] := by
          rw [List.take_succ, hop]; rfl
        simp [this, Store.run, List.foldl_append]

/-! ### the multi-key operation: migrating a trial balance -/

/-- a node linked to a wallet has no trial balance left -/
def LinkedHasNoTrial (s : Store) : Prop := ∀ id, (s.accounts.get id).isSome = true → s.trials.get id = none

theorem linked_no_trial_step (s : Store) (op : Store.Op) (hw : C12.WF s) (h : LinkedHasNoTrial s) :
    LinkedHasNoTrial (applyOp s op) := by
  intro id hl
  cases op with
  | setNode n =>
    simp only [applyOp] at hl ⊢
    cases hs : s.setNode n with
    | error e => simp only [hs] at hl ⊢; exact h id hl
    | ok s' =>
      simp only [hs] at hl ⊢
      unfold Store.setNode at hs; split at hs <;> cases hs
      exact h id hl
  | unp i r b now =>
    simp only [applyOp] at hl ⊢
    cases hs : s.updateNodePeers i r b now with
    | error e => simp only [hs] at hl ⊢; exact h id hl
    | ok res =>
      obtain ⟨s', inact⟩ := res
      simp only [hs] at hl ⊢
      unfold Store.updateNodePeers at hs; split at hs <;> cases hs
      exact h id hl
  | addNodeBalance i amt =>
    simp only [applyOp] at hl ⊢
    cases hs : s.addNodeBalance i amt with
    | error e => simp only [hs] at hl ⊢; exact h id hl
    | ok s' =>
      simp only [hs] at hl ⊢
      unfold Store.addNodeBalance at hs
      split at hs
      · cases hs
      · split at hs
        · cases hs; exact h id hl
        · rename_i hnl
          cases hs
          simp only at hl ⊢
          by_cases e : i = id
          · subst e; rw [hnl] at hl; cases hl
          · rw [get_set_ne _ _ e]; exact h id hl
  | addAccountBalance a amt => exact h id hl
  | addAccountNode a i =>
    simp only [applyOp] at hl ⊢
    cases hs : s.addAccountNode a i with
    | error e => simp only [hs] at hl ⊢; exact h id hl
    | ok s' =>
      simp only [hs] at hl ⊢
      unfold Store.addAccountNode at hs
      split at hs
      · cases hs
      · cases hs
        simp only at hl ⊢
        by_cases e : i = id
        · subst e; exact get_del_self _ _ hw.2.2.2.1
        · rw [get_del_ne _ e]
          rw [get_set_ne _ _ e] at hl
          exact h id hl
  | nonce i n now =>
    simp only [applyOp] at hl ⊢
    cases hs : s.checkAndSaveNonce i n now with
    | error e => simp only [hs] at hl ⊢; exact h id hl
    | ok s' =>
      simp only [hs] at hl ⊢
      unfold Store.checkAndSaveNonce at hs
      split at hs
      · cases hs
      · split at hs <;> cases hs
        exact h id hl

/-- **a trial balance is never both migrated and kept, nor lost**: in every state a reader can observe (every
committed state), a linked node has no trial entry, and linking changed the ledger total by nothing -/
theorem trial_never_both_nor_lost (ops : List Store.Op) :
    LinkedHasNoTrial (Store.run Store.empty ops) ∧
    ∀ a id s', (Store.run Store.empty ops).addAccountNode a id = .ok s' → ledgerSum s' = ledgerSum (Store.run Store.empty ops) := by
  constructor
  · suffices ∀ s, C12.WF s → LinkedHasNoTrial s → LinkedHasNoTrial (Store.run s ops) from
      this _ C12.wf_empty (by intro id h; simp [Store.empty] at h)
    induction ops with
    | nil => intro s _ h; exact h
    | cons op ops ih =>
      intro s hw h
      exact ih _ (C12.wf_applyOp s op hw) (linked_no_trial_step s op hw h)
  · intro a id s' h; exact Store.ledger_addAccountNode _ _ a id h

/-- non-vacuity: a version-1 database with nonces, a node and a balance is migrated; the balance survives -/
example :
    let d : Disk := { version := 1, store := Store.run Store.empty [.setNode { id := "a" }, .addNodeBalance "a" 7, .nonce "a" 1000000000000 1000000000000] }
    (migrate d).toOption.map (fun d' => (d'.version, d'.store.nonces.length, (d'.store.nodeBalance "a").credit)) = some (2, 0, 7) := by decide

end Vipnode.C13
