/-
C12 (key spaces) — the badger driver keeps its six tables and its format marker in one key-value store, telling them
apart by key prefix.  `Model/Drivers.lean` and `Model/Store.lean` model them as separate tables; that is sound
because no key of one space can equal a key of another, whatever the node ids and wallet names are.  The prefixes are
regenerated from the driver's source on every run (`Facts.badgerKeySpaces`).
-/
import Vipnode.Generated.Facts
namespace Vipnode.C12K

/-- two character lists with a common extension: one is a prefix of the other -/
theorem prefix_of_common_extension (p q x y : List Char) (h : p ++ x = q ++ y) : p <+: q ∨ q <+: p := by
  induction p generalizing q with
  | nil => exact Or.inl (List.nil_prefix)
  | cons a p ih =>
    cases q with
    | nil => exact Or.inr (List.nil_prefix)
    | cons b q =>
      simp only [List.cons_append, List.cons.injEq] at h
      obtain ⟨hab, ht⟩ := h
      subst hab
      rcases ih q ht with h' | h'
      · exact Or.inl ((List.prefix_cons_inj a).mpr h')
      · exact Or.inr ((List.prefix_cons_inj a).mpr h')

def isPrefixB (p q : List Char) : Bool := p.isPrefixOf q

/-- pairwise: no key space's prefix is a prefix of another's (decided on the regenerated list) -/
def prefixFree (l : List String) : Bool :=
  l.all (fun p => l.all (fun q => p == q || !(p.toList.isPrefixOf q.toList)))

theorem badger_key_spaces_prefix_free : prefixFree Facts.badgerKeySpaces = true := by decide

/-- the documented layout is what the source contains -/
theorem badger_key_spaces_are :
    Facts.badgerKeySpaces = ["vip:account:", "vip:balance:", "vip:node:", "vip:nonce:", "vip:peers:", "vip:trial:", "vip:version"] := by
  decide

/-- **keys of different key spaces never collide**, whatever is appended to the prefixes (node ids, wallet names of
any content - colons, other prefixes, the empty string) -/
theorem key_spaces_disjoint (p q : String) (hp : p ∈ Facts.badgerKeySpaces) (hq : q ∈ Facts.badgerKeySpaces) (hne : p ≠ q)
    (x y : String) : p ++ x ≠ q ++ y := by
  intro h
  have hl : p.toList ++ x.toList = q.toList ++ y.toList := by
    have := congrArg String.toList h
    simpa [String.toList_append] using this
  have hfree := badger_key_spaces_prefix_free
  unfold prefixFree at hfree
  rw [List.all_eq_true] at hfree
  have h1 := hfree p hp
  have h2 := hfree q hq
  rw [List.all_eq_true] at h1 h2
  have h1q := h1 q hq
  have h2p := h2 p hp
  have hpq : (p == q) = false := by simpa using hne
  have hqp : (q == p) = false := by simpa using (fun e => hne e.symm)
  simp only [hpq, hqp, Bool.false_or, Bool.not_eq_true'] at h1q h2p
  rcases prefix_of_common_extension _ _ _ _ hl with hpre | hpre
  · have : p.toList.isPrefixOf q.toList = true := List.isPrefixOf_iff_prefix.mpr hpre
    rw [this] at h1q; cases h1q
  · have : q.toList.isPrefixOf p.toList = true := List.isPrefixOf_iff_prefix.mpr hpre
    rw [this] at h2p; cases h2p

end Vipnode.C12K
