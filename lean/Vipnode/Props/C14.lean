/-
C14 — Each RPC call gets its own reply, in both directions, under any interleaving.

Theorems about the event-level model of one `jsonrpc2.Remote`
(`Model/Rpc.lean`).  An execution is any list of events — calls starting,
replies and requests arriving from the peer in any order, callers taking their
reply or giving up — i.e. every schedule of every number of concurrent callers
and handlers.  The peer is *honest*: it answers only requests that were sent,
each at most once (ghost state `answered`); unsolicited or duplicated replies
are outside C14 (C15 excludes floods of unsolicited replies as well).
-/
import Vipnode.Lemmas.Rpc
namespace Vipnode.C14
open Vipnode Vipnode.Rpc

structure G where
  r : Rpc := {}
  answered : List Nat := []

inductive Ev
  | call (token method arg : String)
  | reply (id : Nat) (m : RpcReply)
  | take (id : Nat)
  | request (reqId : Nat) (known : Bool) (arg : String) (callback : Option String)
  | cancel (token : String)

/-- the peer answers only ids that were issued, each at most once -/
def Honest (g : G) : Ev → Prop
  | .reply id _ => 0 < id ∧ id ≤ g.r.nextId ∧ id ∉ g.answered
  | _ => True

def step (g : G) : Ev → G
  | .call t m a => { g with r := (g.r.callBegin t m a).1 }
  | .reply id m =>
    match g.r.deliverReply id m with
    | some r' => { r := r', answered := id :: g.answered }
    | none => g
  | .take id => { g with r := g.r.take id }
  | .request q k a cb => { g with r := g.r.deliverRequest q k a cb }
  | .cancel t => { g with r := g.r.cancel t }

def Inv (g : G) : Prop :=
  NodupIds g.r.pending ∧
  (∀ c ∈ g.r.live, ∃ s ∈ g.r.pending, s.id = c.id ∧ s.waiting = true) ∧
  (∀ s ∈ g.r.pending, 0 < s.id ∧ s.id ≤ g.r.nextId) ∧
  (∀ s ∈ g.r.pending, s.buf.isSome = true → s.id ∈ g.answered) ∧
  (g.r.live.map (·.id)).Nodup ∧
  (∀ a ∈ g.answered, a ≤ g.r.nextId)

theorem inv_init (limit discard : Nat) : Inv { r := { limit := limit, discard := discard } } := by
  simp [Inv, NodupIds]

/-! ### the two table operations preserve the invariant -/

theorem inv_callBegin (g : G) (t m a : String) (h : Inv g) : Inv { g with r := (g.r.callBegin t m a).1 } := by
  obtain ⟨ha, hb, hc, hd, hf, hg⟩ := h
  unfold callBegin
  simp only
  have hspec := pendingChan_spec { g.r with nextId := g.r.nextId + 1 } (g.r.nextId + 1) true ha
  have hfr := pendingChan_frame { g.r with nextId := g.r.nextId + 1 } (g.r.nextId + 1) true
  obtain ⟨s1, s2, s3, s4, s5, s6, s7⟩ := hspec
  refine ⟨s1, ?_, ?_, ?_, ?_, ?_⟩
  rotate_left 4
  · intro a ha'; simp only [hfr.2.1]; have := hg a ha'; omega
  · intro c hcm
    simp only [hfr.1] at hcm
    rcases List.mem_append.1 hcm with hcm | hcm
    · obtain ⟨s, hs, hid, hw⟩ := hb c hcm
      obtain ⟨s', hs', hid', hw', _⟩ := s3 s hs hw
      exact ⟨s', hs', by rw [hid', hid], hw'⟩
    · simp at hcm; subst hcm
      obtain ⟨s, hs, hid, hw, _⟩ := s2
      exact ⟨s, hs, hid, hw rfl⟩
  · intro s hs
    simp only [hfr.2.1]
    rcases s5 s hs with e | hm
    · rw [e]; omega
    · have := hc s hm; omega
  · intro s hs hbuf
    cases hbs : s.buf with
    | none => rw [hbs] at hbuf; cases hbuf
    | some m =>
      obtain ⟨s0, hs0, hid0, hb0⟩ := s7 s hs m hbs
      rw [← hid0]; exact hd s0 hs0 (by rw [hb0]; rfl)
  · simp only [hfr.1, List.map_append, List.map_cons, List.map_nil]
    rw [List.nodup_append]
    refine ⟨hf, by simp, ?_⟩
    intro x hx y hy
    simp at hy; subst hy
    rw [List.mem_map] at hx
    obtain ⟨c, hcm, rfl⟩ := hx
    obtain ⟨s, hs, hid, _⟩ := hb c hcm
    have := (hc s hs).2
    omega

theorem mem_dropPending (r : Rpc) (id : Nat) (s : Slot) : s ∈ (r.dropPending id).pending ↔ s ∈ r.pending ∧ s.id ≠ id := by
  simp [dropPending, List.mem_filter]

theorem dropPending_nodup (r : Rpc) (id : Nat) (h : NodupIds r.pending) : NodupIds (r.dropPending id).pending := by
  unfold NodupIds dropPending at *
  exact ((List.filter_sublist).map _).nodup h

/-- removing the call on `id` (it took its reply, or gave up) keeps every other call's slot -/
theorem inv_remove (g : G) (r' : Rpc) (id : Nat) (h : Inv g)
    (hp : r'.pending = (g.r.dropPending id).pending) (hl : r'.live = g.r.live.filter (·.id != id)) (hn : r'.nextId = g.r.nextId) :
    Inv { g with r := r' } := by
  obtain ⟨ha, hb, hc, hd, hf, hg⟩ := h
  refine ⟨by rw [hp]; exact dropPending_nodup _ _ ha, ?_, ?_, ?_, ?_, by intro a ha'; simp only [hn]; exact hg a ha'⟩
  · intro c hcm
    simp only [hl, List.mem_filter, bne_iff_ne, ne_eq] at hcm
    obtain ⟨s, hs, hid, hw⟩ := hb c hcm.1
    refine ⟨s, ?_, hid, hw⟩
    simp only [hp]; rw [mem_dropPending]; exact ⟨hs, by rw [hid]; exact hcm.2⟩
  · intro s hs
    simp only [hp] at hs; rw [mem_dropPending] at hs
    simp only [hn]; exact hc s hs.1
  · intro s hs hbuf
    simp only [hp] at hs; rw [mem_dropPending] at hs
    exact hd s hs.1 hbuf
  · simp only [hl]
    exact (List.filter_sublist.map _).nodup hf

theorem complete_shape (r : Rpc) (id : Nat) (m : RpcReply) :
    (r.complete id m).pending = (r.dropPending id).pending ∧ (r.complete id m).nextId = r.nextId ∧
    ((r.complete id m).live = r.live.filter (·.id != id) ∨ ((r.complete id m).live = r.live ∧ ∀ c ∈ r.live, c.id ≠ id)) := by
  unfold complete
  simp only
  split
  · rename_i hfind
    refine ⟨rfl, rfl, Or.inr ⟨rfl, ?_⟩⟩
    intro c hc e
    have := List.find?_eq_none.1 hfind c (by simpa [dropPending] using hc)
    simp [e] at this
  · split <;> exact ⟨rfl, rfl, Or.inl rfl⟩

theorem filter_noop (l : List LiveCall) (id : Nat) (h : ∀ c ∈ l, c.id ≠ id) : l.filter (·.id != id) = l := by
  rw [List.filter_eq_self]; intro c hc; simpa using h c hc

theorem inv_complete (g : G) (id : Nat) (m : RpcReply) (h : Inv g) : Inv { g with r := g.r.complete id m } := by
  obtain ⟨h1, h2, h3⟩ := complete_shape g.r id m
  rcases h3 with h3 | ⟨h3, h4⟩
  · exact inv_remove g _ id h h1 h3 h2
  · exact inv_remove g _ id h h1 (by rw [h3, filter_noop _ _ h4]) h2

theorem inv_take (g : G) (id : Nat) (h : Inv g) : Inv { g with r := g.r.take id } := by
  unfold take
  split
  · split
    · exact inv_complete g id _ h
    · exact h
  · exact h

theorem inv_cancel (g : G) (t : String) (h : Inv g) : Inv { g with r := g.r.cancel t } := by
  unfold cancel
  split
  · exact h
  · rename_i c hc
    exact inv_remove g _ c.id h rfl rfl rfl

theorem inv_request (g : G) (q : Nat) (k : Bool) (a : String) (cb : Option String) (h : Inv g) :
    Inv { g with r := g.r.deliverRequest q k a cb } := by
  unfold deliverRequest
  simp only
  split
  · exact h
  · split
    · exact h
    · rename_i x
      have := inv_callBegin { g with r := { g.r with handled := g.r.handled + 1 } } ("handler-" ++ toString q) "peerEcho" x h
      exact this

/-- an honest reply never finds its slot occupied -/
theorem reply_slot_free (g : G) (id : Nat) (m : RpcReply) (h : Inv g) (hon : Honest g (.reply id m)) :
    ∃ r', g.r.deliverReply id m = some r' ∧ Inv { r := r', answered := id :: g.answered } ∧
      (∃ s ∈ r'.pending, s.id = id ∧ s.buf = some m) ∧ r'.live = g.r.live ∧ r'.finished = g.r.finished ∧
      r'.outbox = g.r.outbox ∧ r'.handlers = g.r.handlers := by
  obtain ⟨ha, hb, hc, hd, hf, hg⟩ := h
  obtain ⟨hpos, hle, hna⟩ := hon
  obtain ⟨s1, s2, s3, s4, s5, s6, s7⟩ := pendingChan_spec g.r id false ha
  have hfr := pendingChan_frame g.r id false
  obtain ⟨s, hs, hid, _, hbuf⟩ := s2
  have hfree : s.buf = none := by
    rcases hbuf with hbuf | ⟨s0, hs0, hid0, hb0⟩
    · exact hbuf
    · cases hbs : s.buf with
      | none => rfl
      | some m' =>
        have := hd s0 hs0 (by rw [hb0, hbs]; rfl)
        rw [hid0] at this; exact absurd this hna
  have hslot : (g.r.pendingChan id false).slot? id = some s := by
    have := slot?_of_mem _ s1 s hs; rw [hid] at this; exact this
  unfold deliverReply
  simp only [hslot, hfree, Option.isSome_none, Bool.false_eq_true, if_false]
  refine ⟨_, rfl, ?_, ?_, hfr.1, hfr.2.2.2.1, hfr.2.2.2.2.1, hfr.2.2.1⟩
  · have hmapid : ((g.r.pendingChan id false).pending.map (fun x => if x.id == id then { x with buf := some m } else x)).map (·.id)
        = (g.r.pendingChan id false).pending.map (·.id) := by
      rw [List.map_map]; apply List.map_congr_left; intro x _; simp only [Function.comp]; split <;> rfl
    refine ⟨by unfold NodupIds; rw [hmapid]; exact s1, ?_, ?_, ?_, by simp only [hfr.1]; exact hf, ?_⟩
    rotate_left 3
    · intro a ha'
      simp only [hfr.2.1]
      rcases List.mem_cons.1 ha' with rfl | ha''
      · exact hle
      · exact hg a ha''
    · intro c hcm
      simp only [hfr.1] at hcm
      obtain ⟨s0, hs0, hid0, hw0⟩ := hb c hcm
      obtain ⟨s', hs', hid', hw', _⟩ := s3 s0 hs0 hw0
      refine ⟨if s'.id == id then { s' with buf := some m } else s', ?_, ?_, ?_⟩
      · simp only; rw [List.mem_map]; exact ⟨s', hs', rfl⟩
      · split <;> simp [hid', hid0]
      · split <;> simp [hw']
    · intro s' hs'
      simp only [List.mem_map] at hs'
      obtain ⟨x, hx, rfl⟩ := hs'
      have hxid : (if x.id == id then { x with buf := some m } else x).id = x.id := by split <;> rfl
      rw [hxid]; simp only [hfr.2.1]
      rcases s5 x hx with e | hm
      · rw [e]; exact ⟨hpos, hle⟩
      · exact hc x hm
    · intro s' hs' hb'
      simp only [List.mem_map] at hs'
      obtain ⟨x, hx, rfl⟩ := hs'
      by_cases e : x.id = id
      · simp [e]
      · simp only [beq_iff_eq, e, if_false] at hb' ⊢
        cases hbx : x.buf with
        | none => rw [hbx] at hb'; cases hb'
        | some m' =>
          obtain ⟨s0, hs0, hid0, hb0⟩ := s7 x hx m' hbx
          rw [← hid0]; exact List.mem_cons_of_mem _ (hd s0 hs0 (by rw [hb0]; rfl))
  · refine ⟨{ s with buf := some m }, ?_, hid, rfl⟩
    simp only; rw [List.mem_map]; exact ⟨s, hs, by simp [hid]⟩

/-- **the invariant holds after every honest execution**: every schedule, any number of concurrent callers and
handlers, replies in any order, cancellations at any point -/
theorem inv_step (g : G) (ev : Ev) (h : Inv g) (hon : Honest g ev) : Inv (step g ev) := by
  cases ev with
  | call t m a => exact inv_callBegin g t m a h
  | reply id m =>
    obtain ⟨r', hr, hinv, _⟩ := reply_slot_free g id m h hon
    simp only [step, hr]; exact hinv
  | take id => exact inv_take g id h
  | request q k a cb => exact inv_request g q k a cb h
  | cancel t => exact inv_cancel g t h

def HonestRun : G → List Ev → Prop
  | _, [] => True
  | g, ev :: evs => Honest g ev ∧ HonestRun (step g ev) evs

theorem inv_run (g : G) (evs : List Ev) (h : Inv g) (hon : HonestRun g evs) : Inv (evs.foldl step g) := by
  induction evs generalizing g with
  | nil => exact h
  | cons ev evs ih => exact ih _ (inv_step g ev h hon.1) hon.2

/-! ### the properties -/

/-- **the read loop never blocks** on an honest peer: every reply finds a free slot -/
theorem serve_never_blocks (g : G) (id : Nat) (m : RpcReply) (h : Inv g) (hon : Honest g (.reply id m)) :
    (g.r.deliverReply id m).isSome = true := by
  obtain ⟨r', hr, _⟩ := reply_slot_free g id m h hon; rw [hr]; rfl

/-- **a live call always has its slot, and somebody is marked as waiting on it** — whatever the table limit and
however many other calls, replies and evictions happen (the repaired defect F17) -/
theorem live_slot_protected (limit discard : Nat) (evs : List Ev)
    (hon : HonestRun { r := { limit := limit, discard := discard } } evs) :
    let g := evs.foldl step { r := { limit := limit, discard := discard } }
    ∀ c ∈ g.r.live, ∃ s ∈ g.r.pending, s.id = c.id ∧ s.waiting = true :=
  (inv_run _ evs (inv_init limit discard) hon).2.1

/-- **ids are never reused**: a new call's id is larger than the id of every call in progress and every slot -/
theorem ids_unique (g : G) (t m a : String) (h : Inv g) :
    (∀ c ∈ g.r.live, c.id < (g.r.callBegin t m a).2) ∧ (∀ s ∈ g.r.pending, s.id < (g.r.callBegin t m a).2) := by
  obtain ⟨_, hb, hc, _, _⟩ := h
  have hid : (g.r.callBegin t m a).2 = g.r.nextId + 1 := rfl
  rw [hid]
  constructor
  · intro c hcm; obtain ⟨s, hs, he, _⟩ := hb c hcm; have := (hc s hs).2; omega
  · intro s hs; have := (hc s hs).2; omega

theorem live_unique (l : List LiveCall) (hnd : (l.map (·.id)).Nodup) (a b : LiveCall) (ha : a ∈ l) (hb : b ∈ l)
    (h : a.id = b.id) : a = b := by
  induction l with
  | nil => simp at ha
  | cons x t ih =>
    simp only [List.map_cons, List.nodup_cons, List.mem_map, not_exists, not_and] at hnd
    rcases List.mem_cons.1 ha with rfl | ha' <;> rcases List.mem_cons.1 hb with rfl | hb'
    · rfl
    · exact absurd h.symm (hnd.1 b hb')
    · exact absurd h (hnd.1 a ha')
    · exact ih hnd.2 ha' hb'

/-- **own reply**: once the peer's reply to a live plain call arrives — at any moment after the call registered,
even before the caller starts waiting — the caller takes exactly that message, its call is over, its slot is gone,
and every other call in progress is untouched -/
theorem reply_routing (g : G) (c : LiveCall) (m : RpcReply) (h : Inv g) (hc : c ∈ g.r.live)
    (hplain : ∀ hd ∈ g.r.handlers, hd.callId ≠ c.id) (hon : Honest g (.reply c.id m)) :
    ∃ r1, g.r.deliverReply c.id m = some r1 ∧
      (r1.take c.id).finished = g.r.finished ++ [(c.token, resultOf m)] ∧
      (r1.take c.id).live = g.r.live.filter (·.id != c.id) ∧
      (∀ s ∈ (r1.take c.id).pending, s.id ≠ c.id) ∧
      (∀ d ∈ g.r.live, d.id ≠ c.id → d ∈ (r1.take c.id).live ∧ ∃ s ∈ (r1.take c.id).pending, s.id = d.id ∧ s.waiting = true) := by
  obtain ⟨r1, hr1, hinv1, ⟨s, hs, hsid, hsbuf⟩, hlive, hfin, hout, hhand⟩ := reply_slot_free g c.id m h hon
  refine ⟨r1, hr1, ?_⟩
  have hslot : r1.slot? c.id = some s := by rw [← hsid]; exact slot?_of_mem _ hinv1.1 s hs
  have hfindc : r1.live.find? (·.id == c.id) = some c := by
    rw [hlive]
    -- the first live call with id c.id is c itself: ids are distinct
    have hnd := h.2.2.2.2.1
    have hex : ∃ d, g.r.live.find? (·.id == c.id) = some d := by
      cases hf : g.r.live.find? (·.id == c.id) with
      | some d => exact ⟨d, rfl⟩
      | none => have := List.find?_eq_none.1 hf c hc; simp at this
    obtain ⟨d, hd⟩ := hex
    have hdm := List.mem_of_find?_eq_some hd
    have hdid : d.id = c.id := by simpa using List.find?_some hd
    have : d = c := live_unique g.r.live hnd d c hdm hc hdid
    rw [hd, this]
  have htake : r1.take c.id = r1.complete c.id m := by
    unfold take; simp only [hslot, hfindc, hsbuf]
  rw [htake]
  have hshape := complete_shape r1 c.id m
  have hcomp : (r1.complete c.id m).finished = r1.finished ++ [(c.token, resultOf m)] ∧
      (r1.complete c.id m).live = r1.live.filter (·.id != c.id) := by
    unfold complete
    simp only
    have hfd : (r1.dropPending c.id).live.find? (·.id == c.id) = some c := by simpa [dropPending] using hfindc
    simp only [hfd]
    have hnoh : (r1.dropPending c.id).handlers.find? (·.callId == c.id) = none := by
      rw [List.find?_eq_none]
      intro hd hdm
      have : hd ∈ g.r.handlers := by simpa [dropPending, hhand] using hdm
      simpa using hplain hd this
    have hnoh' : ({ (r1.dropPending c.id) with live := (r1.dropPending c.id).live.filter (·.id != c.id) } : Rpc).handlers.find? (·.callId == c.id) = none := hnoh
    simp only [hnoh']
    exact ⟨rfl, rfl⟩
  refine ⟨by rw [hcomp.1, hfin], by rw [hcomp.2, hlive], ?_, ?_⟩
  · intro s' hs'
    rw [hshape.1, mem_dropPending] at hs'; exact hs'.2
  · intro d hd hne
    have hinv2 := inv_complete { r := r1, answered := c.id :: g.answered } c.id m hinv1
    have hdl : d ∈ (r1.complete c.id m).live := by
      rw [hcomp.2, hlive, List.mem_filter]; exact ⟨hd, by simpa using hne⟩
    exact ⟨hdl, hinv2.2.1 d hdl⟩

/-- **giving up**: a call whose context ends returns the context's error and forgets its slot -/
theorem cancel_returns_ctx_error (g : G) (c : LiveCall) (h : Inv g) (hc : c ∈ g.r.live)
    (hfirst : g.r.live.find? (·.token == c.token) = some c) :
    (g.r.cancel c.token).finished = g.r.finished ++ [(c.token, .ctxError)] ∧
    (∀ s ∈ (g.r.cancel c.token).pending, s.id ≠ c.id) ∧ c ∉ (g.r.cancel c.token).live := by
  unfold cancel
  simp only [hfirst]
  refine ⟨rfl, ?_, ?_⟩
  · intro s hs; rw [mem_dropPending] at hs; exact hs.2
  · simp [List.mem_filter]

/-- **a late reply is never delivered to a different call**: after the caller gave up, the reply to its request
lands in a slot nobody waits on; no call in progress has that id, so nobody ever takes it -/
theorem late_reply_never_misdelivered (g : G) (id : Nat) (m : RpcReply) (h : Inv g)
    (hgone : ∀ c ∈ g.r.live, c.id ≠ id) (hon : Honest g (.reply id m)) :
    ∃ r1, g.r.deliverReply id m = some r1 ∧ r1.take id = r1 ∧ r1.live = g.r.live ∧ r1.finished = g.r.finished := by
  obtain ⟨r1, hr1, _, _, hlive, hfin, _, _⟩ := reply_slot_free g id m h hon
  refine ⟨r1, hr1, ?_, hlive, hfin⟩
  unfold take
  have : r1.live.find? (·.id == id) = none := by
    rw [hlive, List.find?_eq_none]; intro c hc; simpa using hgone c hc
  rw [this]
  cases r1.slot? id <;> rfl

/-- **every incoming request is handled exactly once**: each request event starts one handler -/
theorem handled_exactly_once (g : G) (evs : List Ev) :
    (evs.foldl step g).r.handled = g.r.handled + (evs.filter (fun e => match e with | .request .. => true | _ => false)).length := by
  induction evs generalizing g with
  | nil => simp
  | cons ev evs ih =>
    simp only [List.foldl_cons]
    rw [ih]
    cases ev with
    | call t m a => simp [step, callBegin, (pendingChan_frame _ _ _).2.2.2.2.2]
    | reply id m =>
      simp only [step]
      cases hd : g.r.deliverReply id m with
      | none => simp
      | some r' =>
        have : r'.handled = g.r.handled := by
          unfold deliverReply at hd
          simp only at hd
          split at hd
          · cases hd; exact (pendingChan_frame _ _ _).2.2.2.2.2
          · split at hd
            · cases hd
            · cases hd; exact (pendingChan_frame _ _ _).2.2.2.2.2
        simp [this]
    | take id =>
      have : (g.r.take id).handled = g.r.handled := by
        unfold take; split
        · split
          · unfold complete; simp only; split
            · rfl
            · split <;> rfl
          · rfl
        · rfl
      simp [step, this]
    | request q k a cb =>
      have : (g.r.deliverRequest q k a cb).handled = g.r.handled + 1 := by
        unfold deliverRequest; simp only
        split
        · rfl
        · split
          · rfl
          · simp [callBegin, (pendingChan_frame _ _ _).2.2.2.2.2]
      simp [step, this]; omega
    | cancel t =>
      have : (g.r.cancel t).handled = g.r.handled := by unfold cancel; split <;> rfl
      simp [step, this]

/-- **call-backs do not deadlock**: a request handler that calls back over the same connection waits only on its
own slot; when the peer answers that call the handler answers the original request — other calls, other handlers
and the read loop are not involved -/
theorem callback_completes (g : G) (q : Nat) (arg x : String) (m : String) (h : Inv g)
    (hnoh : ∀ hd ∈ g.r.handlers, hd.callId ≠ g.r.nextId + 1) :
    ∃ r2, (g.r.deliverRequest q true arg (some x)).deliverReply (g.r.nextId + 1) (.result m) = some r2 ∧
      (r2.take (g.r.nextId + 1)).outbox = g.r.outbox ++ [.request (g.r.nextId + 1) "peerEcho" x, .response q m] ∧
      (r2.take (g.r.nextId + 1)).handlers = g.r.handlers ∧
      (r2.take (g.r.nextId + 1)).live = g.r.live := by
  have hinv1 : Inv { g with r := g.r.deliverRequest q true arg (some x) } := inv_request g q true arg (some x) h
  generalize hr1 : g.r.deliverRequest q true arg (some x) = r1 at hinv1
  have hfr := pendingChan_frame { g.r with handled := g.r.handled + 1, nextId := g.r.nextId + 1 } (g.r.nextId + 1) true
  have hlive1 : r1.live = g.r.live ++ [{ token := "handler-" ++ toString q, id := g.r.nextId + 1 }] := by
    rw [← hr1]; simp [deliverRequest, callBegin, hfr.1]
  have hout1 : r1.outbox = g.r.outbox ++ [.request (g.r.nextId + 1) "peerEcho" x] := by
    rw [← hr1]; simp [deliverRequest, callBegin, hfr.2.2.2.2.1]
  have hh1 : r1.handlers = g.r.handlers ++ [{ reqId := q, callId := g.r.nextId + 1 }] := by
    rw [← hr1]; simp [deliverRequest, callBegin, hfr.2.2.1]
  have hnext1 : r1.nextId = g.r.nextId + 1 := by
    rw [← hr1]; simp [deliverRequest, callBegin, hfr.2.1]
  have hon : Honest { g with r := r1 } (.reply (g.r.nextId + 1) (.result m)) := by
    refine ⟨by omega, by simp only [hnext1]; omega, ?_⟩
    intro hmem; have := h.2.2.2.2.2 _ hmem; omega
  obtain ⟨r2, hr2, hinv2, ⟨s, hs, hsid, hsbuf⟩, hlive2, hfin2, hout2, hhand2⟩ :=
    reply_slot_free { g with r := r1 } (g.r.nextId + 1) (.result m) hinv1 hon
  refine ⟨r2, hr2, ?_⟩
  have hslot : r2.slot? (g.r.nextId + 1) = some s := by
    have := slot?_of_mem _ hinv2.1 s hs; rw [hsid] at this; exact this
  have holdlive : ∀ c ∈ g.r.live, c.id ≠ g.r.nextId + 1 := by
    intro c hc e
    obtain ⟨s', hs', hid', _⟩ := h.2.1 c hc
    have := (h.2.2.1 s' hs').2; omega
  have hfindl : r2.live.find? (·.id == g.r.nextId + 1) = some { token := "handler-" ++ toString q, id := g.r.nextId + 1 } := by
    simp only at hlive2
    rw [hlive2, hlive1, List.find?_append]
    have : g.r.live.find? (·.id == g.r.nextId + 1) = none := by
      rw [List.find?_eq_none]; intro c hc; simpa using holdlive c hc
    simp [this]
  have hfindh : r2.handlers.find? (·.callId == g.r.nextId + 1) = some { reqId := q, callId := g.r.nextId + 1 } := by
    simp only at hhand2
    rw [hhand2, hh1, List.find?_append]
    have : g.r.handlers.find? (·.callId == g.r.nextId + 1) = none := by
      rw [List.find?_eq_none]; intro hd hdm; simpa using hnoh hd hdm
    simp [this]
  have htake : r2.take (g.r.nextId + 1) = r2.complete (g.r.nextId + 1) (.result m) := by
    unfold take; simp only [hslot, hfindl, hsbuf]
  rw [htake]
  unfold complete
  simp only
  have hfd : (r2.dropPending (g.r.nextId + 1)).live.find? (·.id == g.r.nextId + 1) = some { token := "handler-" ++ toString q, id := g.r.nextId + 1 } := by
    simpa [dropPending] using hfindl
  simp only [hfd]
  have hfh : ({ (r2.dropPending (g.r.nextId + 1)) with live := (r2.dropPending (g.r.nextId + 1)).live.filter (·.id != g.r.nextId + 1) } : Rpc).handlers.find?
      (·.callId == g.r.nextId + 1) = some { reqId := q, callId := g.r.nextId + 1 } := by
    simpa [dropPending] using hfindh
  simp only [hfh]
  simp only at hout2 hhand2 hlive2
  refine ⟨?_, ?_, ?_⟩
  · simp [dropPending, hout2, hout1]
  · simp only [dropPending, hhand2, hh1, List.filter_append]
    have : g.r.handlers.filter (fun hd => hd.callId != g.r.nextId + 1) = g.r.handlers := by
      rw [List.filter_eq_self]; intro hd hdm; simpa using hnoh hd hdm
    simp [this]
  · simp only [dropPending, hlive2, hlive1, List.filter_append]
    have : g.r.live.filter (fun c => c.id != g.r.nextId + 1) = g.r.live := by
      rw [List.filter_eq_self]; intro c hc; simpa using holdlive c hc
    simp [this]

end Vipnode.C14
