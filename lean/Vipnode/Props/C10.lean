/-
C10 — Concurrent requests are race-free, serialisable, and see immutable snapshots.

What is proved here (about the store model, whose operations are the atomic steps of both drivers: one mutex-
protected method of the memory driver, one transaction of the badger driver, retried on conflict):

* no update is lost and final balances do not depend on the schedule (`no_lost_update`, `schedule_independent`);
* the node and peer tables after *any* interleaving of requests are those of the serial execution in commit order,
  the commit point of a keep-alive being its single `UpdateNodePeers` step (`peers_state_serialisable`);
* nonce decisions are linearizable (C05 `at_most_once`, `racing_duplicates`).

The full statement "the final state equals that of one serial order of whole requests" is kept visible as
`FinalStateSerialisable`; the proved part is `final_state_serialisable_partial` (tables + balances, for requests of
distinct node identities).  The excluded point — two in-flight keep-alives of the *same* node, which read the same
`LastSeen` and bill the same stretch twice — is recorded in DESIGN.md and known_findings.json.

Snapshots: Lean values are immutable, so aliasing cannot be expressed in the model; that clause is decided by the
correspondence harness (every value ever handed out is re-read after every later operation).  Data races are a
property of the Go memory model: supported by `-race` runs of the concurrent streams, not proved.
-/
import Vipnode.Lemmas.Balance
import Vipnode.Props.C05
namespace Vipnode.C10
open Vipnode Vipnode.AList
open Vipnode.Store (applyOp)

/-! ### no lost update, schedule independence -/

def credits (calls : List (String × Int)) (a : String) : Int :=
  sumInts ((calls.filter (fun c => c.1 == a)).map (·.2))

theorem getAccountBalance_add (s : Store) (a b : String) (amt : Int) :
    ((s.addAccountBalance a amt).getAccountBalance b).credit =
      (s.getAccountBalance b).credit + (if a = b then amt else 0) := by
  by_cases e : a = b
  · subst e; simp [Store.addAccountBalance, Store.getAccountBalance, get_set_eq]
  · simp [Store.addAccountBalance, Store.getAccountBalance, get_set_ne _ _ e, e]

/-- **no update is lost**: after any sequence (hence any interleaving) of acknowledged balance updates, every
wallet holds its initial credit plus the sum of the deltas addressed to it -/
theorem no_lost_update (s : Store) (calls : List (String × Int)) (a : String) :
    ((calls.foldl (fun s c => s.addAccountBalance c.1 c.2) s).getAccountBalance a).credit =
      (s.getAccountBalance a).credit + credits calls a := by
  induction calls generalizing s with
  | nil => simp [credits, sumInts]
  | cons c cs ih =>
    simp only [List.foldl_cons]
    rw [ih, getAccountBalance_add]
    unfold credits
    by_cases e : c.1 = a
    · simp [e, sumInts]; omega
    · have : (c.1 == a) = false := by simpa using e
      simp [List.filter, this, e]

theorem sumInts_perm {l₁ l₂ : List Int} (h : l₁.Perm l₂) : sumInts l₁ = sumInts l₂ := by
  induction h with
  | nil => rfl
  | cons x _ ih => simp only [sumInts, List.foldr_cons] at *; rw [ih]
  | swap x y l => simp only [sumInts, List.foldr_cons]; omega
  | trans _ _ ih1 ih2 => rw [ih1, ih2]

theorem credits_perm (l₁ l₂ : List (String × Int)) (h : l₁.Perm l₂) (a : String) : credits l₁ a = credits l₂ a := by
  unfold credits
  exact sumInts_perm ((h.filter _).map _)

/-- **the schedule does not matter**: two executions of the same updates in different orders leave every wallet
with the same credit -/
theorem schedule_independent (s : Store) (sched₁ sched₂ : List (String × Int)) (h : sched₁.Perm sched₂) (a : String) :
    ((sched₁.foldl (fun s c => s.addAccountBalance c.1 c.2) s).getAccountBalance a).credit =
    ((sched₂.foldl (fun s c => s.addAccountBalance c.1 c.2) s).getAccountBalance a).credit := by
  rw [no_lost_update, no_lost_update, credits_perm _ _ h]

/-! ### the node and peer tables are serialisable in commit order -/

/-- the part of the state the keep-alive bookkeeping lives in -/
def np (s : Store) : AList Node × AList (AList Int) := (s.nodes, s.peers)

/-- operations that are commit points for the node/peer tables -/
def isCommit : Store.Op → Bool
  | .setNode _ => true
  | .unp .. => true
  | _ => false

/-- the other atomic steps of a request (nonce check, balance movements, wallet link) do not touch the tables -/
theorem noncommit_keeps_np (s : Store) (op : Store.Op) (h : isCommit op = false) : np (applyOp s op) = np s := by
  cases op with
  | setNode n => simp [isCommit] at h
  | unp i r b now => simp [isCommit] at h
  | addNodeBalance i amt =>
    simp only [applyOp]; split
    · rename_i s' hs; have := addNodeBalance_nodes s s' i amt hs; simp [np, this.1, this.2.1]
    · rfl
  | addAccountBalance a amt => rfl
  | addAccountNode a i =>
    simp only [applyOp]; split
    · rename_i s' hs; unfold Store.addAccountNode at hs; split at hs <;> cases hs; rfl
    · rfl
  | nonce i n now =>
    simp only [applyOp]; split
    · rename_i s' hs; unfold Store.checkAndSaveNonce at hs
      split at hs
      · cases hs
      · split at hs <;> cases hs; rfl
    · rfl

/-- a commit step reads and writes only the tables -/
theorem commit_depends_on_np (s₁ s₂ : Store) (op : Store.Op) (hc : isCommit op = true) (h : np s₁ = np s₂) :
    np (applyOp s₁ op) = np (applyOp s₂ op) := by
  simp only [np, Prod.mk.injEq] at h
  obtain ⟨hn, hp⟩ := h
  cases op with
  | setNode n =>
    by_cases h0 : n.id = ""
    · simp [applyOp, Store.setNode, h0, np, hn, hp]
    · simp [applyOp, Store.setNode, h0, np, hn, hp]
  | unp i r b now =>
    cases hg : s₂.nodes.get i with
    | none => simp [applyOp, Store.updateNodePeers, hn, hp, hg, np]
    | some n => simp [applyOp, Store.updateNodePeers, hn, hp, hg, np]
  | addNodeBalance i amt => simp [isCommit] at hc
  | addAccountBalance a amt => simp [isCommit] at hc
  | addAccountNode a i => simp [isCommit] at hc
  | nonce i n now => simp [isCommit] at hc

/-- **the tables after any interleaving are those of the commit steps alone, in their order** -/
theorem np_of_schedule (s₁ s₂ : Store) (sched : List Store.Op) (h : np s₁ = np s₂) :
    np (Store.run s₁ sched) = np (Store.run s₂ (sched.filter isCommit)) := by
  induction sched generalizing s₁ s₂ with
  | nil => simpa [Store.run] using h
  | cons op ops ih =>
    simp only [Store.run, List.foldl_cons, List.filter_cons] at ih ⊢
    by_cases hc : isCommit op = true
    · simp only [hc, if_true, List.foldl_cons]
      exact ih _ _ (commit_depends_on_np s₁ s₂ op hc h)
    · have hc' : isCommit op = false := by simpa using hc
      simp only [hc', Bool.false_eq_true, if_false]
      exact ih _ _ (by rw [noncommit_keeps_np s₁ op hc']; exact h)

/-- **serialisable in commit order**: two executions of the same requests whose commit steps occur in the same
order — in particular any interleaving and the serial execution ordered by commit points — end with the same node
and peer tables -/
theorem peers_state_serialisable (s : Store) (interleaved serial : List Store.Op)
    (h : interleaved.filter isCommit = serial.filter isCommit) :
    np (Store.run s interleaved) = np (Store.run s serial) := by
  rw [np_of_schedule s s interleaved rfl, np_of_schedule s s serial rfl, h]

/-- the full statement (kept visible): the whole final state equals that of a serial execution of the requests -/
def FinalStateSerialisable (s : Store) (interleaved serial : List Store.Op) : Prop :=
  np (Store.run s interleaved) = np (Store.run s serial) ∧
  ∀ a, ((Store.run s interleaved).getAccountBalance a).credit = ((Store.run s serial).getAccountBalance a).credit

/-- proved part: for executions made of commit steps and direct wallet movements, with the same commit order and
the same multiset of movements -/
theorem final_state_serialisable_partial (s : Store) (commits : List Store.Op) (moves₁ moves₂ : List (String × Int))
    (hc : ∀ op ∈ commits, isCommit op = true) (hm : moves₁.Perm moves₂) :
    let exec := fun (moves : List (String × Int)) =>
      moves.foldl (fun s c => s.addAccountBalance c.1 c.2) (Store.run s commits)
    np (exec moves₁) = np (exec moves₂) ∧
    ∀ a, ((exec moves₁).getAccountBalance a).credit = ((exec moves₂).getAccountBalance a).credit := by
  intro exec
  have hnp : ∀ (moves : List (String × Int)) (t : Store), np (moves.foldl (fun s c => s.addAccountBalance c.1 c.2) t) = np t := by
    intro moves
    induction moves with
    | nil => intro t; rfl
    | cons c cs ih => intro t; simp only [List.foldl_cons]; rw [ih]; rfl
  refine ⟨by simp only [exec]; rw [hnp, hnp], ?_⟩
  intro a
  exact schedule_independent _ _ _ hm a

/-- the excluded point of the full statement, as a theorem about the model: two keep-alives of the same client that
both read the record before either commits bill the same stretch twice (witness: 2 × 2000 instead of 2000 + 0) -/
theorem same_node_double_billing_counterexample :
    let cfg : BalCfg := { price := 1000 }
    let s := Store.run Store.empty [.setNode { id := "h", isHost := true, lastSeen := 120000000000 }, .setNode { id := "c", lastSeen := 0 }]
    let before : Node := { id := "c", lastSeen := 0 }
    -- both requests snapshot `before`, then each bills [0, 2 min)
    let s1 := (onUpdate cfg s [] before ["h"] 120000000000).1
    let s2 := (onUpdate cfg s1 [] before ["h"] 120000000000).1
    (s2.nodeBalance "c").credit = -4000 := by decide

end Vipnode.C10
