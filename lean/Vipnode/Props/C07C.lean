/-
C07 — the deposit cache never turns a failed lookup into money.

`Withdraw` pays deposit + credit; the deposit comes through `balanceCache.Get`.  These theorems are about the model
of that cache (`Model/Cache.lean`, compared with the real `balanceCache` by the `cache` stream under an injected
clock): what `Get` answers is either an entry that is still valid at that moment or what the contract answers at
that moment — never an expired entry, and nothing at all when the entry is expired and the lookup fails (seeded
change C07-r5 served the expired entry in that case: an emptied wallet was paid its old deposit again).
-/
import Vipnode.Model.Cache
namespace Vipnode.C07C
open Vipnode Vipnode.DCache

/-- **what `Get` answers**: a live entry's value, or the getter's answer -/
theorem get_answer (c : DCache) (acct : String) (now : Int) (getter : Option Int) :
    (c.get acct now getter).2 =
      match c.items.get acct with
      | some it => if live it now then some it.value else getter
      | none => getter := by
  unfold DCache.get
  cases h : c.items.get acct with
  | none => cases getter <;> rfl
  | some it =>
    simp only
    cases hl : live it now with
    | true => simp
    | false => cases getter <;> simp

/-- **an expired entry is never served**: if the entry is expired (or absent) and the lookup fails, `Get` fails -/
theorem expired_and_failing_lookup_fails (c : DCache) (acct : String) (now : Int)
    (h : ∀ it, c.items.get acct = some it → live it now = false) : (c.get acct now none).2 = none := by
  rw [get_answer]
  cases hg : c.items.get acct with
  | none => rfl
  | some it => simp [h it hg]

/-- `Get` fails exactly when there is no live entry and the lookup fails -/
theorem get_fails_iff (c : DCache) (acct : String) (now : Int) (getter : Option Int) :
    (c.get acct now getter).2 = none ↔ getter = none ∧ ∀ it, c.items.get acct = some it → live it now = false := by
  rw [get_answer]
  cases hg : c.items.get acct with
  | none => simp
  | some it =>
    cases hl : live it now with
    | true => simp [hl]
    | false => simp [hl]

theorem get_set_same (l : AList CItem) (k : String) (v : CItem) : (l.set k v).get k = some v := by
  induction l with
  | nil => simp [AList.set, AList.get]
  | cons h t ih =>
    unfold AList.set
    split
    · simp [AList.get]
    · rename_i hne; simp [AList.get, hne, ih]

/-- a value set at `now` (a balance event, or a lookup) is served until it expires, and no longer -/
theorem set_then_get (c : DCache) (acct : String) (v now later : Int) (getter : Option Int) :
    ((c.set acct v now).get acct later getter).2 =
      if c.expireAfter = 0 ∨ later < now + c.expireAfter then some v else getter := by
  rw [get_answer]
  have : (c.set acct v now).items.get acct =
      some { value := v, expire := if c.expireAfter = 0 then none else some (now + c.expireAfter) } := by
    unfold DCache.set; exact get_set_same _ _ _
  rw [this]
  by_cases h0 : c.expireAfter = 0
  · simp [h0, live]
  · simp only [h0, if_false, live, false_or]
    by_cases hl : later < now + c.expireAfter
    · simp [hl]
    · simp [hl]

/-- after `Reset` everything is looked up again -/
theorem reset_forgets (c : DCache) (d : Int) (acct : String) (now : Int) (getter : Option Int) :
    ((c.reset d).get acct now getter).2 = getter := by
  rw [get_answer]; rfl

/-- the scenario of the seeded change: deposit 9000 cached, the wallet is emptied on chain, the entry expires, the
lookup fails: nothing is served -/
example :
    let c0 : DCache := { expireAfter := 10 }
    let c1 := (c0.get "w" 0 (some 9000)).1
    (c1.get "w" 5 none).2 = some 9000 ∧ (c1.get "w" 10 none).2 = none ∧ (c1.get "w" 10 (some 0)).2 = some 0 := by decide

end Vipnode.C07C
