/-
C19 — A host is advertised only under its own identity and a dialable address.

Theorems about `normalizeNodeURI` on structured overrides (`Model/NodeURI.lean`)
and about `net.JoinHostPort` / `net.SplitHostPort` on character lists.
-/
import Vipnode.Model.NodeURI
import Vipnode.Lemmas.Store
namespace Vipnode.C19
open Vipnode

theorem normalize_ok (o : Option Override) (id src defPort : String) (a : Advertised)
    (h : normalizeNodeURI o id src defPort = .ok a) :
    usernameMismatch o id = false ∧ hostMissing (chosenHost o src) = false ∧
    a = { id := id, host := chosenHost o src, port := chosenPort o defPort } := by
  unfold normalizeNodeURI at h
  by_cases h1 : usernameMismatch o id = true
  · simp [h1] at h
  · by_cases h2 : hostMissing (chosenHost o src) = true
    · simp [h1, h2] at h
    · simp only [h1, h2, Bool.false_eq_true, if_false] at h
      cases h
      exact ⟨by simpa using h1, by simpa using h2, rfl⟩

/-- **own identity**: whatever the override says, an accepted registration is advertised under the authenticated id -/
theorem advertised_id (o : Option Override) (id src defPort : String) (a : Advertised)
    (h : normalizeNodeURI o id src defPort = .ok a) : a.id = id := by
  rw [(normalize_ok o id src defPort a h).2.2]

/-- **another identity is refused**: an override naming a different (non-empty) user is an error, nothing is stored -/
theorem foreign_id_refused (ov : Override) (id src defPort : String) (h1 : ov.username ≠ "") (h2 : ov.username ≠ id) :
    normalizeNodeURI (some ov) id src defPort = .error .idMismatch := by
  simp [normalizeNodeURI, usernameMismatch, h1, h2]

/-- **address**: the advertised host is the one the host supplied (unless empty or unspecified), else the address
it connected from; the port is the supplied one, else the default -/
theorem advertised_address (o : Option Override) (id src defPort : String) (a : Advertised)
    (h : normalizeNodeURI o id src defPort = .ok a) :
    a.host = chosenHost o src ∧ a.port = chosenPort o defPort ∧ a.host ≠ "" ∧ a.host ≠ "::" := by
  obtain ⟨_, h2, h3⟩ := normalize_ok o id src defPort a h
  subst h3
  simp only [hostMissing, decide_eq_false_iff_not, not_or] at h2
  exact ⟨rfl, rfl, h2.1, h2.2.1⟩

/-- **undetermined address is refused** rather than stored -/
theorem undetermined_refused (o : Option Override) (id src defPort : String)
    (h : chosenHost o src = "" ∨ chosenHost o src = "::") :
    ∃ e, normalizeNodeURI o id src defPort = .error e := by
  unfold normalizeNodeURI
  by_cases h1 : usernameMismatch o id = true
  · simp [h1]
  · have : hostMissing (chosenHost o src) = true := by
      simp only [hostMissing, decide_eq_true_eq]; rcases h with h | h
      · exact Or.inl h
      · exact Or.inr (Or.inl h)
    simp [h1, this]

theorem default_port (o : Option Override) (h : ∀ ov, o = some ov → ov.port = "") : chosenPort o "30303" = "30303" := by
  unfold chosenPort
  cases o with
  | none => rfl
  | some ov => simp [h ov rfl]

/-! ### host:port round trip, IPv4, IPv6 and DNS names alike -/

theorem splitLastColon_none (p : List Char) (h : ':' ∉ p) : splitLastColon p = none := by
  induction p with
  | nil => rfl
  | cons c t ih =>
    have hc : c ≠ ':' := fun e => h (e ▸ List.mem_cons_self)
    have ht : ':' ∉ t := fun hm => h (List.mem_cons_of_mem _ hm)
    simp [splitLastColon, ih ht, hc]

theorem splitLastColon_append (h p : List Char) (hp : ':' ∉ p) : splitLastColon (h ++ ':' :: p) = some (h, p) := by
  induction h with
  | nil => simp [splitLastColon, splitLastColon_none p hp]
  | cons c t ih => simp [splitLastColon, ih]

theorem bracket_split (h rest : List Char) (hh : ']' ∉ h) :
    fromBracket (h ++ ']' :: rest) = ']' :: rest ∧ beforeBracket (h ++ ']' :: rest) = h := by
  induction h with
  | nil => simp [fromBracket, beforeBracket]
  | cons c t ih =>
    have hc : c ≠ ']' := fun e => hh (e ▸ List.mem_cons_self)
    have ht : ']' ∉ t := fun hm => hh (List.mem_cons_of_mem _ hm)
    simp [fromBracket, beforeBracket, hc, ih ht]

/-- **join/split round trip**: for any host without brackets (IPv4, IPv6 literal, DNS name) and any port without
a colon, `SplitHostPort(JoinHostPort(host, port)) = (host, port)` -/
theorem join_split (h p : List Char) (h1 : '[' ∉ h) (h2 : ']' ∉ h) (hp : ':' ∉ p) :
    splitHostPortL (joinHostPortL h p) = some (h, p) := by
  unfold joinHostPortL
  by_cases hc : ':' ∈ h
  · simp only [hc, if_true]
    have := bracket_split h (':' :: p) h2
    show (match fromBracket (h ++ ']' :: ':' :: p) with
      | ']' :: ':' :: port => if ':' ∈ port then none else some (beforeBracket (h ++ ']' :: ':' :: p), port)
      | _ => none) = some (h, p)
    rw [this.1, this.2]
    simp [hp]
  · simp only [hc, if_false]
    cases h with
    | nil =>
      show (match splitLastColon (':' :: p) with
        | some (h, p) => if ':' ∈ h then none else some (h, p)
        | none => none) = some ([], p)
      simp [splitLastColon, splitLastColon_none p hp]
    | cons c t =>
      have hcb : c ≠ '[' := fun e => h1 (e ▸ List.mem_cons_self)
      have hsl := splitLastColon_append (c :: t) p hp
      unfold splitHostPortL
      split
      · rename_i rest heq
        simp only [List.cons_append, List.cons.injEq] at heq
        exact absurd heq.1 hcb
      · simp only [hsl, hc, if_false]

/-- the pre-repair join (`host + ":" + port`): an IPv6 host does not parse back (DESIGN.md §9 F13) -/
def joinOld (h p : List Char) : List Char := h ++ ':' :: p

theorem old_join_counterexample :
    splitHostPortL (joinOld "::1".toList "30303".toList) = none ∧
    splitHostPortL (joinHostPortL "::1".toList "30303".toList) = some ("::1".toList, "30303".toList) := by decide

/-- **the advertised address parses back** to the chosen host and port -/
theorem host_port_roundtrip (o : Option Override) (id src defPort : String) (a : Advertised)
    (h : normalizeNodeURI o id src defPort = .ok a)
    (hb1 : '[' ∉ a.host.toList) (hb2 : ']' ∉ a.host.toList) (hp : ':' ∉ a.port.toList) :
    splitHostPortL (joinHostPortL a.host.toList a.port.toList) = some ((chosenHost o src).toList, (chosenPort o defPort).toList) := by
  have := advertised_address o id src defPort a h
  rw [← this.1, ← this.2.1]
  exact join_split _ _ hb1 hb2 hp

/-- non-vacuity: override with another port and an IPv6 literal; no override, source address used; a foreign id -/
example :
    (normalizeNodeURI (some { hostname := "2001:db8::1", port := "30304", username := "me" }) "me" "10.0.0.1" "30303").toOption.map (·.render)
      = some "enode://me@[2001:db8::1]:30304" ∧
    (normalizeNodeURI none "me" "10.0.0.1" "30303").toOption.map (·.render) = some "enode://me@10.0.0.1:30303" ∧
    (normalizeNodeURI (some { hostname := "1.2.3.4", username := "other" }) "me" "10.0.0.1" "30303").toOption = none ∧
    (normalizeNodeURI (some { hostname := "::" }) "me" "" "30303").toOption = none := by decide

/-! ### the advertised address stays the registered one

Keep-alives rewrite a node's record on every round.  They only refresh the check-in and the block number: the URI
(and kind, role, payout) a host registered last is what the pool stores and hands out, whatever keep-alives of
whichever node come in between (`conc noderace`: the re-registration racing the node's own keep-alive; seeded
change C19-r5 wrote back a record read before the re-registration). -/

/-- a keep-alive of `id` leaves every other node's record alone and changes nothing of `id`'s own record but the
check-in and the block number -/
theorem keepalive_keeps_registration (s s' : Store) (id : String) (reported : List String) (block : Nat) (now : Int)
    (inactive : List String) (h : s.updateNodePeers id reported block now = .ok (s', inactive)) :
    (∀ other, other ≠ id → s'.nodes.get other = s.nodes.get other) ∧
    ∃ n, s.nodes.get id = some n ∧ s'.nodes.get id = some { n with lastSeen := now, block := block } := by
  unfold Store.updateNodePeers at h
  cases hn : s.nodes.get id with
  | none => simp [hn] at h
  | some n =>
    simp only [hn] at h
    cases h
    refine ⟨?_, n, rfl, ?_⟩
    · intro other hne
      exact AList.get_set_ne _ _ (Ne.symm hne)
    · exact AList.get_set_eq _ _ _

/-- hence the URI handed out for a host is the one of its latest registration, across any keep-alive -/
theorem keepalive_keeps_uri (s s' : Store) (id who : String) (reported : List String) (block : Nat) (now : Int)
    (inactive : List String) (h : s.updateNodePeers who reported block now = .ok (s', inactive)) :
    (s'.nodes.get id).map (·.uri) = (s.nodes.get id).map (·.uri) := by
  obtain ⟨ho, n, hn, hn'⟩ := keepalive_keeps_registration s s' who reported block now inactive h
  by_cases e : id = who
  · subst e; rw [hn, hn']; rfl
  · rw [ho id e]

end Vipnode.C19
