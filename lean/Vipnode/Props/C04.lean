/-
C04 — Every signed endpoint acts only on requests signed by the identity they name.
-/
import Vipnode.Model.Auth
import Vipnode.Props.C06
import Vipnode.Generated.Facts
namespace Vipnode.C04
open Vipnode

/-- splitting at the first `[`: method names contain no `[`, the argument array starts with one -/
theorem split_at_bracket (m₁ m₂ r₁ r₂ : List Char) (h₁ : '[' ∉ m₁) (h₂ : '[' ∉ m₂)
    (h : m₁ ++ '[' :: r₁ = m₂ ++ '[' :: r₂) : m₁ = m₂ ∧ r₁ = r₂ := by
  induction m₁ generalizing m₂ with
  | nil =>
    cases m₂ with
    | nil => simp at h; exact ⟨rfl, h⟩
    | cons c t =>
      simp at h
      exact absurd (h.1 ▸ List.mem_cons_self) h₂
  | cons c t ih =>
    cases m₂ with
    | nil =>
      simp at h
      exact absurd (h.1 ▸ List.mem_cons_self) h₁
    | cons c' t' =>
      simp only [List.cons_append, List.cons.injEq] at h
      have := ih t' (fun hm => h₁ (List.mem_cons_of_mem _ hm)) (fun hm => h₂ (List.mem_cons_of_mem _ hm)) h.2
      exact ⟨by rw [h.1, this.1], this.2⟩

/-- **the signed bytes determine the whole request**: method, identity, nonce and parameters -/
theorem payload_injective {α : Type} (E : ArrayEncoder α) (m₁ m₂ : String) (a₁ a₂ : α)
    (h₁ : '[' ∉ m₁.toList) (h₂ : '[' ∉ m₂.toList)
    (h : payload E.enc m₁ a₁ = payload E.enc m₂ a₂) : m₁ = m₂ ∧ a₁ = a₂ := by
  obtain ⟨r₁, e₁⟩ := E.starts a₁
  obtain ⟨r₂, e₂⟩ := E.starts a₂
  unfold payload at h
  rw [e₁, e₂] at h
  have := split_at_bracket _ _ _ _ h₁ h₂ h
  refine ⟨String.toList_inj.1 this.1, E.inj _ _ ?_⟩
  rw [e₁, e₂, this.2]

/-- no RPC name the services register contains `[` (regenerated from the method registry on every run) -/
theorem names_have_no_bracket : ∀ n ∈ Facts.signedEndpoints, '[' ∉ n.toList := by decide

/-- the endpoints the property names are all registered as signed endpoints `(sig, identity, nonce, …)` -/
theorem property_endpoints_are_signed :
    ∀ n ∈ ["vipnode_connect", "vipnode_update", "vipnode_peer", "vipnode_host", "vipnode_client",
           "pool_addNode", "pool_withdraw"], n ∈ Facts.signedEndpoints := by decide

/-- a request as it arrives: claimed identity, the argument tuple (identity, nonce, params) and a signature -/
structure Request (S : SigScheme) (α : Type) where
  method : String
  id : String
  args : α
  sig : S.Sig

/-- `request.Verify` -/
def accepts (S : SigScheme) {α : Type} (E : ArrayEncoder α) (r : Request S α) : Bool :=
  S.verify r.id (payload E.enc r.method r.args) r.sig

/-- **accepted only if signed by the named identity over exactly this request** -/
theorem accepted_only_if_signed (S : SigScheme) {α : Type} (E : ArrayEncoder α) (r : Request S α)
    (h : accepts S E r = true) : ∃ k, S.ident k = r.id ∧ r.sig = S.sign k (payload E.enc r.method r.args) :=
  (S.verify_iff _ _ _).1 h

/-- **a correctly signed request is accepted by the verification step** -/
theorem honest_accepted (S : SigScheme) {α : Type} (E : ArrayEncoder α) (k : S.Key) (method : String) (a : α) :
    accepts S E { method := method, id := S.ident k, args := a, sig := S.sign k (payload E.enc method a) } = true :=
  (S.verify_iff _ _ _).2 ⟨k, rfl, rfl⟩

/-- **any alteration is refused**: a signature made by key `k` over (method, args) is accepted for a request
(method', id', args') only if nothing was changed and `k` is the key of the claimed identity -/
theorem altered_is_refused (S : SigScheme) {α : Type} (E : ArrayEncoder α) (k : S.Key) (method method' : String)
    (a a' : α) (id' : String) (hm : '[' ∉ method.toList) (hm' : '[' ∉ method'.toList)
    (h : accepts S E { method := method', id := id', args := a', sig := S.sign k (payload E.enc method a) } = true) :
    method' = method ∧ a' = a ∧ id' = S.ident k := by
  obtain ⟨k', hid, hs⟩ := accepted_only_if_signed S E _ h
  simp only at hid hs
  obtain ⟨hk, hp⟩ := S.sign_inj _ _ _ _ hs
  obtain ⟨h1, h2⟩ := payload_injective E method method' a a' hm hm' hp
  exact ⟨h1.symm, h2.symm, by rw [← hid, hk]⟩

/-- a signature by any other key is refused -/
theorem other_key_refused (S : SigScheme) {α : Type} (E : ArrayEncoder α) (k : S.Key) (method : String) (a : α)
    (id : String) (hne : S.ident k ≠ id) :
    accepts S E { method := method, id := id, args := a, sig := S.sign k (payload E.enc method a) } = false := by
  cases h : accepts S E { method := method, id := id, args := a, sig := S.sign k (payload E.enc method a) } with
  | false => rfl
  | true =>
    obtain ⟨k', hid, hs⟩ := accepted_only_if_signed S E _ h
    simp only at hid hs
    have := (S.sign_inj _ _ _ _ hs).1
    exact absurd (by rw [this]; exact hid) hne

/-- **every signed endpoint acts only after verification**: with `sigOk` the verdict of `request.Verify` on
the arriving request, an endpoint that changes anything at all was given a request signed by the named
identity over exactly that method and those arguments (pool model, every endpoint, every state) -/
theorem endpoint_acts_only_if_signed (S : SigScheme) {α : Type} (E : ArrayEncoder α) (r : Request S α)
    (p : Pool) (nonce now : Int) :
    (∀ conn src req, (p.Connect conn src (accepts S E r) r.id nonce req now).1 ≠ p →
        ∃ k, S.ident k = r.id ∧ r.sig = S.sign k (payload E.enc r.method r.args)) ∧
    (∀ reported block mnow fail, (p.Update (accepts S E r) r.id nonce reported block now mnow fail).1 ≠ p →
        ∃ k, S.ident k = r.id ∧ r.sig = S.sign k (payload E.enc r.method r.args)) ∧
    (∀ num choice outcome, (p.Peer (accepts S E r) r.id nonce now num choice outcome).1 ≠ p →
        ∃ k, S.ident k = r.id ∧ r.sig = S.sign k (payload E.enc r.method r.args)) ∧
    (∀ node, (p.AddNode (accepts S E r) r.id nonce now node).1 ≠ p →
        ∃ k, S.ident k = r.id ∧ r.sig = S.sign k (payload E.enc r.method r.args)) ∧
    (∀ settleOk, (p.Withdraw (accepts S E r) r.id nonce now settleOk).1 ≠ p →
        ∃ k, S.ident k = r.id ∧ r.sig = S.sign k (payload E.enc r.method r.args)) := by
  cases h : accepts S E r with
  | true =>
    have := accepted_only_if_signed S E r h
    exact ⟨fun _ _ _ _ => this, fun _ _ _ _ _ => this, fun _ _ _ _ => this, fun _ _ => this, fun _ _ => this⟩
  | false =>
    have hv : p.verify false r.id nonce now = .error .verifyFailed := rfl
    have hno := C06.refused_no_effect p false r.id nonce now _ hv
    refine ⟨?_, ?_, ?_, ?_, ?_⟩
    · intro conn src req hne; rw [hno.1] at hne; exact absurd rfl hne
    · intro reported block mnow fail hne; rw [hno.2.1] at hne; exact absurd rfl hne
    · intro num choice outcome hne; rw [hno.2.2.1] at hne; exact absurd rfl hne
    · intro node hne; rw [hno.2.2.2.1] at hne; exact absurd rfl hne
    · intro settleOk hne; rw [hno.2.2.2.2] at hne; exact absurd rfl hne

/-! ### non-vacuity: the laws of the ideal scheme are satisfiable -/

def toyScheme : SigScheme where
  Key := String
  Sig := String × List Char
  ident k := "id:" ++ k
  sign k m := (k, m)
  verify id m s := decide ("id:" ++ s.1 = id ∧ s.2 = m)
  verify_iff := by
    intro id m s
    simp only [decide_eq_true_eq]
    constructor
    · intro ⟨h1, h2⟩; exact ⟨s.1, h1, by rw [← h2]⟩
    · intro ⟨k, h1, h2⟩; subst h2; exact ⟨h1, rfl⟩
  sign_inj := by
    intro k k' m m' h
    simp only [Prod.mk.injEq] at h
    exact h

def toyEncoder : ArrayEncoder (List Char) where
  enc a := '[' :: a
  starts a := ⟨a, rfl⟩
  inj a b h := by simpa using h

example : accepts toyScheme toyEncoder
    { method := "vipnode_update", id := "id:k", args := "x".toList, sig := ("k", "vipnode_update[x".toList) } = true := by
  decide

end Vipnode.C04
