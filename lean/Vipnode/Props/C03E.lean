/-
C03 / C02 (configuration glue) — the amounts an operator writes on the command line (`--contract.min-balance`,
`--contract.price`) are the amounts the pool runs with: theorems about `Model/Ether.parseEther`, the model of
`internal/pretty.ParseEther` that the `poolbin-flags` stream compares with the built binary.
-/
import Vipnode.Model.Ether
namespace Vipnode.C03E
open Vipnode.Ether

/-- every unit multiplies by a positive power of ten - none of them silently turns an amount into zero
(the repaired defect: the unit `wei` multiplied by 0) -/
theorem unit_factor_pos (u : String) (f : Int) (h : unitFactor u = some f) : 0 < f := by
  unfold unitFactor at h
  split at h <;> first | (cases h; decide) | cases h

/-- the units are the documented denominations -/
theorem unit_table :
    unitFactor "wei" = some 1 ∧ unitFactor "gwei" = some (10 ^ 9) ∧ unitFactor "ether" = some (10 ^ 18) ∧
    unitFactor "kwei" = some (10 ^ 3) ∧ unitFactor "mwei" = some (10 ^ 6) ∧ unitFactor "szabo" = some (10 ^ 12) ∧
    unitFactor "finney" = some (10 ^ 15) := by decide

/-- a whole number of units is exactly that many times the unit -/
theorem whole_amount_exact (n f : Int) : (n * f) / ((10 ^ 0 : Nat) : Int) = n * f := by simp

/-- a positive amount of at least one wei never becomes zero or negative -/
theorem positive_amount_positive (n f : Int) (d : Nat) (hd : 0 < d) (h : (d : Int) ≤ n * f) : 0 < (n * f) / (d : Int) := by
  have hd' : (0 : Int) < d := by exact_mod_cast hd
  have h1 : (d : Int) / (d : Int) ≤ (n * f) / (d : Int) := Int.ediv_le_ediv hd' h
  rw [Int.ediv_self (by omega)] at h1
  omega

/-- the minimum the binary runs with for the flag values of the repaired defect -/
example : parseEther "1 wei" = some 1 ∧ parseEther "250 wei" = some 250 ∧ parseEther "-1 wei" = some (-1) := by decide

/-- **only `off` switches the minimum off**: every other accepted value of `--contract.min-balance` — zero in any
spelling and negative amounts included — configures a minimum (seeded change C03-r4 made a zero minimum behave as
`off`; the `poolbin-flags` stream bills a client below zero against such a binary) -/
theorem only_off_disables_minimum (s : String) : minBalanceFlag s = some none ↔ s = "off" := by
  unfold minBalanceFlag
  by_cases h : s = "off"
  · simp [h]
  · have hb : (s == "off") = false := by simpa using h
    simp only [hb, Bool.false_eq_true, if_false, h, iff_false]
    cases parseEther s <;> simp

theorem zero_is_a_minimum : minBalanceFlag "0" = some (some 0) ∧ minBalanceFlag "0 wei" = some (some 0) ∧
    minBalanceFlag "0.0" = none ∧ minBalanceFlag "0 ether" = some (some 0) ∧ minBalanceFlag "-1" = some (some (-1)) := by decide

end Vipnode.C03E
