/-
C07 — A withdrawal pays exactly what is owed, once.

Theorems about `Pool.Withdraw` (`PaymentService.Withdraw` with the settlement
handler's effect on the on-chain deposit as part of the model).  `owed w` is
deposit + credit, `paid w` is what the settlement handler has disbursed.
-/
import Vipnode.Lemmas.Pool
namespace Vipnode.C07
open Vipnode Vipnode.Pool Vipnode.AList

def owed (p : Pool) (w : String) : Int := (p.walletBalance w).deposit + (p.walletBalance w).credit
def paidTo (p : Pool) (w : String) : Int := (p.paid.get w).getD 0
def feeOf (cfg : PoolCfg) : Int := cfg.withdrawFee.getD 0

theorem withdrawPay_eq (cfg : PoolCfg) (t : Int) : withdrawPay cfg t = t - feeOf cfg := by
  unfold withdrawPay feeOf; cases cfg.withdrawFee <;> simp

theorem verify_owed (p p1 : Pool) (sigOk : Bool) (w : String) (nonce now : Int) (h : p.verify sigOk w nonce now = .ok p1) :
    ∀ x, owed p1 x = owed p x ∧ paidTo p1 x = paidTo p x := by
  have hv := verify_frame p p1 sigOk w nonce now h
  intro x
  simp only [owed, paidTo, walletBalance, Store.getAccountBalance, hv.2.2.1, hv.2.2.2.2.2.2.2.2.2.1, hv.2.2.2.2.2.2.2.2.2.2]
  trivial

/-- the full case analysis of a withdrawal -/
theorem withdraw_cases (p : Pool) (sigOk : Bool) (w : String) (nonce now : Int) (settleOk : Bool)
    (r : Pool × Except PoolErr Int) (hr : r = p.Withdraw sigOk w nonce now settleOk) :
    (∃ pay, r.2 = .ok pay ∧ (∃ p1, p.verify sigOk w nonce now = .ok p1) ∧ settleOk = true ∧
        belowWithdrawMin p.cfg (owed p w) = false ∧
        pay = owed p w - feeOf p.cfg ∧ owed r.1 w = 0 ∧ paidTo r.1 w = paidTo p w + pay ∧
        (∀ x, x ≠ w → owed r.1 x = owed p x ∧ paidTo r.1 x = paidTo p x)) ∨
    (∃ e, r.2 = .error e ∧ ∀ x, owed r.1 x = owed p x ∧ paidTo r.1 x = paidTo p x) := by
  unfold Withdraw payVerify at hr
  split at hr
  · subst hr; exact Or.inr ⟨_, rfl, fun x => ⟨rfl, rfl⟩⟩
  · rename_i p1 hv
    have hv1 := verify_owed p p1 sigOk w nonce now hv
    have hcfg := (verify_frame p p1 sigOk w nonce now hv).2.2.2.2.2.2.2.2.1
    split at hr
    · subst hr; exact Or.inr ⟨_, rfl, hv1⟩
    · simp only at hr
      split at hr
      · subst hr; exact Or.inr ⟨_, rfl, hv1⟩
      · rename_i hmin
        split at hr
        · subst hr; exact Or.inr ⟨_, rfl, hv1⟩
        · rename_i hset
          subst hr
          refine Or.inl ⟨_, rfl, ⟨p1, hv⟩, by simpa using hset, ?_, ?_, ?_, ?_, ?_⟩
          · have h1 := (hv1 w).1
            simp only [owed] at h1
            rw [← hcfg]; simp only [owed]; rw [← h1]; simpa using hmin
          · rw [withdrawPay_eq, hcfg]; have := (hv1 w).1; simp only [owed] at this ⊢; rw [this]
          · simp only [owed, walletBalance, Store.addAccountBalance, Store.getAccountBalance, get_set_eq,
              Option.getD_some]
            omega
          · have h2 := (hv1 w).2
            simp only [paidTo] at h2 ⊢
            simp only [get_set_eq, Option.getD_some]; rw [h2]
          · intro x hx
            have hne : w ≠ x := Ne.symm hx
            simp only [owed, paidTo, walletBalance, Store.addAccountBalance, Store.getAccountBalance,
              get_set_ne _ _ hne]
            exact hv1 x

/-- **exact**: a successful withdrawal required a correctly signed fresh request and a balance at or above the
minimum; it pays exactly balance − fee and leaves the wallet with nothing further to withdraw -/
theorem withdraw_exact (p : Pool) (sigOk : Bool) (w : String) (nonce now : Int) (settleOk : Bool) (pay : Int)
    (h : (p.Withdraw sigOk w nonce now settleOk).2 = .ok pay) :
    sigOk = true ∧ belowWithdrawMin p.cfg (owed p w) = false ∧ pay = owed p w - feeOf p.cfg ∧
    owed (p.Withdraw sigOk w nonce now settleOk).1 w = 0 ∧
    paidTo (p.Withdraw sigOk w nonce now settleOk).1 w = paidTo p w + pay := by
  rcases withdraw_cases p sigOk w nonce now settleOk _ rfl with ⟨pay', h1, ⟨p1, hv⟩, _, h3, h4, h5, h6, _⟩ | ⟨e, h1, _⟩
  · rw [h1] at h; cases h
    refine ⟨?_, h3, h4, h5, h6⟩
    cases sigOk with
    | true => rfl
    | false => simp [verify] at hv
  · rw [h1] at h; cases h

theorem min_respected (cfg : PoolCfg) (t m : Int) (hm : cfg.withdrawMin = some m) :
    belowWithdrawMin cfg t = false ↔ m ≤ t := by
  simp [belowWithdrawMin, hm]

/-- **refused or failed ⇒ nothing paid, balance unchanged** (bad signature, stale nonce, withdrawals disabled,
balance below the minimum, settlement failing) — for every wallet -/
theorem withdraw_refused_or_failed_no_effect (p : Pool) (sigOk : Bool) (w : String) (nonce now : Int) (settleOk : Bool)
    (e : PoolErr) (h : (p.Withdraw sigOk w nonce now settleOk).2 = .error e) :
    ∀ x, owed (p.Withdraw sigOk w nonce now settleOk).1 x = owed p x ∧
         paidTo (p.Withdraw sigOk w nonce now settleOk).1 x = paidTo p x := by
  rcases withdraw_cases p sigOk w nonce now settleOk _ rfl with ⟨pay', h1, _⟩ | ⟨e', _, h2⟩
  · rw [h1] at h; cases h
  · exact h2

theorem settlement_failure_pays_nothing (p : Pool) (sigOk : Bool) (w : String) (nonce now : Int) :
    ∃ e, (p.Withdraw sigOk w nonce now false).2 = .error e := by
  rcases withdraw_cases p sigOk w nonce now false _ rfl with ⟨pay', _, _, h, _⟩ | ⟨e, h1, _⟩
  · cases h
  · exact ⟨e, h1⟩

/-- other wallets are never touched by a withdrawal -/
theorem withdraw_frame (p : Pool) (sigOk : Bool) (w x : String) (nonce now : Int) (settleOk : Bool) (hx : x ≠ w) :
    owed (p.Withdraw sigOk w nonce now settleOk).1 x = owed p x ∧
    paidTo (p.Withdraw sigOk w nonce now settleOk).1 x = paidTo p x := by
  rcases withdraw_cases p sigOk w nonce now settleOk _ rfl with ⟨_, _, _, _, _, _, _, _, h⟩ | ⟨_, _, h⟩
  · exact h x hx
  · exact h x

/-- **conservation**: paid + owed never grows through a withdrawal; a success lowers it by exactly the fee -/
theorem withdraw_conserves (p : Pool) (sigOk : Bool) (w : String) (nonce now : Int) (settleOk : Bool) :
    let p' := (p.Withdraw sigOk w nonce now settleOk).1
    (paidTo p' w + owed p' w = paidTo p w + owed p w - feeOf p.cfg ∧ (p.Withdraw sigOk w nonce now settleOk).2.isOk = true) ∨
    (paidTo p' w + owed p' w = paidTo p w + owed p w ∧ (p.Withdraw sigOk w nonce now settleOk).2.isOk = false) := by
  rcases withdraw_cases p sigOk w nonce now settleOk _ rfl with ⟨pay, h1, _, _, _, h4, h5, h6, _⟩ | ⟨e, h1, h2⟩
  · left; show _ ∧ _; rw [h1, h5, h6, h4]; exact ⟨by omega, rfl⟩
  · right; show _ ∧ _; rw [h1, (h2 w).1, (h2 w).2]; exact ⟨rfl, rfl⟩

/-- **never twice**: repeating the withdrawal straight away (any number of refused or failed attempts in
between) finds nothing owed — the second payout is 0 − fee at most, never the same earnings again -/
theorem never_twice (p : Pool) (w : String) (n1 n2 now1 now2 : Int) (s1 s2 : Bool) (ok1 ok2 : Bool) (pay1 pay2 : Int)
    (h1 : (p.Withdraw s1 w n1 now1 ok1).2 = .ok pay1)
    (h2 : ((p.Withdraw s1 w n1 now1 ok1).1.Withdraw s2 w n2 now2 ok2).2 = .ok pay2) :
    pay2 = - feeOf p.cfg ∧ pay1 + pay2 = owed p w - 2 * feeOf p.cfg := by
  have e1 := withdraw_exact p s1 w n1 now1 ok1 pay1 h1
  have e2 := withdraw_exact _ s2 w n2 now2 ok2 pay2 h2
  have hcfg : (p.Withdraw s1 w n1 now1 ok1).1.cfg = p.cfg := by
    unfold Withdraw payVerify
    split
    · rfl
    · rename_i p1 hv
      have := (verify_frame p p1 s1 w n1 now1 hv).2.2.2.2.2.2.2.2.1
      simp only; split
      · exact this
      · split
        · exact this
        · split <;> exact this
  rw [hcfg] at e2
  omega

/-- racing withdrawals: the payment service serialises withdrawals (mutex), so k concurrent requests
run as some sequence; over any sequence of withdrawal attempts of one wallet, with no earnings in between,
the total paid never exceeds what was owed at the start (fees non-negative) -/
theorem racing_withdrawals (p : Pool) (w : String) (attempts : List (Bool × Int × Int × Bool))
    (hfee : 0 ≤ feeOf p.cfg) (ho : 0 ≤ owed p w) :
    let final := attempts.foldl (fun q a => (q.Withdraw a.1 w a.2.1 a.2.2.1 a.2.2.2).1) p
    paidTo final w - paidTo p w ≤ owed p w ∧ 0 ≤ owed final w := by
  induction attempts generalizing p with
  | nil => simp; exact ho
  | cons a as ih =>
    simp only [List.foldl_cons]
    have hc := withdraw_cases p a.1 w a.2.1 a.2.2.1 a.2.2.2 _ rfl
    have hcfg : (p.Withdraw a.1 w a.2.1 a.2.2.1 a.2.2.2).1.cfg = p.cfg := by
      unfold Withdraw payVerify
      split
      · rfl
      · rename_i p1 hv
        have := (verify_frame p p1 a.1 w a.2.1 a.2.2.1 hv).2.2.2.2.2.2.2.2.1
        simp only; split
        · exact this
        · split
          · exact this
          · split <;> exact this
    rcases hc with ⟨pay, _, _, _, hb, hp, ho', hpd, _⟩ | ⟨e, _, h2⟩
    · have ih' := ih (p.Withdraw a.1 w a.2.1 a.2.2.1 a.2.2.2).1 (by rw [hcfg]; exact hfee) (by rw [ho']; exact Int.le_refl 0)
      simp only at ih' ⊢
      rw [ho', hpd] at ih'
      refine ⟨?_, ih'.2⟩
      have := ih'.1
      omega
    · have ih' := ih (p.Withdraw a.1 w a.2.1 a.2.2.1 a.2.2.2).1 (by rw [hcfg]; exact hfee) (by rw [(h2 w).1]; exact ho)
      simp only at ih' ⊢
      rw [(h2 w).1, (h2 w).2] at ih'
      exact ih'

/-! ### credit earned while the settlement is in flight -/

/-- with nothing arriving meanwhile `WithdrawDuring` is `Withdraw` -/
theorem withdrawDuring_none (p : Pool) (sigOk : Bool) (w : String) (nonce now : Int) (settleOk : Bool) :
    p.WithdrawDuring sigOk w nonce now settleOk none = p.Withdraw sigOk w nonce now settleOk := by
  unfold WithdrawDuring Withdraw
  cases p.payVerify sigOk w nonce now with
  | error e => rfl
  | ok p1 =>
    simp only
    repeat' split
    all_goals rfl

/-- **what a node linked to the wallet earns while the wallet's withdrawal is being settled stays on the books**:
the withdrawal pays what was owed when it read the balance, and afterwards the wallet is owed exactly the credit that
arrived in the meantime - it is neither paid out unseen nor wiped by the deduction -/
theorem credit_during_settlement_preserved (p : Pool) (sigOk : Bool) (w id : String) (nonce now amt pay : Int) (n : Node)
    (hn : p.store.nodes.get id = some n) (hl : p.store.accounts.get id = some w)
    (h : (p.WithdrawDuring sigOk w nonce now true (some (id, amt))).2 = .ok pay) :
    pay = owed p w - feeOf p.cfg ∧ owed (p.WithdrawDuring sigOk w nonce now true (some (id, amt))).1 w = amt := by
  unfold WithdrawDuring payVerify at h ⊢
  cases hv : p.verify sigOk w nonce now with
  | error e => simp [hv] at h
  | ok p1 =>
    obtain ⟨_, hnodes, hbal, _, hacc, _, _, _, hcfg, hdep, _⟩ := verify_frame p p1 sigOk w nonce now hv
    simp only [hv] at h ⊢
    by_cases hen : p1.cfg.settleEnabled = true
    · simp only [hen, Bool.not_true, Bool.false_eq_true, if_false] at h ⊢
      by_cases hm : belowWithdrawMin p1.cfg ((p1.walletBalance w).deposit + (p1.walletBalance w).credit) = true
      · simp [hm] at h
      · simp only [hm, if_false, Bool.not_true, Bool.false_eq_true] at h ⊢
        cases h
        have hadd : ∀ b0 : Bal, b0 = (p1.store.balances.get w).getD {} → p1.store.addNodeBalance id amt =
            .ok { p1.store with balances := AList.set p1.store.balances w { b0 with credit := b0.credit + amt } } := by
          intro b0 hb0
          have hn1 : p1.store.nodes.get id = some n := by rw [hnodes]; exact hn
          have hl1 : p1.store.accounts.get id = some w := by rw [hacc]; exact hl
          simp only [Store.addNodeBalance, hn1, hl1, hb0]
        have hadd := hadd _ rfl
        refine ⟨?_, ?_⟩
        · rw [withdrawPay_eq, hcfg]
          simp only [owed, walletBalance, Store.getAccountBalance, hbal, hdep]
        · simp only [hadd, owed, walletBalance, Store.addAccountBalance, Store.getAccountBalance, get_set_eq,
            Option.getD_some]
          omega
    · have hen' : p1.cfg.settleEnabled = false := by simpa using hen
      simp [hen'] at h

/-- the pre-repair withdrawal (credit left in place): the witness that motivated the repair (DESIGN.md §9 F5) -/
def WithdrawOld (p : Pool) (w : String) : Pool × Int :=
  let b := p.walletBalance w
  let pay := withdrawPay p.cfg (b.deposit + b.credit)
  ({ p with deposits := p.deposits.set w 0, paid := p.paid.set w ((p.paid.get w).getD 0 + pay) }, pay)

theorem old_withdraw_counterexample :
    let p : Pool := { store := Store.empty.addAccountBalance "w" 5000 }
    (WithdrawOld p "w").2 = 5000 ∧ (WithdrawOld (WithdrawOld p "w").1 "w").2 = 5000 := by decide

/-- non-vacuity: credit 5000, deposit 400, minimum 500, fee 100: pays 5300 once; the repeat is refused by the minimum -/
example :
    let p : Pool := { cfg := { withdrawMin := some 500, withdrawFee := some 100 },
                      store := Store.empty.addAccountBalance "w" 5000, deposits := [("w", 400)] }
    (p.Withdraw true "w" 1 0 true).2 = .ok 5300 ∧
    ((p.Withdraw true "w" 1 0 true).1.Withdraw true "w" 2 0 true).2 = .error (.withdrawMin 0 500) := by
  refine ⟨?_, ?_⟩ <;> rfl

end Vipnode.C07
