/-
C15 — No message from the network can crash or wedge a pool or an agent.

Two parts.  (1) Theorems: the guards in vipnode's own code in front of every
panicking Go operation on received data (Model/Guards.lean), the totality and
well-formedness of request handling (Model/Server.lean), the bound on what a
peer request asks the store to allocate, the read loop never blocking on honest
traffic (C14).  (2) A differential fuzz stream that runs the real services in a
separate process, where a panic is an observable exit: that part *samples*
`encoding/json`, `reflect`, `net/url` and the go-ethereum crypto, which the
theorems do not cover.
-/
import Vipnode.Model.Guards
import Vipnode.Model.Server
import Vipnode.Props.C08
namespace Vipnode.C15
open Vipnode

/-- signature strings of any length never panic the node-signature check -/
theorem node_sig_total (sig : List UInt8) : ∀ p, nodeSigBytes sig ≠ .error p := by
  intro p
  unfold nodeSigBytes
  split
  · simp
  · rename_i h
    have : 64 ≤ sig.length := by omega
    simp [sliceTo, this]

theorem node_sig_short_refused (sig : List UInt8) (h : sig.length < 64) : nodeSigBytes sig = .ok none := by
  simp [nodeSigBytes, h]

/-- nor the wallet-signature check -/
theorem address_sig_total (sig : List UInt8) : ∀ p, addressSigV sig ≠ .error p := by
  intro p
  unfold addressSigV
  split
  · simp
  · rename_i h
    have h65 : sig.length = 65 := by simpa using h
    have : ∃ v, sig[64]? = some v := ⟨sig[64]'(by omega), by simp [List.getElem?_eq_getElem (show 64 < sig.length by omega)]⟩
    obtain ⟨v, hv⟩ := this
    simp [hv]

/-- peer descriptions with enode strings of any length never panic `EnodeID` -/
theorem enode_id_total (id enode : List Char) : ∀ p, enodeID id enode ≠ .error p := by
  intro p
  unfold enodeID
  split
  · simp
  · rename_i h
    have : 8 + 128 ≤ enode.length := by omega
    simp [sliceFromTo, this]

/-- any reply shape is handled by a waiting caller without a panic -/
theorem call_total (s : ReplyShape) : ∀ p, callReturn s ≠ .error p := by
  intro p; cases s <;> simp [callReturn]

/-- **what a peer request makes the store allocate is never negative**: the limit passed to `ActiveHosts` is
positive whenever the store is asked at all (non-positive requests return before) -/
theorem active_hosts_limit_positive (p : Pool) (id : String) (num : Int) (l : Int)
    (h : p.activeHostsLimit id num = some l) : 0 < l := by
  unfold Pool.activeHostsLimit at h
  simp only at h
  split at h
  · cases h
  · split at h
    · cases h
    · cases h; omega

/-- and the memory driver's allocation is bounded by its own table, whatever count the request names -/
theorem active_hosts_alloc_bounded (limit : Int) (tableSize : Nat) (h : 0 ≤ limit) :
    ∃ c, activeHostsCap limit tableSize = .ok c ∧ c ≤ tableSize := by
  unfold activeHostsCap
  have : ¬ limit < 0 := by omega
  simp only [this, if_false]
  exact ⟨_, rfl, Nat.min_le_right _ _⟩

/-- **every request is answered, with a result or an error, and nothing else happens**: `Server.Handle` is total and
classifies every request shape into exactly one reply class; only a well-typed call to a registered method runs code -/
theorem reply_well_formed (reg : AList Method) (isRequest : Bool) (name : String) (ps : Params) :
    let (reply, ran) := handle reg isRequest name ps
    (reply = .result ∨ reply = .methodNotFound ∨ reply = .invalidParams ∨ reply = .internalError ∨ reply = .invalidRequest) ∧
    (ran = true → isRequest = true ∧ ∃ m, reg.get name = some m ∧ parsePositional ps m.types = true) := by
  unfold handle
  cases isRequest with
  | false => simp
  | true =>
    simp only [Bool.not_true, Bool.false_eq_true, if_false]
    cases hm : reg.get name with
    | none => simp
    | some m =>
      simp only
      by_cases hp : parsePositional ps m.types = true
      · simp only [hp, if_true]; cases m.fails <;> simp [hp]
      · simp [hp]

/-- witnesses of the repaired defects: the unguarded operations do panic -/
theorem old_guards_counterexample :
    sliceTo ([1, 2, 3] : List UInt8) 64 = .error .sliceOutOfRange ∧
    activeHostsCap (-5) 10 = .error .makeslice := ⟨rfl, rfl⟩

end Vipnode.C15
