/-
C13 / C10 (link race) — credits to a node racing with the linking of that node to a wallet: in every order of the
atomic store operations, every acknowledged credit ends up in the balance the node spends from afterwards.
-/
import Vipnode.Lemmas.Store
namespace Vipnode.C13L
open Vipnode Vipnode.AList Vipnode.Store

/-- what node `id` can spend, counting the wallet `a` it is being linked to: before the link the trial credit plus
what the wallet already holds, after it the wallet's credit -/
def potential (s : Store) (a id : String) : Int :=
  match s.accounts.get id with
  | some _ => ((s.balances.get a).getD {}).credit
  | none => ((s.trials.get id).getD {}).credit + ((s.balances.get a).getD {}).credit

/-- the operations of the race: credits to `id` and links of `id` to `a` -/
def raceOp (a id : String) : Op → Prop
  | .addNodeBalance i _ => i = id
  | .addAccountNode a' i => a' = a ∧ i = id
  | _ => False

def credited (id : String) : Op → Int
  | .addNodeBalance i amt => if i = id then amt else 0
  | _ => 0

/-- linked-to-`a` or unlinked: the node is never linked to another wallet during the race -/
def LinkInv (s : Store) (a id : String) : Prop :=
  (∃ n, s.nodes.get id = some n) ∧ NoDupKeys s.trials ∧
  (s.accounts.get id = none ∨ (s.accounts.get id = some a ∧ s.trials.get id = none))

theorem step (s : Store) (a id : String) (op : Op) (h : LinkInv s a id) (hop : raceOp a id op) :
    LinkInv (applyOp s op) a id ∧ potential (applyOp s op) a id = potential s a id + credited id op := by
  obtain ⟨⟨n, hn⟩, hnd, hl⟩ := h
  cases op with
  | addNodeBalance i amt =>
    have hi : i = id := hop
    subst hi
    simp only [applyOp, Store.addNodeBalance, hn, credited, if_true]
    rcases hl with hl | ⟨hl, ht⟩
    · simp only [hl]
      refine ⟨⟨⟨n, hn⟩, noDup_set _ _ _ hnd, Or.inl hl⟩, ?_⟩
      simp only [potential, hl, get_set_eq, Option.getD_some]
      omega
    · simp only [hl]
      refine ⟨⟨⟨n, hn⟩, hnd, Or.inr ⟨hl, ht⟩⟩, ?_⟩
      simp only [potential, hl, get_set_eq, Option.getD_some]
  | addAccountNode a' i =>
    obtain ⟨ha, hi⟩ : a' = a ∧ i = id := hop
    subst ha; subst hi
    simp only [applyOp, Store.addAccountNode, hn, credited]
    refine ⟨⟨⟨n, hn⟩, noDup_del _ _ hnd, Or.inr ⟨get_set_eq _ _ _, get_del_self _ _ hnd⟩⟩, ?_⟩
    simp only [potential, get_set_eq, Option.getD_some]
    rcases hl with hl | ⟨hl, ht⟩
    · simp only [hl]; omega
    · -- linking again: the trial entry is gone, nothing is merged twice
      simp only [hl, ht, Option.getD_none]
      try rfl
  | setNode _ => exact hop.elim
  | unp _ _ _ _ => exact hop.elim
  | addAccountBalance _ _ => exact hop.elim
  | nonce _ _ _ => exact hop.elim

/-- **no acknowledged credit is lost to a racing link**: for every order of the atomic store operations of the race
(any number of credits to the node, any number of links of it to the wallet, interleaved in any way), what the node
can spend afterwards is what it could spend before plus every credit -/
theorem link_race_no_lost_credit (s : Store) (a id : String) (ops : List Op) (h : LinkInv s a id)
    (hops : ∀ op ∈ ops, raceOp a id op) :
    LinkInv (run s ops) a id ∧ potential (run s ops) a id = potential s a id + sumInts (ops.map (credited id)) := by
  induction ops generalizing s with
  | nil => exact ⟨h, by simp [run, sumInts]⟩
  | cons op ops ih =>
    obtain ⟨h1, h2⟩ := step s a id op h (hops op List.mem_cons_self)
    obtain ⟨h3, h4⟩ := ih (applyOp s op) h1 (fun o ho => hops o (List.mem_cons_of_mem _ ho))
    refine ⟨h3, ?_⟩
    show potential (run (applyOp s op) ops) a id = _
    rw [h4, h2]
    simp only [List.map_cons, sumInts, List.foldr_cons]
    omega

/-- ... and once a link is among them, that is the credit of the wallet the node spends from, with no trial balance
left beside it -/
theorem link_race_final (s : Store) (a id : String) (ops : List Op) (h : LinkInv s a id)
    (hops : ∀ op ∈ ops, raceOp a id op) (hlinked : (run s ops).accounts.get id = some a) :
    ((run s ops).nodeBalance id).credit = potential s a id + sumInts (ops.map (credited id)) ∧
    (run s ops).trials.get id = none := by
  obtain ⟨⟨_, _, hl⟩, hp⟩ := link_race_no_lost_credit s a id ops h hops
  rcases hl with hl | ⟨_, ht⟩
  · rw [hl] at hlinked; cases hlinked
  · refine ⟨?_, ht⟩
    rw [← hp]
    simp [Store.nodeBalance, potential, hlinked]

/-- non-vacuity: 100 on trial, two credits around the link -/
example :
    let s : Store := (Store.empty.setNode { id := "n" }).toOption.getD {} |>.addNodeBalance "n" 100 |>.toOption.getD {}
    ((run s [.addNodeBalance "n" 5, .addAccountNode "W" "n", .addNodeBalance "n" 7]).nodeBalance "n").credit = 112 := by decide

end Vipnode.C13L
