/-
C12 — Both storage drivers implement the documented store contract.

`Model/Store.lean` is the executable reference of the contract documented in
`pool/store/store.go`; both drivers are compared with it, op by op, by the
correspondence streams `store-memory` and `store-badger` (so a driver that
deviates from the other deviates from the model).  The theorems below are the
contract clauses the property names, proved of that reference for every state
and every argument.
-/
import Vipnode.Lemmas.Store
namespace Vipnode.C12
open Vipnode Vipnode.Store Vipnode.AList

/-! ### unregistered nodes are errors -/

theorem unregistered_is_error (s : Store) (id : String) (h : s.nodes.get id = none) :
    s.getNode id = .error .unregistered ∧
    s.getNodeBalance id = .error .unregistered ∧
    (∀ amt, s.addNodeBalance id amt = .error .unregistered) ∧
    (∀ a, s.addAccountNode a id = .error .unregistered) ∧
    (∀ r b now, s.updateNodePeers id r b now = .error .unregistered) ∧
    s.nodePeers id = .error .unregistered := by
  simp [getNode, getNodeBalance, addNodeBalance, addAccountNode, updateNodePeers, nodePeers, h]

theorem registered_is_ok (s : Store) (id : String) (n : Node) (h : s.nodes.get id = some n) :
    s.getNode id = .ok n ∧ (∃ b, s.getNodeBalance id = .ok b) ∧
    (∀ amt, ∃ s', s.addNodeBalance id amt = .ok s') ∧ (∀ a, ∃ s', s.addAccountNode a id = .ok s') := by
  refine ⟨by simp [getNode, h], ⟨s.nodeBalance id, by simp [getNodeBalance, h]⟩, ?_, ?_⟩
  · intro amt; unfold addNodeBalance; simp only [h]; split <;> exact ⟨_, rfl⟩
  · intro a; unfold addAccountNode; simp only [h]; exact ⟨_, rfl⟩

theorem setNode_then_get (s s' : Store) (n : Node) (h : s.setNode n = .ok s') : s'.getNode n.id = .ok n := by
  unfold setNode at h; split at h <;> cases h
  simp [getNode, get_set_eq]

theorem setNode_empty_id_refused (s : Store) (n : Node) (h : n.id = "") : s.setNode n = .error .malformed := by
  simp [setNode, h]

/-- re-registering a node touches neither peer sets, links nor balances -/
theorem setNode_frame (s s' : Store) (n : Node) (h : s.setNode n = .ok s') :
    s'.peers = s.peers ∧ s'.accounts = s.accounts ∧ s'.balances = s.balances ∧ s'.trials = s.trials ∧ s'.nonces = s.nonces := by
  unfold setNode at h; split at h <;> cases h; simp

/-! ### balances follow the wallet once linked -/

theorem linked_balance_follows_wallet (s s' : Store) (a id : String) (h : s.addAccountNode a id = .ok s') :
    s'.nodeBalance id = s'.getAccountBalance a ∧ s'.isAccountNode a id = .ok () ∧
    (s'.getAccountBalance a).account = a := by
  unfold addAccountNode at h
  split at h
  · cases h
  · cases h
    simp [nodeBalance, getAccountBalance, isAccountNode, get_set_eq]

/-- the trial credit is migrated: the wallet gains exactly the trial credit, the
ledger total is unchanged, and (keys being distinct) no trial entry is left -/
theorem trial_migrated_exactly_once (s s' : Store) (a id : String) (h : s.addAccountNode a id = .ok s') :
    (s'.getAccountBalance a).credit = (s.getAccountBalance a).credit + ((s.trials.get id).getD {}).credit ∧
    ledgerSum s' = ledgerSum s ∧
    (NoDupKeys s.trials → s'.trials.get id = none) := by
  refine ⟨?_, ledger_addAccountNode s s' a id h, ?_⟩
  · unfold addAccountNode at h
    split at h
    · cases h
    · cases h; simp [getAccountBalance, get_set_eq]
  · intro hn
    unfold addAccountNode at h
    split at h
    · cases h
    · cases h; exact get_del_self _ _ hn

/-- linking again (second migration) moves nothing: the trial is gone -/
theorem second_link_moves_nothing (s s' s'' : Store) (a id : String) (hn : NoDupKeys s.trials)
    (h : s.addAccountNode a id = .ok s') (h2 : s'.addAccountNode a id = .ok s'') :
    (s''.getAccountBalance a).credit = (s'.getAccountBalance a).credit := by
  have h3 := (trial_migrated_exactly_once s s' a id h).2.2 hn
  have h4 := (trial_migrated_exactly_once s' s'' a id h2).1
  rw [h4, h3]; simp

/-- every node linked to a wallet spends from the same balance -/
theorem wallet_shared_by_all_its_nodes (s : Store) (a id₁ id₂ : String)
    (h₁ : s.accounts.get id₁ = some a) (h₂ : s.accounts.get id₂ = some a) :
    s.nodeBalance id₁ = s.nodeBalance id₂ ∧ s.nodeBalance id₁ = s.getAccountBalance a := by
  simp [nodeBalance, getAccountBalance, h₁, h₂]

/-- crediting a linked node credits its wallet, by exactly the amount -/
theorem addNodeBalance_linked (s s' : Store) (a id : String) (amt : Int) (hl : s.accounts.get id = some a)
    (h : s.addNodeBalance id amt = .ok s') :
    (s'.getAccountBalance a).credit = (s.getAccountBalance a).credit + amt ∧ s'.trials = s.trials := by
  unfold addNodeBalance at h
  split at h
  · cases h
  · simp only [hl] at h; cases h; simp [getAccountBalance, get_set_eq]

/-- crediting an unlinked node credits its trial balance -/
theorem addNodeBalance_trial (s s' : Store) (id : String) (amt : Int) (hl : s.accounts.get id = none)
    (h : s.addNodeBalance id amt = .ok s') :
    (s'.nodeBalance id).credit = (s.nodeBalance id).credit + amt ∧ s'.balances = s.balances := by
  unfold addNodeBalance at h
  split at h
  · cases h
  · simp only [hl] at h; cases h; simp [nodeBalance, hl, get_set_eq]

/-- other wallets are untouched by a balance change -/
theorem addAccountBalance_frame (s : Store) (a a' : String) (amt : Int) (h : a ≠ a') :
    (s.addAccountBalance a amt).getAccountBalance a' = s.getAccountBalance a' := by
  simp [addAccountBalance, getAccountBalance, get_set_ne _ _ h]

theorem addAccountBalance_exact (s : Store) (a : String) (amt : Int) :
    ((s.addAccountBalance a amt).getAccountBalance a).credit = (s.getAccountBalance a).credit + amt ∧
    ((s.addAccountBalance a amt).getAccountBalance a).account = a := by
  simp [addAccountBalance, getAccountBalance, get_set_eq]

/-! ### active-host queries honour host flag, kind, recency and limit -/

theorem mem_eligible (s : Store) (kind : String) (now : Int) (n : Node) (h : n ∈ s.eligibleHosts kind now) :
    n.isHost = true ∧ (kind = "" ∨ n.kind = kind) ∧ now - W < n.lastSeen ∧ n ∈ s.nodes.vals := by
  simp only [eligibleHosts, List.mem_filter, isActiveHost, Bool.and_eq_true, Bool.or_eq_true, beq_iff_eq,
    decide_eq_true_eq] at h
  exact ⟨h.2.1.1, h.2.1.2, h.2.2, h.1⟩

/-- what the contract predicate (checked against every driver reply) guarantees -/
theorem activeHosts_contract (s : Store) (kind : String) (limit now : Int) (choice : List String)
    (h : s.validHostChoice kind limit now choice = true) :
    (∀ c ∈ choice, ∃ n ∈ s.nodes.vals, n.id = c ∧ n.isHost = true ∧ (kind = "" ∨ n.kind = kind) ∧ now - W < n.lastSeen) ∧
    choice.length = (if limit ≤ 0 then (s.eligibleHosts kind now).length
                     else min limit.toNat (s.eligibleHosts kind now).length) := by
  simp only [validHostChoice, Bool.and_eq_true, List.all_eq_true, List.contains_iff_mem, List.mem_map,
    beq_iff_eq, expectedHostCount, List.length_map] at h
  refine ⟨?_, ?_⟩
  · intro c hc
    obtain ⟨n, hn, rfl⟩ := h.1.1 c hc
    have := mem_eligible s kind now n hn
    exact ⟨n, this.2.2.2, rfl, this.1, this.2.1, this.2.2.1⟩
  · exact h.2

/-- `limit = 0` means unlimited, a positive limit caps the reply -/
theorem activeHosts_limit (s : Store) (kind : String) (limit now : Int) (choice : List String)
    (h : s.validHostChoice kind limit now choice = true) :
    (limit = 0 → choice.length = (s.eligibleHosts kind now).length) ∧
    (0 < limit → choice.length ≤ limit.toNat ∧ choice.length ≤ (s.eligibleHosts kind now).length) := by
  have := (activeHosts_contract s kind limit now choice h).2
  constructor
  · intro h0; simp [h0] at this; exact this
  · intro hp
    have hn : ¬ limit ≤ 0 := by omega
    simp [hn] at this
    omega

/-! ### statistics equal the true counts and sums -/

theorem filter_partition_length {α : Type} (l : List α) (p : α → Bool) :
    (l.filter p).length + (l.filter (fun x => !p x)).length = l.length := by
  induction l with
  | nil => rfl
  | cons h t ih => by_cases hp : p h <;> simp [List.filter, hp] <;> omega

theorem filter_length_mono {α : Type} (l : List α) (p q : α → Bool) (h : ∀ x, p x = true → q x = true) :
    (l.filter p).length ≤ (l.filter q).length := by
  induction l with
  | nil => simp
  | cons a t ih =>
    by_cases hp : p a = true
    · simp [List.filter, hp, h a hp]; exact ih
    · by_cases hq : q a = true
      · simp [List.filter, hp, hq]; omega
      · simp [List.filter, hp, hq]; exact ih

theorem stats_true_counts (s : Store) (now : Int) :
    (s.stats now).totalCredit = ledgerSum s ∧
    (s.stats now).totalHosts + (s.stats now).totalClients = s.nodes.length ∧
    (s.stats now).activeHosts ≤ (s.stats now).totalHosts ∧
    (s.stats now).activeClients ≤ (s.stats now).totalClients ∧
    (s.stats now).trialBalances ≤ s.balances.length + s.trials.length := by
  refine ⟨rfl, ?_, ?_, ?_, ?_⟩
  · have := filter_partition_length s.nodes.vals (·.isHost)
    simpa [stats, AList.vals] using this
  · simp only [stats]
    apply filter_length_mono
    intro n h; simp at h; exact h.1
  · simp only [stats]
    apply filter_length_mono
    intro n h; simp at h; simp [h.1]
  · simp only [stats]
    calc _ ≤ (s.balances.vals ++ s.trials.vals).length := List.length_filter_le _ _
      _ = _ := by simp [AList.vals]

/-! ### well-formedness invariant of every reachable store -/

def WF (s : Store) : Prop :=
  NoDupKeys s.nodes ∧ NoDupKeys s.accounts ∧ NoDupKeys s.balances ∧ NoDupKeys s.trials ∧ NoDupKeys s.nonces

theorem wf_empty : WF Store.empty := by simp [WF, Store.empty, NoDupKeys, AList.keys]

theorem wf_applyOp (s : Store) (op : Op) (h : WF s) : WF (applyOp s op) := by
  obtain ⟨h1, h2, h3, h4, h5⟩ := h
  cases op with
  | setNode n =>
    simp only [applyOp]; split
    · rename_i s' hs; unfold setNode at hs; split at hs <;> cases hs
      exact ⟨noDup_set _ _ _ h1, h2, h3, h4, h5⟩
    · exact ⟨h1, h2, h3, h4, h5⟩
  | unp id r b now =>
    simp only [applyOp]; split
    · rename_i s' i hs; unfold updateNodePeers at hs; split at hs <;> cases hs
      exact ⟨noDup_set _ _ _ h1, h2, h3, h4, h5⟩
    · exact ⟨h1, h2, h3, h4, h5⟩
  | addNodeBalance id amt =>
    simp only [applyOp]; split
    · rename_i s' hs; unfold addNodeBalance at hs
      split at hs
      · cases hs
      · split at hs <;> cases hs
        · exact ⟨h1, h2, noDup_set _ _ _ h3, h4, h5⟩
        · exact ⟨h1, h2, h3, noDup_set _ _ _ h4, h5⟩
    · exact ⟨h1, h2, h3, h4, h5⟩
  | addAccountBalance a amt => exact ⟨h1, h2, noDup_set _ _ _ h3, h4, h5⟩
  | addAccountNode a id =>
    simp only [applyOp]; split
    · rename_i s' hs; unfold addAccountNode at hs; split at hs <;> cases hs
      exact ⟨h1, noDup_set _ _ _ h2, noDup_set _ _ _ h3, noDup_del _ _ h4, h5⟩
    · exact ⟨h1, h2, h3, h4, h5⟩
  | nonce id n now =>
    simp only [applyOp]; split
    · rename_i s' hs; unfold checkAndSaveNonce at hs
      split at hs
      · cases hs
      · split at hs <;> cases hs
        exact ⟨h1, h2, h3, h4, noDup_set _ _ _ h5⟩
    · exact ⟨h1, h2, h3, h4, h5⟩

/-- every store reachable from the empty one by any history is well-formed -/
theorem wf_reachable (ops : List Op) : WF (run Store.empty ops) := by
  suffices ∀ s, WF s → WF (run s ops) from this _ wf_empty
  induction ops with
  | nil => intro s h; exact h
  | cons op ops ih => intro s h; exact ih _ (wf_applyOp s op h)

/-- non-vacuity: a concrete history in which a trial credit is migrated into a shared wallet -/
example :
    let s := run Store.empty [.setNode { id := "a" }, .setNode { id := "b" }, .addNodeBalance "a" 7,
      .addAccountNode "X" "a", .addAccountNode "X" "b", .addNodeBalance "b" (-2)]
    s.nodeBalance "a" = { account := "X", deposit := 0, credit := 5 } ∧ s.nodeBalance "b" = s.nodeBalance "a" ∧
    s.trials.get "a" = none ∧ ledgerSum s = 5 := by decide

end Vipnode.C12
