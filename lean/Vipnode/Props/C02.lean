/-
C02 — A light client pays elapsed × price per active peer; hosts never pay.

Theorems about `Model/Balance.lean` (`perinterval.go`) and the keep-alive
endpoint of `Model/Pool.lean`; tied to the code by the `pool-*` and `bal-*`
correspondence streams (manager clock injected through the `verif` hook,
elapsed times 0 … 2⁶³, prices beyond 2⁶⁴).
-/
import Vipnode.Lemmas.Pool
import Vipnode.Lemmas.Arith
namespace Vipnode.C02
open Vipnode Vipnode.AList
open Vipnode.Store (ledgerSum applyOp nodeBalance addNodeBalance)

/-- the amount each active peer is credited: floor(elapsed × price / interval), elapsed saturating
at the 64-bit duration range, unbounded price -/
theorem credit_formula (cfg : BalCfg) (now last : Int) :
    intervalCredit cfg now last = (clampI64 (now - last) * cfg.price) / cfg.interval := rfl

theorem clamp_id (x : Int) (h : i64min ≤ x ∧ x ≤ i64max) : clampI64 x = x := by
  unfold clampI64
  split
  · omega
  · split <;> omega

/-- crediting every peer, one store call each -/
def creditAll (s : Store) (c : Int) (ps : List String) : Store :=
  ps.foldl (fun s p => applyOp s (.addNodeBalance p c)) s

/-- without store faults and with registered peers (what `NodePeers` returns), every peer receives
exactly one `AddNodeBalance(credit)` and the amount to charge is `#peers × credit` -/
theorem creditPeers_spec (s : Store) (c : Int) (k : Nat) (ps : List String)
    (hreg : ∀ p ∈ ps, (s.nodes.get p).isSome) :
    creditPeers s c (fun _ => false) k ps = (creditAll s c ps, ps.length * c) := by
  induction ps generalizing s k with
  | nil => simp [creditPeers, creditAll]
  | cons p ps ih =>
    have hp := hreg p (List.mem_cons_self)
    obtain ⟨n, hn⟩ := Option.isSome_iff_exists.1 hp
    obtain ⟨s1, hs1⟩ := addNodeBalance_ok_of_registered s p c n hn
    have hnodes := (addNodeBalance_nodes s s1 p c hs1).1
    have hreg1 : ∀ q ∈ ps, (s1.nodes.get q).isSome := by
      intro q hq; rw [hnodes]; exact hreg q (List.mem_cons_of_mem _ hq)
    unfold creditPeers
    simp only [hs1, Bool.false_eq_true, if_false]
    rw [ih s1 (k + 1) hreg1]
    simp only [creditAll, List.foldl_cons, applyOp, hs1, List.length_cons]
    congr 1
    rw [Int.natCast_succ, Int.add_mul]; omega

/-- **accepted keep-alive of a light client**: every active peer is credited `credit` by one store
call, then the client is debited exactly `#peers × credit` -/
theorem update_charges (cfg : BalCfg) (s : Store) (d : AList Int) (n : Node) (peers : List String) (now : Int)
    (hc : n.isHost = false) (hset : ¬ (cfg.interval ≤ 0 ∨ cfg.price = 0))
    (hne : intervalCredit cfg now n.lastSeen ≠ 0)
    (hreg : ∀ p ∈ peers, (s.nodes.get p).isSome) (hn : (s.nodes.get n.id).isSome) :
    ∃ s2, (creditAll s (intervalCredit cfg now n.lastSeen) peers).addNodeBalance n.id
              (-(peers.length * intervalCredit cfg now n.lastSeen)) = .ok s2 ∧
          (onUpdate cfg s d n peers now).1 = s2 := by
  have hspec := creditPeers_spec s (intervalCredit cfg now n.lastSeen) 0 peers hreg
  have hnodes : (creditAll s (intervalCredit cfg now n.lastSeen) peers).nodes = s.nodes := by
    have := (creditPeers_frame s (intervalCredit cfg now n.lastSeen) (fun _ => false) 0 peers).1
    rw [hspec] at this; exact this
  obtain ⟨nn, hnn⟩ := Option.isSome_iff_exists.1 (by rw [hnodes]; exact hn :
    ((creditAll s (intervalCredit cfg now n.lastSeen) peers).nodes.get n.id).isSome)
  obtain ⟨s2, hs2⟩ := addNodeBalance_ok_of_registered _ n.id (-(peers.length * intervalCredit cfg now n.lastSeen)) nn hnn
  refine ⟨s2, hs2, ?_⟩
  unfold onUpdate
  simp only [hc, Bool.false_eq_true, if_false, hset, hne, hspec, hs2]
  split
  · rfl
  · split
    · split <;> rfl
    · rfl

/-- a full node's keep-alive moves nothing -/
theorem host_update_moves_nothing (cfg : BalCfg) (s : Store) (d : AList Int) (n : Node) (peers : List String)
    (now : Int) (fail : Nat → Bool) (h : n.isHost = true) : (onUpdate cfg s d n peers now fail).1 = s := by
  unfold onUpdate
  simp only
  split
  · split <;> rfl
  · rename_i hh; exact absurd h hh

/-- zero elapsed time (or an amount that rounds to zero) moves nothing -/
theorem zero_credit_moves_nothing (cfg : BalCfg) (s : Store) (d : AList Int) (n : Node) (peers : List String)
    (now : Int) (fail : Nat → Bool) (h : intervalCredit cfg now n.lastSeen = 0) :
    (onUpdate cfg s d n peers now fail).1 = s := by
  unfold onUpdate
  simp only
  split
  · split <;> rfl
  · split
    · rfl
    · split <;> rfl

theorem zero_elapsed_is_zero_credit (cfg : BalCfg) (t : Int) : intervalCredit cfg t t = 0 := by
  simp [intervalCredit, clampI64, i64max, i64min]

/-- invalid price/interval settings are refused before anything moves -/
theorem invalid_settings_move_nothing (cfg : BalCfg) (s : Store) (d : AList Int) (n : Node) (peers : List String)
    (now : Int) (fail : Nat → Bool) (hc : n.isHost = false) (h : cfg.interval ≤ 0 ∨ cfg.price = 0) :
    onUpdate cfg s d n peers now fail = (s, .error .invalidSettings) := by
  unfold onUpdate; simp [hc, h]

/-- an empty active-peer set changes no balance (the client is "debited" zero) -/
theorem no_peers_moves_nothing (cfg : BalCfg) (s : Store) (d : AList Int) (n : Node) (now : Int) (fail : Nat → Bool) :
    ∀ x, ((onUpdate cfg s d n [] now fail).1).nodeBalance x = s.nodeBalance x := by
  intro x
  unfold onUpdate
  simp only
  split
  · split <;> rfl
  · split
    · rfl
    · split
      · split <;> rfl
      · simp only [creditPeers]
        have key : ∀ s2, s.addNodeBalance n.id (-0) = .ok s2 → s2.nodeBalance x = s.nodeBalance x := by
          intro s2 h2
          unfold addNodeBalance at h2
          split at h2
          · cases h2
          · split at h2
            · rename_i a ha
              cases h2
              simp only [nodeBalance]
              cases hx : s.accounts.get x with
              | none => rfl
              | some a' =>
                simp only
                by_cases e : a = a'
                · subst e; rw [get_set_eq]; cases hb : s.balances.get a <;> simp
                · rw [get_set_ne _ _ e]
            · rename_i ha
              cases h2
              simp only [nodeBalance]
              cases hx : s.accounts.get x with
              | some a' => rfl
              | none =>
                simp only
                by_cases e : n.id = x
                · subst e; rw [get_set_eq]; cases hb : s.trials.get n.id <;> simp
                · rw [get_set_ne _ _ e]
        split
        · rfl
        · rename_i s2 h2
          have := key s2 h2
          split
          · exact this
          · split
            · split <;> exact this
            · exact this

/-! ### the total charged does not depend on how often the client updates -/

/-- elapsed slices of a schedule of keep-alive instants `t₀, t₁, …, tₖ` -/
def slices : List Int → List Int
  | a :: b :: t => (b - a) :: slices (b :: t)
  | _ => []

theorem slices_length (ts : List Int) : (slices ts).length = ts.length - 1 := by
  induction ts with
  | nil => rfl
  | cons a t ih =>
    cases t with
    | nil => rfl
    | cons b t' => simp only [slices, List.length_cons] at *; omega

/-- no stretch of time is skipped or charged twice: the slices of consecutive keep-alives add up to
exactly the wall-clock span -/
theorem slices_telescope (a : Int) (t : List Int) :
    sumInts (slices (a :: t)) = (a :: t).getLast (by simp) - a := by
  induction t generalizing a with
  | nil => simp [slices, sumInts]
  | cons b t ih =>
    have := ih b
    simp only [slices, sumInts, List.foldr_cons] at *
    rw [List.getLast_cons (by simp)]
    omega

theorem sumInts_map_mul (l : List Int) (c : Int) : sumInts (l.map (· * c)) = sumInts l * c := by
  induction l with
  | nil => simp [sumInts]
  | cons a t ih => simp only [sumInts, List.map_cons, List.foldr_cons] at *; rw [ih, Int.add_mul]

/-- **slicing**: billing a span `t₀ … tₖ` in `k` keep-alives charges each peer between
`whole − (k − 1)` and `whole`, where `whole` is what a single keep-alive over the span would charge —
for every schedule, every (unbounded) price, every positive interval -/
theorem slicing (price I : Int) (hI : 0 < I) (a b : Int) (t : List Int) :
    let ts := a :: b :: t
    let perUpdate := (slices ts).map (fun e => e * price / I)
    let whole := (ts.getLast (by simp) - a) * price / I
    sumInts perUpdate ≤ whole ∧ whole ≤ sumInts perUpdate + ((slices ts).length - 1 : Int) := by
  intro ts perUpdate whole
  have hne : (slices ts).map (· * price) ≠ [] := by simp [ts, slices]
  have h := sliced_floor_bounds I hI ((slices ts).map (· * price)) hne
  have htel : sumInts ((slices ts).map (· * price)) = (ts.getLast (by simp) - a) * price := by
    rw [sumInts_map_mul, slices_telescope]
  simp only [List.map_map, List.length_map] at h
  rw [htel] at h
  exact h

/-! ### the keep-alive endpoint bills from the previous check-in and then moves it -/

/-- An accepted (or low-balance) keep-alive bills the interval since the `LastSeen` recorded *before*
this keep-alive, and leaves `LastSeen = now`: consecutive keep-alives therefore bill consecutive,
disjoint intervals. -/
theorem keepalive_bills_since_previous (p p1 : Pool) (sigOk : Bool) (id : String) (nonce : Int)
    (reported : List String) (block : Nat) (now mnow : Int) (fail : Nat → Bool)
    (before : Node) (s2 : Store) (inactive : List String) (active : List Node)
    (hv : p.verify sigOk id nonce now = .ok p1)
    (hb : p1.store.getNode id = .ok before)
    (hu : p1.store.updateNodePeers id reported block now = .ok (s2, inactive))
    (ha : s2.nodePeers id = .ok active) :
    (p.Update sigOk id nonce reported block now mnow fail).1.store =
      (Pool.managerOnUpdate { p1 with store := s2 } before (active.map (·.id)) mnow fail).1 ∧
    ((p.Update sigOk id nonce reported block now mnow fail).1.store.getNode id).toOption.map (·.lastSeen) = some now := by
  have hstore : (p.Update sigOk id nonce reported block now mnow fail).1.store =
      (Pool.managerOnUpdate { p1 with store := s2 } before (active.map (·.id)) mnow fail).1 := by
    unfold Pool.Update
    simp only [hv, hb, hu, ha]
    generalize Pool.managerOnUpdate { p1 with store := s2 } before (active.map (·.id)) mnow fail = mo
    obtain ⟨s3, r⟩ := mo
    simp only
    split <;> rfl
  refine ⟨hstore, ?_⟩
  rw [hstore, Store.getNode, (Pool.managerOnUpdate_frame _ _ _ _ _).1]
  unfold Store.updateNodePeers at hu
  split at hu
  · cases hu
  · cases hu; simp [get_set_eq, Except.toOption]

/-- **a (re)connect restarts the billing clock**: whenever the registration got as far as storing the node - the
connect was accepted, or refused only for a low balance - the node's `LastSeen` is the pool's clock reading of that
connect, whatever was recorded before; by `keepalive_bills_since_previous` the next keep-alive then bills from the
connect, not from the time the node was last seen before it went away. -/
theorem connect_restarts_billing_clock (p : Pool) (conn : Option String) (src id : String) (req : Pool.ConnectReq) (now : Int)
    (h : (p.connect conn src id req now).2 = .ok () ∨ ∃ c m, (p.connect conn src id req now).2 = .error (.lowBalance c m)) :
    ((p.connect conn src id req now).1.store.getNode id).toOption.map (·.lastSeen) = some now := by
  unfold Pool.connect at h ⊢
  simp only at h ⊢
  split at h
  · rename_i e he
    -- the registration step only fails for want of a connection or of a usable address
    rcases h with h | ⟨c, m, h⟩
    · cases h
    · cases h
      exfalso
      split at he
      · split at he
        · cases he
        · split at he
          · cases he
          · split at he <;> cases he
      · cases he
  · rename_i p1 node hreg
    have hnode : node.id = id ∧ node.lastSeen = now := by
      split at hreg
      · split at hreg
        · cases hreg
        · split at hreg
          · cases hreg
          · split at hreg
            · cases hreg
            · cases hreg; exact ⟨rfl, rfl⟩
      · cases hreg; exact ⟨rfl, rfl⟩
    cases hs : p1.store.setNode node with
    | error e =>
      simp only [hs] at h
      rcases h with h | ⟨c, m, h⟩ <;> cases h
    | ok s =>
      simp only [hs]
      have hget : s.nodes.get id = some node := by
        unfold Store.setNode at hs
        split at hs
        · cases hs
        · cases hs; rw [← hnode.1]; exact get_set_eq _ _ _
      have : ∀ (x : Pool × Except PoolErr Unit), x.1.store = s →
          (x.1.store.getNode id).toOption.map (·.lastSeen) = some now := by
        intro x hx
        rw [hx, Store.getNode, hget]
        simp [Except.toOption, hnode.2]
      split <;> exact this _ rfl

/-- a refused keep-alive (bad signature or nonce) leaves every balance and every `LastSeen` untouched -/
theorem refused_keepalive_moves_nothing (p : Pool) (id : String) (nonce : Int) (reported : List String)
    (block : Nat) (now mnow : Int) (fail : Nat → Bool) (e : PoolErr)
    (hv : p.verify sigOk id nonce now = .error e) :
    (p.Update sigOk id nonce reported block now mnow fail).1 = p := by
  unfold Pool.Update; simp [hv]

/-! ### non-vacuity: a two-minute span billed in one, two or three keep-alives -/
example :
    let I : Int := 60000000000
    let price : Int := 18446744073709551629  -- beyond 2⁶⁴
    ((120000000000 * price) / I = 36893488147419103258) ∧
    (sumInts ((slices [0, 50000000001, 120000000000]).map (fun e => e * price / I)) = 36893488147419103257) ∧
    (sumInts ((slices [0, 1, 70000000000, 120000000000]).map (fun e => e * price / I)) = 36893488147419103257) := by
  decide

end Vipnode.C02
