/-
C03 — Minimum balance: clients below it are refused and cut off, others never are.

Decision logic of `perinterval.go` (`OnClient`, `OnUpdate`) and of the
keep-alive endpoint's cut-off, stated outright in both directions.
-/
import Vipnode.Lemmas.Pool
namespace Vipnode.C03
open Vipnode Vipnode.AList

/-- **connect**: a light client is refused exactly when a minimum is configured and its spendable
balance (deposit + credit) is below it, and the error reports that balance -/
theorem connect_refused_iff (cfg : BalCfg) (s : Store) (d : AList Int) (n : Node) (b : Bal)
    (hb : spendable s d n.id = .ok b) (cur m : Int) :
    onClient cfg s d n = .error (.lowBalance cur m) ↔
      cfg.minBalance = some m ∧ n.isHost = false ∧ cur = b.credit + b.deposit ∧ cur < m := by
  unfold onClient
  cases hm : cfg.minBalance with
  | none => simp
  | some m' =>
    simp only
    cases hh : n.isHost with
    | true => simp
    | false =>
      simp only [hb, Bool.false_eq_true, if_false]
      split
      · rename_i hlt
        constructor
        · intro h
          injection h with h; injection h with h1 h2
          subst h1; subst h2
          exact ⟨rfl, trivial, rfl, by omega⟩
        · intro ⟨h1, _, h3, _⟩; cases h1; subst h3; rfl
      · rename_i hge
        constructor
        · intro h; cases h
        · intro ⟨h1, _, h3, h4⟩; cases h1; subst h3; omega

/-- **a minimum of zero is a minimum**: it refuses exactly the clients that owe something -/
theorem zero_minimum_refuses_overdrawn (cfg : BalCfg) (s : Store) (d : AList Int) (n : Node) (b : Bal)
    (hb : spendable s d n.id = .ok b) (hm : cfg.minBalance = some 0) (hh : n.isHost = false)
    (hneg : b.credit + b.deposit < 0) :
    onClient cfg s d n = .error (.lowBalance (b.credit + b.deposit) 0) :=
  (connect_refused_iff cfg s d n b hb _ 0).2 ⟨hm, hh, rfl, hneg⟩

/-- a client at or above the minimum (or with no minimum configured) is accepted at connect -/
theorem connect_accepted (cfg : BalCfg) (s : Store) (d : AList Int) (n : Node) (b : Bal)
    (hb : spendable s d n.id = .ok b)
    (h : cfg.minBalance = none ∨ ∃ m, cfg.minBalance = some m ∧ m ≤ b.credit + b.deposit) :
    onClient cfg s d n = .ok () := by
  unfold onClient
  rcases h with h | ⟨m, hm, hle⟩
  · simp [h]
  · simp only [hm, hb]
    split
    · rfl
    · split
      · omega
      · rfl

/-- full-node hosts are never refused for their balance, at connect or at a keep-alive -/
theorem hosts_never_refused (cfg : BalCfg) (s : Store) (d : AList Int) (n : Node) (h : n.isHost = true) :
    (∀ c m, onClient cfg s d n ≠ .error (.lowBalance c m)) ∧
    (∀ peers now fail c m, (onUpdate cfg s d n peers now fail).2 ≠ .error (.lowBalance c m)) := by
  constructor
  · intro c m
    unfold onClient
    split
    · simp
    · simp [h]
  · intro peers now fail c m
    unfold onUpdate
    simp only
    split
    · split <;> simp
    · rename_i hh; exact absurd h hh

/-- **keep-alive**: the cut-off reports the balance *after* this keep-alive's charge, compared with the
configured minimum; it happens exactly when that balance is below the minimum -/
theorem update_cutoff_iff (cfg : BalCfg) (s : Store) (d : AList Int) (n : Node) (peers : List String) (now : Int)
    (fail : Nat → Bool) (cur m : Int) :
    (onUpdate cfg s d n peers now fail).2 = .error (.lowBalance cur m) ↔
      n.isHost = false ∧ ¬ (cfg.interval ≤ 0 ∨ cfg.price = 0) ∧ intervalCredit cfg now n.lastSeen ≠ 0 ∧
      cfg.minBalance = some m ∧
      ∃ b, spendable (onUpdate cfg s d n peers now fail).1 d n.id = .ok b ∧ cur = b.credit + b.deposit ∧ cur < m := by
  unfold onUpdate
  simp only
  split
  · rename_i hh
    constructor
    · intro h; split at h <;> cases h
    · intro ⟨h1, _⟩; simp [hh] at h1
  · rename_i hh
    have hh' : n.isHost = false := by cases h : n.isHost <;> simp_all
    split
    · rename_i hs
      constructor
      · intro h; cases h
      · intro ⟨_, h2, _⟩; exact absurd hs h2
    · rename_i hs
      split
      · rename_i hz
        constructor
        · intro h; split at h <;> cases h
        · intro ⟨_, _, h3, _⟩; exact absurd hz h3
      · rename_i hz
        generalize creditPeers s (intervalCredit cfg now n.lastSeen) fail 0 peers = cp
        obtain ⟨s1, total⟩ := cp
        simp only
        split
        · constructor
          · intro h; cases h
          · intro ⟨_, _, _, _, b, hb, _⟩
            obtain ⟨e, he⟩ : ∃ e, s1.addNodeBalance n.id (-total) = Except.error e := ⟨_, by assumption⟩
            -- the debit failed, so the node is unregistered and no balance can be read
            have hn : s1.nodes.get n.id = none := by
              unfold Store.addNodeBalance at he
              split at he
              · assumption
              · split at he <;> cases he
            simp [spendable, Store.getNodeBalance, hn] at hb
        · rename_i s2 hs2
          split
          · rename_i e he
            constructor
            · intro h; cases h
            · intro ⟨_, _, _, _, b, hb, _⟩; rw [he] at hb; cases hb
          · rename_i b hb
            split
            · rename_i m' hm'
              split
              · rename_i hlt
                simp only
                constructor
                · intro h; cases h; exact ⟨hh', hs, hz, hm', b, hb, rfl, by omega⟩
                · intro ⟨_, _, _, h4, b', hb', h5, _⟩
                  rw [hb] at hb'; cases hb'; rw [hm'] at h4; cases h4; subst h5; rfl
              · rename_i hge
                simp only
                constructor
                · intro h; cases h
                · intro ⟨_, _, _, h4, b', hb', h5, h6⟩
                  rw [hb] at hb'; cases hb'; rw [hm'] at h4; cases h4; subst h5; omega
            · rename_i hm'
              simp only
              constructor
              · intro h; cases h
              · intro ⟨_, _, _, h4, _⟩; rw [hm'] at h4; cases h4

/-- when the keep-alive cuts the client off, the pool asks exactly the connected hosts among the client's
active peers to disconnect it, each on the connection it is registered on; otherwise it asks nobody -/
theorem cutoff_disconnects (p : Pool) (sigOk : Bool) (id : String) (nonce : Int) (reported : List String)
    (block : Nat) (now mnow : Int) (fail : Nat → Bool)
    (r : Pool × Except PoolErr Pool.UpdateResp × List (String × String))
    (hr : r = p.Update sigOk id nonce reported block now mnow fail) :
    (∀ c m, r.2.1 = .error (.lowBalance c m) →
        ∃ active, r.1.store.nodePeers id = .ok active ∧
          r.2.2 = active.filterMap (fun n => (r.1.hosts.get n.id).map (fun c => (n.id, c)))) ∧
    ((∀ c m, r.2.1 ≠ .error (.lowBalance c m)) → r.2.2 = []) := by
  unfold Pool.Update at hr
  split at hr
  · rename_i e hv
    have := Pool.verify_error p sigOk id nonce now e hv
    subst this; subst hr; exact ⟨fun c m h => (by cases h), fun _ => rfl⟩
  · rename_i p1 hv
    split at hr
    · subst hr; exact ⟨fun c m h => (by cases h), fun _ => rfl⟩
    · rename_i before hb
      split at hr
      · subst hr; exact ⟨fun c m h => (by cases h), fun _ => rfl⟩
      · rename_i s2 inactive hu
        simp only at hr
        split at hr
        · subst hr; exact ⟨fun c m h => (by cases h), fun _ => rfl⟩
        · rename_i active ha
          have hf := Pool.managerOnUpdate_frame { p1 with store := s2 } before (active.map (·.id)) mnow fail
          generalize Pool.managerOnUpdate { p1 with store := s2 } before (active.map (·.id)) mnow fail = mo at hr hf
          obtain ⟨s3, res⟩ := mo
          simp only at hr hf
          have hpeers : Store.nodePeers s3 id = .ok active := by
            unfold Store.nodePeers Store.trackedPeers at *
            rw [hf.1, hf.2.1]; exact ha
          split at hr
          · subst hr
            refine ⟨fun c m _ => ⟨active, hpeers, rfl⟩, fun h => ?_⟩
            rename_i c m
            exact absurd rfl (h c m)
          · rename_i e hne
            subst hr
            refine ⟨fun c m h => ?_, fun _ => rfl⟩
            simp only at h
            cases e with
            | lowBalance c' m' => exact absurd rfl (hne c' m')
            | store e' => cases h
            | invalidSettings => cases h
          · subst hr; exact ⟨fun c m h => (by cases h), fun _ => rfl⟩

/-! ### non-vacuity: the situation of the defect that was repaired (DESIGN.md §9 F1)

balance 1 000 000, minimum 100 000, a charge of 1 000: the client stays connected (the original code
compared the *charge* with the minimum and cut it off); with balance 100 500 the same charge cuts it off
and reports 99 500. -/
example :
    let cfg : BalCfg := { price := 1000, minBalance := some 100000 }
    let s0 : Store := (Store.run Store.empty [.setNode { id := "h", isHost := true }, .setNode { id := "c" },
      .addNodeBalance "c" 1000000])
    let s1 : Store := (Store.run Store.empty [.setNode { id := "h", isHost := true }, .setNode { id := "c" },
      .addNodeBalance "c" 100500])
    (onUpdate cfg s0 [] { id := "c" } ["h"] 60000000000).2 = .ok { credit := 999000 } ∧
    (onUpdate cfg s1 [] { id := "c" } ["h"] 60000000000).2 = .error (.lowBalance 99500 100000) := by
  refine ⟨?_, ?_⟩ <;> rfl

end Vipnode.C03
