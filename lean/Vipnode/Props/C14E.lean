/-
C14/C15 — the end of a connection (`Remote.endServe`, the `<-r.servedChan()` arm of `receiveFrom`).

When the read loop of a connection returns, nothing will ever be delivered again.  These theorems say what the
callers that are still waiting see, for every state an honest run can reach and every number of calls in progress:
none of them stays pending, a reply that had already been delivered is still the one its caller returns, and the
bookkeeping invariant of `Props/C14.lean` survives.
-/
import Vipnode.Props.C14
namespace Vipnode.C14
open Vipnode Vipnode.Rpc

theorem abandon_shape (r : Rpc) (id : Nat) :
    (r.abandon id).pending = (r.dropPending id).pending ∧ (r.abandon id).nextId = r.nextId ∧
    ((r.abandon id).live = r.live.filter (·.id != id) ∨ ((r.abandon id).live = r.live ∧ ∀ c ∈ r.live, c.id ≠ id)) := by
  unfold abandon
  simp only
  split
  · rename_i hfind
    refine ⟨rfl, rfl, Or.inr ⟨rfl, ?_⟩⟩
    intro c hc e
    have := List.find?_eq_none.1 hfind c (by simpa [dropPending] using hc)
    simp [e] at this
  · split <;> exact ⟨rfl, rfl, Or.inl rfl⟩

theorem complete_ended (r : Rpc) (id : Nat) (m : RpcReply) : (r.complete id m).ended = r.ended := by
  unfold complete; simp only; split
  · rfl
  · split <;> rfl

theorem abandon_ended (r : Rpc) (id : Nat) : (r.abandon id).ended = r.ended := by
  unfold abandon; simp only; split
  · rfl
  · split <;> rfl

theorem complete_handlers (r : Rpc) (id : Nat) (m : RpcReply) : ∀ h ∈ (r.complete id m).handlers, h ∈ r.handlers := by
  unfold complete; simp only; split
  · intro h hh; exact hh
  · split
    · intro h hh; exact (List.mem_filter.1 hh).1
    · intro h hh; exact hh

theorem abandon_handlers (r : Rpc) (id : Nat) : ∀ h ∈ (r.abandon id).handlers, h ∈ r.handlers := by
  unfold abandon; simp only; split
  · intro h hh; exact hh
  · split
    · intro h hh; exact (List.mem_filter.1 hh).1
    · intro h hh; exact hh

theorem complete_finished_mono (r : Rpc) (id : Nat) (m : RpcReply) : ∀ x ∈ r.finished, x ∈ (r.complete id m).finished := by
  unfold complete; simp only; split
  · intro x hx; exact hx
  · split
    · intro x hx; exact hx
    · intro x hx; exact List.mem_append_left _ hx

theorem abandon_finished_mono (r : Rpc) (id : Nat) : ∀ x ∈ r.finished, x ∈ (r.abandon id).finished := by
  unfold abandon; simp only; split
  · intro x hx; exact hx
  · split
    · intro x hx; exact hx
    · intro x hx; exact List.mem_append_left _ hx

theorem observeEnd_ended (r : Rpc) (id : Nat) : (r.observeEnd id).ended = r.ended := by
  unfold observeEnd
  split
  · rfl
  · split
    · rfl
    · split
      · exact complete_ended _ _ _
      · exact abandon_ended _ _

theorem observeEnd_handlers (r : Rpc) (id : Nat) : ∀ h ∈ (r.observeEnd id).handlers, h ∈ r.handlers := by
  unfold observeEnd
  split
  · intro h hh; exact hh
  · split
    · intro h hh; exact hh
    · split
      · exact complete_handlers _ _ _
      · exact abandon_handlers _ _

theorem observeEnd_finished_mono (r : Rpc) (id : Nat) : ∀ x ∈ r.finished, x ∈ (r.observeEnd id).finished := by
  unfold observeEnd
  split
  · intro x hx; exact hx
  · split
    · intro x hx; exact hx
    · split
      · exact complete_finished_mono _ _ _
      · exact abandon_finished_mono _ _

/-- the caller that observes the end leaves the set of calls in progress; nobody else does -/
theorem observeEnd_live (r : Rpc) (id : Nat) (he : r.ended = true) :
    (r.observeEnd id).live = r.live.filter (·.id != id) := by
  unfold observeEnd
  simp only [he, Bool.not_true, Bool.false_eq_true, if_false]
  split
  · rename_i hfind
    rw [filter_noop]
    intro c hc e
    have := List.find?_eq_none.1 hfind c hc
    simp [e] at this
  · split
    · rcases (complete_shape r id _).2.2 with h | ⟨h, hno⟩
      · exact h
      · rw [h, filter_noop _ _ hno]
    · rcases (abandon_shape r id).2.2 with h | ⟨h, hno⟩
      · exact h
      · rw [h, filter_noop _ _ hno]

theorem foldl_observeEnd_ended (ids : List Nat) (r : Rpc) : (ids.foldl observeEnd r).ended = r.ended := by
  induction ids generalizing r with
  | nil => rfl
  | cons i t ih => simp only [List.foldl_cons]; rw [ih, observeEnd_ended]

theorem foldl_observeEnd_live (ids : List Nat) (r : Rpc) (he : r.ended = true) :
    (ids.foldl observeEnd r).live = r.live.filter (fun c => !ids.contains c.id) := by
  induction ids generalizing r with
  | nil =>
    have : (fun (c : LiveCall) => !([] : List Nat).contains c.id) = fun _ => true := by funext c; simp
    simp only [List.foldl_nil, this]; exact (List.filter_eq_self.2 (fun _ _ => rfl)).symm
  | cons i t ih =>
    simp only [List.foldl_cons]
    rw [ih _ (by rw [observeEnd_ended]; exact he), observeEnd_live r i he, List.filter_filter]
    apply List.filter_congr
    intro c _
    by_cases hci : c.id = i
    · simp [hci]
    · simp [hci]

theorem foldl_observeEnd_finished_mono (ids : List Nat) (r : Rpc) :
    ∀ x ∈ r.finished, x ∈ (ids.foldl observeEnd r).finished := by
  induction ids generalizing r with
  | nil => intro x hx; exact hx
  | cons i t ih => intro x hx; exact ih _ x (observeEnd_finished_mono r i x hx)

/-- **no call outlives its connection**: once the read loop has ended and the callers in progress have looked,
none of them is still waiting — however many there were, whatever state the table was in (the repaired defect
`76e57ed`: before it, `receiveFrom` had no arm for this and every one of them waited forever) -/
theorem end_releases_every_call (r : Rpc) : r.serveEnd.releaseAll.live = [] := by
  unfold releaseAll
  rw [foldl_observeEnd_live _ _ rfl]
  rw [List.filter_eq_nil_iff]
  intro c hc
  have : (List.map (fun x => x.id) r.serveEnd.live).contains c.id = true := by
    rw [List.contains_iff_mem]; exact List.mem_map.2 ⟨c, hc, rfl⟩
  rw [this]; simp

theorem find_live (l : List LiveCall) (hnd : (l.map (·.id)).Nodup) (c : LiveCall) (hc : c ∈ l) :
    l.find? (·.id == c.id) = some c := by
  cases hf : l.find? (·.id == c.id) with
  | none => have := List.find?_eq_none.1 hf c hc; simp at this
  | some d =>
    have hdm := List.mem_of_find?_eq_some hf
    have hdid : d.id = c.id := by simpa using List.find?_some hf
    rw [live_unique l hnd d c hdm hc hdid]

/-- what one plain call returns when it observes the end: the reply that was already delivered to its slot if
there is one (the inner `select` of `receiveFrom`), the connection's error otherwise -/
theorem observeEnd_plain (r : Rpc) (c : LiveCall) (he : r.ended = true) (hnd : (r.live.map (·.id)).Nodup)
    (hc : c ∈ r.live) (hplain : ∀ hd ∈ r.handlers, hd.callId ≠ c.id) :
    (r.observeEnd c.id).finished = r.finished ++
      [(c.token, match (r.slot? c.id).bind (·.buf) with | some m => resultOf m | none => .closed)] := by
  have hfindc := find_live r.live hnd c hc
  have hfd : (r.dropPending c.id).live.find? (·.id == c.id) = some c := by simpa [dropPending] using hfindc
  have hnoh : (r.dropPending c.id).handlers.find? (·.callId == c.id) = none := by
    rw [List.find?_eq_none]
    intro hd hdm
    have : hd ∈ r.handlers := by simpa [dropPending] using hdm
    simpa using hplain hd this
  have hnoh' : ({ (r.dropPending c.id) with live := (r.dropPending c.id).live.filter (·.id != c.id) } : Rpc).handlers.find? (·.callId == c.id) = none := hnoh
  unfold observeEnd
  simp only [he, Bool.not_true, Bool.false_eq_true, if_false, hfindc]
  cases hb : (r.slot? c.id).bind (·.buf) with
  | some m =>
    simp only
    unfold complete
    simp only [hfd, hnoh']
    rfl
  | none =>
    simp only
    unfold abandon
    simp only [hfd, hnoh']
    rfl

/-- **a delivered reply survives the end of the connection**: the reply to a live plain call that reached its slot
before the read loop ended is what the call returns -/
theorem end_keeps_delivered_reply (g : G) (c : LiveCall) (s : Slot) (m : RpcReply) (h : Inv g) (he : g.r.ended = true)
    (hc : c ∈ g.r.live) (hplain : ∀ hd ∈ g.r.handlers, hd.callId ≠ c.id)
    (hs : s ∈ g.r.pending) (hid : s.id = c.id) (hbuf : s.buf = some m) :
    (g.r.observeEnd c.id).finished = g.r.finished ++ [(c.token, resultOf m)] := by
  have hslot : g.r.slot? c.id = some s := by rw [← hid]; exact slot?_of_mem _ h.1 s hs
  rw [observeEnd_plain g.r c he h.2.2.2.2.1 hc hplain, hslot]
  simp [hbuf]

/-- **a call that has no reply when its connection ends fails with the connection's error** — it does not hang,
and it does not invent a result -/
theorem end_without_reply_fails (g : G) (c : LiveCall) (s : Slot) (h : Inv g) (he : g.r.ended = true)
    (hc : c ∈ g.r.live) (hplain : ∀ hd ∈ g.r.handlers, hd.callId ≠ c.id)
    (hs : s ∈ g.r.pending) (hid : s.id = c.id) (hbuf : s.buf = none) :
    (g.r.observeEnd c.id).finished = g.r.finished ++ [(c.token, .closed)] := by
  have hslot : g.r.slot? c.id = some s := by rw [← hid]; exact slot?_of_mem _ h.1 s hs
  rw [observeEnd_plain g.r c he h.2.2.2.2.1 hc hplain, hslot]
  simp [hbuf]

theorem foldl_observeEnd_returns (ids : List Nat) (r : Rpc) (c : LiveCall) (he : r.ended = true)
    (hnd : (r.live.map (·.id)).Nodup) (hc : c ∈ r.live) (hplain : ∀ hd ∈ r.handlers, hd.callId ≠ c.id)
    (hin : c.id ∈ ids) : ∃ res, (c.token, res) ∈ (ids.foldl observeEnd r).finished := by
  induction ids generalizing r with
  | nil => simp at hin
  | cons i t ih =>
    simp only [List.foldl_cons]
    by_cases hi : i = c.id
    · subst hi
      have := observeEnd_plain r c he hnd hc hplain
      refine ⟨match (r.slot? c.id).bind (·.buf) with | some m => resultOf m | none => .closed,
        foldl_observeEnd_finished_mono t _ _ ?_⟩
      rw [this]; exact List.mem_append_right _ (List.mem_singleton.2 rfl)
    · have hin' : c.id ∈ t := by
        rcases List.mem_cons.1 hin with e | e
        · exact absurd e.symm hi
        · exact e
      have hl := observeEnd_live r i he
      refine ih (r.observeEnd i) (by rw [observeEnd_ended]; exact he) ?_ ?_ ?_ hin'
      · rw [hl]; exact (List.filter_sublist.map _).nodup hnd
      · rw [hl, List.mem_filter]; exact ⟨hc, by simpa using fun e => hi e.symm⟩
      · intro hd hdm; exact hplain hd (observeEnd_handlers r i hd hdm)

/-- **every call returns**: for every state an honest run reaches, once the connection ends every plain call in
progress has a result (its own delivered reply, or the connection's error) -/
theorem end_every_call_returns (limit discard : Nat) (evs : List Ev)
    (hon : HonestRun { r := { limit := limit, discard := discard } } evs) :
    let g := evs.foldl step { r := { limit := limit, discard := discard } }
    ∀ c ∈ g.r.live, (∀ hd ∈ g.r.handlers, hd.callId ≠ c.id) →
      ∃ res, (c.token, res) ∈ g.r.serveEnd.releaseAll.finished := by
  intro g c hc hplain
  have hinv := inv_run _ evs (inv_init limit discard) hon
  exact foldl_observeEnd_returns _ g.r.serveEnd c rfl hinv.2.2.2.2.1 hc hplain (List.mem_map.2 ⟨c, hc, rfl⟩)

/-- the bookkeeping invariant survives the end: a caller observing it removes exactly its own slot and call -/
theorem inv_observeEnd (g : G) (id : Nat) (h : Inv g) : Inv { g with r := g.r.observeEnd id } := by
  unfold observeEnd
  split
  · exact h
  · split
    · exact h
    · split
      · exact inv_complete g id _ h
      · obtain ⟨h1, h2, h3⟩ := abandon_shape g.r id
        rcases h3 with h3 | ⟨h3, h4⟩
        · exact inv_remove g _ id h h1 h3 h2
        · exact inv_remove g _ id h h1 (by rw [h3, filter_noop _ _ h4]) h2

theorem inv_serveEnd (g : G) (h : Inv g) : Inv { g with r := g.r.serveEnd } := h

/-- non-vacuity: two calls in progress, one already answered; the connection ends; both return, the answered one
with its reply -/
example :
    let r0 : Rpc := {}
    let r1 := (r0.callBegin "a" "echo" "x").1
    let r2 := (r1.callBegin "b" "echo" "y").1
    let r3 := (r2.deliverReply 1 (.result "pa")).getD r2
    r3.serveEnd.releaseAll.finished = [("a", .returned "pa"), ("b", .closed)] ∧ r3.serveEnd.releaseAll.live = [] ∧
      r3.serveEnd.releaseAll.pending = [] := by decide

/-! ### replies nobody asked for

A reply whose id has no slot, or whose slot is empty (a late answer to a call that gave up, an answer under an id
that was never issued), is parked in a one-message slot: the read loop goes on, and so it still sees the connection
end (`strayclose`, seeded change C09-r5 made the slots zero-message).  A *second* reply under the same id finds the
slot full: that one does block the loop — the flood C15 sets aside. -/

/-- **one stray reply never blocks the read loop** -/
theorem stray_reply_never_blocks (r : Rpc) (id : Nat) (m : RpcReply) (hn : NodupIds r.pending)
    (hfree : ∀ s ∈ r.pending, s.id = id → s.buf = none) : (r.deliverReply id m).isSome = true := by
  obtain ⟨s1, ⟨s, hs, hid, _, hbuf⟩, _⟩ := pendingChan_spec r id false hn
  have hnone : s.buf = none := by
    rcases hbuf with hb | ⟨s0, hs0, hid0, hb0⟩
    · exact hb
    · rw [← hb0]; exact hfree s0 hs0 hid0
  have hslot : (r.pendingChan id false).slot? id = some s := by
    have := slot?_of_mem (r.pendingChan id false) s1 s hs
    rw [hid] at this; exact this
  unfold deliverReply
  simp only [hslot, hnone]
  rfl

/-- the excluded flood, on the smallest state: two unsolicited replies under one id; the second finds the slot full -/
theorem duplicate_stray_reply_blocks :
    let r0 : Rpc := {}
    ((r0.deliverReply 7 (.result "x")).bind (fun r1 => r1.deliverReply 7 (.result "y"))) = none := by decide

end Vipnode.C14
