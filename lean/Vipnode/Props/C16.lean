/-
C16 — Only registered RPC names are callable, with exactly their declared parameters.

Theorems about `Model/Server.lean` (`Server.Register`, `Server.Handle`,
`parsePositionalArguments`).  The production surface is a regenerated fact:
`Facts.servedRpc` is obtained on every run by probing the *built pool binary*
(started with the memory store on a loopback port) with every candidate name
derived by reflection from the objects behind the RPC services.
-/
import Vipnode.Model.Server
import Vipnode.Lemmas.AList
import Vipnode.Generated.Facts
namespace Vipnode.C16
open Vipnode Vipnode.AList

def allowed (allow : List String) (m : String) : Bool := allow.isEmpty || allow.contains (lowerFirst m)

theorem register_get (reg : AList Method) (pre : String) (methods : List (String × Method)) (allow : List String)
    (name : String) :
    ((register reg pre methods allow).get name).isSome ↔
      (reg.get name).isSome ∨ ∃ m ∈ methods, allowed allow m.1 = true ∧ name = rpcName pre m.1 := by
  induction methods generalizing reg with
  | nil => simp [register]
  | cons m ms ih =>
    simp only [register, List.foldl_cons] at ih ⊢
    by_cases ha : allowed allow m.1 = true
    · have ha' : (allow.isEmpty || allow.contains (lowerFirst m.1)) = true := ha
      rw [if_pos ha', ih]
      constructor
      · intro h
        rcases h with h | ⟨m', hm', h1, h2⟩
        · by_cases e : rpcName pre m.1 = name
          · right; exact ⟨m, List.mem_cons_self, ha, e.symm⟩
          · rw [get_set_ne _ _ e] at h; exact Or.inl h
        · right; exact ⟨m', List.mem_cons_of_mem _ hm', h1, h2⟩
      · intro h
        rcases h with h | ⟨m', hm', h1, h2⟩
        · by_cases e : rpcName pre m.1 = name
          · left; rw [← e, get_set_eq]; rfl
          · left; rw [get_set_ne _ _ e]; exact h
        · rcases List.mem_cons.1 hm' with rfl | hm'
          · left; rw [h2, get_set_eq]; rfl
          · right; exact ⟨m', hm', h1, h2⟩
    · have ha' : ¬ (allow.isEmpty || allow.contains (lowerFirst m.1)) = true := ha
      rw [if_neg ha', ih]
      constructor
      · intro h
        rcases h with h | ⟨m', hm', h1, h2⟩
        · exact Or.inl h
        · right; exact ⟨m', List.mem_cons_of_mem _ hm', h1, h2⟩
      · intro h
        rcases h with h | ⟨m', hm', h1, h2⟩
        · exact Or.inl h
        · rcases List.mem_cons.1 hm' with rfl | hm'
          · exact absurd h1 ha
          · right; exact ⟨m', hm', h1, h2⟩

/-- **exposed exactly**: a fresh server exposes `name` iff it is prefix + lower-cased-first-letter of an
exported method of the receiver, restricted to the allow-list when one is given -/
theorem exposed_exactly (pre : String) (methods : List (String × Method)) (allow : List String) (name : String) :
    ((register [] pre methods allow).get name).isSome ↔
      ∃ m ∈ methods, name = rpcName pre m.1 ∧ (allow = [] ∨ lowerFirst m.1 ∈ allow) := by
  rw [register_get]
  simp only [get_nil, Option.isSome_none, Bool.false_eq_true, false_or, allowed, Bool.or_eq_true,
    List.isEmpty_iff, List.contains_iff_mem]
  constructor
  · intro ⟨m, hm, h1, h2⟩; exact ⟨m, hm, h2, h1⟩
  · intro ⟨m, hm, h1, h2⟩; exact ⟨m, hm, h2, h1⟩

/-- unknown names get method-not-found and nothing runs -/
theorem unknown_not_found (reg : AList Method) (name : String) (ps : Params) (h : reg.get name = none) :
    handle reg true name ps = (.methodNotFound, false) := by
  simp [handle, h]

/-- **wrong parameters are answered with invalid-params and the method is not run** -/
theorem bad_params_not_run (reg : AList Method) (name : String) (ps : Params) (m : Method)
    (hm : reg.get name = some m) (hbad : parsePositional ps m.types = false) :
    handle reg true name ps = (.invalidParams, false) := by
  simp [handle, hm, hbad]

/-- the method runs only when every supplied parameter decodes and none is missing -/
theorem runs_only_if_well_typed (reg : AList Method) (name : String) (ps : Params)
    (h : (handle reg true name ps).2 = true) :
    ∃ m, reg.get name = some m ∧ parsePositional ps m.types = true := by
  unfold handle at h
  simp only [Bool.not_true, Bool.false_eq_true, if_false] at h
  cases hm : reg.get name with
  | none => simp [hm] at h
  | some m =>
    simp only [hm] at h
    by_cases hp : parsePositional ps m.types = true
    · exact ⟨m, rfl, hp⟩
    · simp [hp] at h

/-- too many positional parameters are invalid -/
theorem too_many_invalid (l : List JKind) (types : List GoType) (h : types.length < l.length) :
    parsePositional (.array l) types = false := by
  have : decodeArgs l types = false := by
    induction l generalizing types with
    | nil => simp at h
    | cons k ks ih =>
      cases types with
      | nil => rfl
      | cons t ts =>
        simp only [decodeArgs, Bool.and_eq_false_iff]
        right; exact ih ts (by simpa using h)
  simp [parsePositional, this]

/-- too few: a missing required (non-pointer) parameter is invalid — including absent or null `params` -/
theorem too_few_invalid (ps : Params) (types : List GoType) (t : GoType) (ht : isPtr t = false)
    (supplied : Nat) (hs : match ps with | .array l => l.length = supplied | .absent => supplied = 0 | .null => supplied = 0 | .nonArray => True)
    (hmiss : types[supplied]? = some t) : parsePositional ps types = false := by
  cases ps with
  | nonArray => rfl
  | absent =>
    simp only at hs; subst hs
    cases types with
    | nil => simp at hmiss
    | cons t' ts => simp at hmiss; subst hmiss; simp [parsePositional, ht]
  | null =>
    simp only at hs; subst hs
    cases types with
    | nil => simp at hmiss
    | cons t' ts => simp at hmiss; subst hmiss; simp [parsePositional, ht]
  | array l =>
    simp only at hs; subst hs
    simp only [parsePositional, Bool.and_eq_false_iff]
    right
    have : (types.drop l.length)[0]? = some t := by rw [List.getElem?_drop]; simpa using hmiss
    cases hd : types.drop l.length with
    | nil => rw [hd] at this; simp at this
    | cons a as => rw [hd] at this; simp at this; subst this; simp [ht]

/-- a wrongly typed parameter at any position is invalid -/
theorem wrong_type_invalid (l : List JKind) (types : List GoType) (i : Nat) (k : JKind) (t : GoType)
    (hk : l[i]? = some k) (ht : types[i]? = some t) (hc : compat k t = false) :
    parsePositional (.array l) types = false := by
  have : decodeArgs l types = false := by
    induction l generalizing types i with
    | nil => simp at hk
    | cons k' ks ih =>
      cases types with
      | nil => rfl
      | cons t' ts =>
        cases i with
        | zero => simp at hk ht; subst hk; subst ht; simp [decodeArgs, hc]
        | succ j =>
          simp only [decodeArgs, Bool.and_eq_false_iff]
          right; exact ih ts j (by simpa using hk) (by simpa using ht)
  simp [parsePositional, this]

/-- well-typed, complete parameter lists run the method exactly once -/
theorem good_params_run (reg : AList Method) (name : String) (ps : Params) (m : Method)
    (hm : reg.get name = some m) (hok : parsePositional ps m.types = true) :
    (handle reg true name ps).2 = true ∧ (handle reg true name ps).1 ≠ .invalidParams ∧
    (handle reg true name ps).1 ≠ .methodNotFound := by
  simp only [handle, hm, hok, Bool.not_true, Bool.false_eq_true, if_false, if_true]
  cases m.fails <;> simp

/-- the documented RPC surface of the pool binary -/
def documentedApi : List String :=
  ["pool_account", "pool_addNode", "pool_status", "pool_withdraw",
   "vipnode_client", "vipnode_connect", "vipnode_host", "vipnode_peer", "vipnode_ping", "vipnode_update"]

/-- **the pool binary serves exactly its documented calls** — and nothing else of the underlying objects
(`CloseRemote`, `NumRemotes`, `Verify`, store accessors, …): re-proved on every run against the names the
built binary actually answers -/
theorem production_surface : Facts.servedRpc = documentedApi := by decide

/-- what the registry's own reflection registers agrees with what the binary serves -/
theorem registration_matches_binary : Facts.registeredRpc = Facts.servedRpc := by decide

/-- non-vacuity: a receiver with a helper method, registered with an allow-list -/
example :
    let ms : List (String × Method) := [("Ping", { types := [] }), ("Update", { types := [.str, .str, .int, .obj] }), ("CloseRemote", { types := [.obj] })]
    let reg := register [] "vipnode_" ms ["ping", "update"]
    handle reg true "vipnode_update" (.array [.str, .str, .int, .obj]) = (.result, true) ∧
    handle reg true "vipnode_update" (.array [.str, .str, .str, .obj]) = (.invalidParams, false) ∧
    handle reg true "vipnode_update" .absent = (.invalidParams, false) ∧
    handle reg true "vipnode_closeRemote" (.array [.obj]) = (.methodNotFound, false) ∧
    handle reg true "vipnode_Update" (.array [.str, .str, .int, .obj]) = (.methodNotFound, false) := by decide

end Vipnode.C16
