/-
C11 — Peers that stop checking in are declared invalid and dropped; live ones never.

Theorems about `Store.updateNodePeers` (both drivers' `UpdateNodePeers`) and
about how the keep-alive endpoint maps its result into the reply.
-/
import Vipnode.Lemmas.Pool
namespace Vipnode.C11
open Vipnode Vipnode.AList
open Vipnode.Store (refreshPeers updateNodePeers trackedPeers nodePeers)

/-- the timestamp recorded for `p` after processing the report: the peer's own `LastSeen` if it is a
registered node that was reported, otherwise whatever was tracked before -/
theorem refreshPeers_get (nodes : AList Node) (tracked : AList Int) (reported : List String) (p : String) :
    (refreshPeers nodes tracked reported).get p =
      if p ∈ reported then
        match nodes.get p with
        | some pn => some pn.lastSeen
        | none => tracked.get p
      else tracked.get p := by
  induction reported generalizing tracked with
  | nil => simp [refreshPeers]
  | cons q qs ih =>
    unfold refreshPeers
    cases hq : nodes.get q with
    | none =>
      simp only
      rw [ih]
      by_cases e : p = q
      · subst e; simp [hq]
      · simp [e]
    | some qn =>
      simp only
      rw [ih]
      by_cases e : p = q
      · subst e; simp [hq, get_set_eq]
      · have e' : q ≠ p := fun h => e h.symm
        simp [e, get_set_ne _ _ e']

/-- ids the pool does not know are never tracked -/
theorem unknown_never_tracked (nodes : AList Node) (tracked : AList Int) (reported : List String) (p : String)
    (hu : nodes.get p = none) (ht : tracked.get p = none) : (refreshPeers nodes tracked reported).get p = none := by
  rw [refreshPeers_get]; simp [hu, ht]

/-- reporting a peer twice is the same as reporting it once -/
theorem duplicates_idempotent (nodes : AList Node) (tracked : AList Int) (reported : List String) (p q : String) :
    (refreshPeers nodes tracked (q :: q :: reported)).get p = (refreshPeers nodes tracked (q :: reported)).get p := by
  rw [refreshPeers_get, refreshPeers_get]; simp

theorem mem_filter_keys (l : AList Int) (f : String × Int → Bool) (hn : NoDupKeys l) (p : String) :
    p ∈ (l.filter f).map (·.1) ↔ ∃ ts, l.get p = some ts ∧ f (p, ts) = true := by
  induction l with
  | nil => simp [AList.get]
  | cons hd t ih =>
    obtain ⟨k, v⟩ := hd
    simp only [NoDupKeys, keys_cons, List.nodup_cons] at hn
    have iht := ih hn.2
    by_cases hk : k = p
    · subst hk
      have hnot : ¬ ∃ ts, AList.get t k = some ts ∧ f (k, ts) = true := by
        intro ⟨ts, h1, _⟩; rw [get_none_of_not_mem t k hn.1] at h1; cases h1
      by_cases hf : f (k, v) = true
      · simp [List.filter, hf, AList.get]
      · simp only [List.filter, hf, AList.get, if_true]
        rw [iht]
        constructor
        · intro h; exact absurd h hnot
        · intro ⟨ts, h1, h2⟩; cases h1; exact absurd h2 hf
    · by_cases hf : f (k, v) = true
      · simp only [List.filter, hf, List.map_cons, List.mem_cons, AList.get, hk, if_false]
        rw [iht]
        constructor
        · intro h; rcases h with h | h
          · exact absurd h.symm hk
          · exact h
        · intro h; exact Or.inr h
      · simp only [List.filter, hf, AList.get, hk, if_false]; exact iht

/-- the tracked-peer table of a node has distinct keys in every well-formed store (built by `set`) -/
def PeersWF (s : Store) : Prop := ∀ id, NoDupKeys (s.trackedPeers id)

theorem noDup_refresh (nodes : AList Node) (tracked : AList Int) (reported : List String) (h : NoDupKeys tracked) :
    NoDupKeys (refreshPeers nodes tracked reported) := by
  induction reported generalizing tracked with
  | nil => exact h
  | cons q qs ih =>
    unfold refreshPeers
    split
    · exact ih _ (noDup_set _ _ _ h)
    · exact ih _ h

/-- **declared invalid exactly if** the peer is reported now or still tracked, and its own last check-in —
as recorded the last time the node reported it — is not newer than `now − W` -/
theorem invalid_iff (s s' : Store) (id : String) (reported : List String) (block : Nat) (now : Int)
    (inactive : List String) (hwf : NoDupKeys (s.trackedPeers id))
    (h : s.updateNodePeers id reported block now = .ok (s', inactive)) (p : String) :
    p ∈ inactive ↔
      ∃ n ts, s.nodes.get id = some n ∧
        (refreshPeers (s.nodes.set id { n with lastSeen := now, block := block }) (s.trackedPeers id) reported).get p = some ts ∧
        ts ≤ now - W := by
  simp only [trackedPeers] at hwf ⊢
  unfold updateNodePeers at h
  split at h
  · cases h
  · rename_i n hn
    cases h
    have hnd := noDup_refresh (s.nodes.set id { n with lastSeen := now, block := block }) ((s.peers.get id).getD []) reported hwf
    rw [mem_filter_keys _ _ hnd]
    constructor
    · intro ⟨ts, h1, h2⟩; exact ⟨n, ts, hn, h1, by simpa using h2⟩
    · intro ⟨n', ts, h0, h1, h2⟩; rw [hn] at h0; cases h0; exact ⟨ts, h1, by simpa using h2⟩

/-- every other tracked peer stays in the active set; declared-invalid ones are forgotten -/
theorem active_after (s s' : Store) (id : String) (reported : List String) (block : Nat) (now : Int)
    (inactive : List String) (hwf : NoDupKeys (s.trackedPeers id))
    (h : s.updateNodePeers id reported block now = .ok (s', inactive)) (p : String) :
    (p ∈ (s'.trackedPeers id).map (·.1) ↔
      ∃ n ts, s.nodes.get id = some n ∧
        (refreshPeers (s.nodes.set id { n with lastSeen := now, block := block }) (s.trackedPeers id) reported).get p = some ts ∧
        now - W < ts) ∧
    (p ∈ inactive → p ∉ (s'.trackedPeers id).map (·.1)) := by
  have hinv := invalid_iff s s' id reported block now inactive hwf h p
  simp only [trackedPeers] at hwf hinv ⊢
  unfold updateNodePeers at h
  split at h
  · cases h
  · rename_i n hn
    cases h
    have hnd := noDup_refresh (s.nodes.set id { n with lastSeen := now, block := block }) ((s.peers.get id).getD []) reported hwf
    have hact : p ∈ ((AList.get (s.peers.set id ((refreshPeers (s.nodes.set id { n with lastSeen := now, block := block })
        ((s.peers.get id).getD []) reported).filter (fun kv => decide (now - W < kv.2)))) id).getD []).map (·.1) ↔
        ∃ ts, (refreshPeers (s.nodes.set id { n with lastSeen := now, block := block }) ((s.peers.get id).getD []) reported).get p = some ts ∧
          now - W < ts := by
      rw [get_set_eq]; simp only [Option.getD_some]
      rw [mem_filter_keys _ _ hnd]
      constructor
      · intro ⟨ts, h1, h2⟩; exact ⟨ts, h1, by simpa using h2⟩
      · intro ⟨ts, h1, h2⟩; exact ⟨ts, h1, by simpa using h2⟩
    constructor
    · rw [hact]
      constructor
      · intro ⟨ts, h1, h2⟩; exact ⟨n, ts, hn, h1, h2⟩
      · intro ⟨n', ts, h0, h1, h2⟩; rw [hn] at h0; cases h0; exact ⟨ts, h1, h2⟩
    · intro hin
      obtain ⟨n', ts, h0, h1, h2⟩ := hinv.1 hin
      rw [hn] at h0; cases h0
      rw [hact]
      intro ⟨ts', h1', h2'⟩
      rw [h1] at h1'; cases h1'; omega

/-- **a live peer is never declared invalid**: a registered peer (other than the node itself) that is
reported in this keep-alive and whose own last check-in is within the window is not declared invalid -/
theorem live_never_invalid (s s' : Store) (id : String) (reported : List String) (block : Nat) (now : Int)
    (inactive : List String) (hwf : NoDupKeys (s.trackedPeers id))
    (h : s.updateNodePeers id reported block now = .ok (s', inactive)) (p : String) (pn : Node)
    (hne : p ≠ id) (hrep : p ∈ reported) (hreg : s.nodes.get p = some pn) (hlive : now - W < pn.lastSeen) :
    p ∉ inactive := by
  intro hin
  obtain ⟨n, ts, h0, h1, h2⟩ := (invalid_iff s s' id reported block now inactive hwf h p).1 hin
  rw [refreshPeers_get, if_pos hrep, get_set_ne _ _ (Ne.symm hne), hreg] at h1
  cases h1; omega

/-- the node's own entry, if it reports itself, carries the fresh `now`: it is never declared invalid either -/
theorem self_report_never_invalid (s s' : Store) (id : String) (reported : List String) (block : Nat) (now : Int)
    (inactive : List String) (hwf : NoDupKeys (s.trackedPeers id)) (hW : 0 < W)
    (h : s.updateNodePeers id reported block now = .ok (s', inactive)) (hrep : id ∈ reported) : id ∉ inactive := by
  intro hin
  obtain ⟨n, ts, h0, h1, h2⟩ := (invalid_iff s s' id reported block now inactive hwf h id).1 hin
  rw [refreshPeers_get, if_pos hrep, get_set_eq] at h1
  cases h1; simp only at h2; omega

theorem window_positive : 0 < W := by decide

/-- the keep-alive endpoint reports exactly the store's verdict: `InvalidPeers` are the peers declared inactive,
`ActivePeers` the URIs of the peers still tracked -/
theorem pool_reply_maps (p p1 : Pool) (sigOk : Bool) (id : String) (nonce : Int) (reported : List String)
    (block : Nat) (now mnow : Int) (fail : Nat → Bool) (before : Node) (s2 : Store) (inactive : List String)
    (active : List Node) (u : Pool.UpdateResp)
    (hv : p.verify sigOk id nonce now = .ok p1)
    (hb : p1.store.getNode id = .ok before)
    (hu : p1.store.updateNodePeers id reported block now = .ok (s2, inactive))
    (ha : s2.nodePeers id = .ok active)
    (hr : (p.Update sigOk id nonce reported block now mnow fail).2.1 = .ok u) :
    u.invalid = inactive ∧ u.active = active.map (·.uri) ∧ u.activeIds = active.map (·.id) := by
  unfold Pool.Update at hr
  simp only [hv, hb, hu, ha] at hr
  generalize Pool.managerOnUpdate { p1 with store := s2 } before (active.map (·.id)) mnow fail = mo at hr
  obtain ⟨s3, r⟩ := mo
  simp only at hr
  split at hr
  · cases hr
  · cases hr
  · cases hr; exact ⟨rfl, rfl, rfl⟩

/-- non-vacuity: h1 keeps checking in and is kept; h2 stopped 121 s ago and is declared invalid and forgotten;
a stranger is never tracked -/
example :
    let s := Store.run Store.empty [.setNode { id := "c" }, .setNode { id := "h1", isHost := true, lastSeen := 1000000000000 },
      .setNode { id := "h2", isHost := true, lastSeen := 879000000000 }]
    (match s.updateNodePeers "c" ["h1", "h2", "stranger"] 1 1000000000000 with
     | .ok (s', inactive) => (inactive, (s'.trackedPeers "c").map (·.1))
     | .error _ => ([], [])) = (["h2"], ["h1"]) := by decide

end Vipnode.C11

namespace Vipnode.C11
open Vipnode Vipnode.AList
open Vipnode.Store (refreshPeers updateNodePeers trackedPeers applyOp)

theorem noDup_filter' (l : AList Int) (hn : NoDupKeys l) (f : String × Int → Bool) : NoDupKeys (l.filter f) := by
  unfold NoDupKeys keys at *
  exact (List.Sublist.map _ (List.filter_sublist)).nodup hn

/-- the side condition of `invalid_iff` holds in every reachable store: per-node peer tables have distinct keys -/
theorem peersWF_applyOp (s : Store) (op : Store.Op) (h : PeersWF s) : PeersWF (applyOp s op) := by
  intro id
  cases op with
  | unp i r b now =>
    simp only [applyOp]
    split
    · rename_i s' inact hu
      unfold updateNodePeers at hu
      split at hu
      · cases hu
      · rename_i n hn
        cases hu
        simp only [trackedPeers]
        by_cases e : i = id
        · subst e
          rw [get_set_eq]; simp only [Option.getD_some]
          exact noDup_filter' _ (noDup_refresh _ _ _ (h i)) _
        · rw [get_set_ne _ _ e]; exact h id
    · exact h id
  | setNode n =>
    simp only [applyOp]; split
    · rename_i s' hs; unfold Store.setNode at hs; split at hs <;> cases hs; exact h id
    · exact h id
  | addNodeBalance i amt =>
    simp only [applyOp]; split
    · rename_i s' hs; have := (addNodeBalance_nodes s s' i amt hs).2.1
      simp only [trackedPeers, this]; exact h id
    · exact h id
  | addAccountBalance a amt => exact h id
  | addAccountNode a i =>
    simp only [applyOp]; split
    · rename_i s' hs; unfold Store.addAccountNode at hs; split at hs <;> cases hs; exact h id
    · exact h id
  | nonce i n now =>
    simp only [applyOp]; split
    · rename_i s' hs; unfold Store.checkAndSaveNonce at hs
      split at hs
      · cases hs
      · split at hs <;> cases hs; exact h id
    · exact h id

theorem peersWF_reachable (ops : List Store.Op) : PeersWF (Store.run Store.empty ops) := by
  suffices ∀ s, PeersWF s → PeersWF (Store.run s ops) from
    this _ (by intro id; simp [trackedPeers, Store.empty, NoDupKeys, keys])
  induction ops with
  | nil => intro s h; exact h
  | cons op ops ih => intro s h; exact ih _ (peersWF_applyOp s op h)

end Vipnode.C11
