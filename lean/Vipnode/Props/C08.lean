/-
C08 — Peer requests return only eligible hosts that already whitelisted the requester.

Relational theorems about `Pool.requestHosts` / `Pool.whitelistCalls`, for
every store state, every host choice the store may make (constrained by the
`ActiveHosts` contract of C12), every outcome of every whitelist call and
every requested count and maximum.  Arrival order of acknowledgements does not
appear in the model because the reply is a set (compared sorted): the theorems
hold for each host separately.
-/
import Vipnode.Lemmas.Pool
namespace Vipnode.C08
open Vipnode Vipnode.Pool Vipnode.AList

theorem mem_candidates (p : Pool) (skip choice : List String) (n : Nat) (h c : String)
    (hm : (h, c) ∈ p.candidates skip choice n) :
    h ∈ choice ∧ h ∉ skip ∧ p.hosts.get h = some c := by
  unfold candidates at hm
  have hm' := List.mem_of_mem_take hm
  rw [List.mem_filterMap] at hm'
  obtain ⟨x, hx, hf⟩ := hm'
  by_cases hs : skip.contains x = true
  · rw [if_pos hs] at hf; cases hf
  · rw [if_neg hs] at hf
    cases hg : p.hosts.get x with
    | none => rw [hg] at hf; cases hf
    | some c' =>
      rw [hg] at hf
      simp only [Option.map_some, Option.some.injEq, Prod.mk.injEq] at hf
      obtain ⟨rfl, rfl⟩ := hf
      refine ⟨hx, ?_, hg⟩
      intro hc; exact hs (by simpa using hc)

theorem candidates_length (p : Pool) (skip choice : List String) (n : Nat) :
    (p.candidates skip choice n).length ≤ n := by
  unfold candidates; exact List.length_take_le _ _

theorem effectiveNum_le (p : Pool) (num : Int) :
    p.effectiveNum num ≤ num ∧ (0 < p.cfg.maxRequestHosts → p.effectiveNum num ≤ p.cfg.maxRequestHosts) := by
  unfold effectiveNum; split <;> constructor <;> omega

theorem whitelistCalls_pos (p : Pool) (id : String) (num : Int) (choice : List String) (peers : List Node)
    (hn : ¬ p.effectiveNum num ≤ 0) (hp : p.store.nodePeers id = .ok peers) :
    p.whitelistCalls id num choice = p.candidates (id :: peers.map (·.id)) choice (p.effectiveNum num).toNat := by
  simp [whitelistCalls, hn, hp]

theorem requestHosts_pos (p : Pool) (id : String) (num : Int) (choice : List String) (outcome : String → HostOutcome)
    (peers : List Node) (hn : ¬ p.effectiveNum num ≤ 0) (hp : p.store.nodePeers id = .ok peers) :
    p.requestHosts id num choice outcome = replyOf (p.whitelistCalls id num choice) outcome choice.length := by
  simp [requestHosts, hn, hp]

theorem replyOf_ok (cands : List (String × String)) (outcome : String → HostOutcome) (tried : Nat) (hosts : List String)
    (h : replyOf cands outcome tried = .ok hosts) :
    hosts = (cands.filter (fun hc => outcome hc.2 == .ack)).map (·.1) := by
  unfold replyOf at h
  split at h
  · cases h; rfl
  · split at h <;> cases h

/-- a reply is either for a non-positive request (empty) or assembled from the whitelist calls -/
theorem requestHosts_ok (p : Pool) (id : String) (num : Int) (choice : List String) (outcome : String → HostOutcome)
    (hosts : List String) (hr : p.requestHosts id num choice outcome = .ok hosts) :
    (p.effectiveNum num ≤ 0 ∧ hosts = []) ∨
    (¬ p.effectiveNum num ≤ 0 ∧ ∃ peers, p.store.nodePeers id = .ok peers ∧
      hosts = ((p.whitelistCalls id num choice).filter (fun hc => outcome hc.2 == .ack)).map (·.1)) := by
  by_cases hn : p.effectiveNum num ≤ 0
  · left; simp [requestHosts, hn] at hr; exact ⟨hn, hr⟩
  · right
    cases hp : p.store.nodePeers id with
    | error e => simp [requestHosts, hn, hp] at hr
    | ok peers =>
      rw [requestHosts_pos p id num choice outcome peers hn hp] at hr
      exact ⟨hn, peers, rfl, replyOf_ok _ _ _ _ hr⟩

/-- **only eligible, connected, acknowledged hosts**: every host in a reply was chosen by the store's
active-host query (hence — C12 `activeHosts_contract` — a full-node host of the requested kind seen within
the activity window), is not the requester, not already one of its tracked peers, has a live registered
connection, and that connection acknowledged the whitelist call -/
theorem reply_hosts_eligible (p : Pool) (id : String) (num : Int) (choice : List String)
    (outcome : String → HostOutcome) (hosts : List String)
    (hr : p.requestHosts id num choice outcome = .ok hosts) (h : String) (hh : h ∈ hosts) :
    h ∈ choice ∧ h ≠ id ∧
    (∀ peers, p.store.nodePeers id = .ok peers → h ∉ peers.map (·.id)) ∧
    ∃ c, p.hosts.get h = some c ∧ outcome c = .ack ∧ (h, c) ∈ p.whitelistCalls id num choice := by
  rcases requestHosts_ok p id num choice outcome hosts hr with ⟨_, he⟩ | ⟨hn, peers, hp, he⟩
  · subst he; simp at hh
  · subst he
    rw [List.mem_map] at hh
    obtain ⟨⟨h', c⟩, hm, rfl⟩ := hh
    rw [List.mem_filter] at hm
    have hw := hm.1
    have hack : outcome c = .ack := by simpa using hm.2
    have hc := hw
    rw [whitelistCalls_pos p id num choice peers hn hp] at hc
    have := mem_candidates p _ _ _ h' c hc
    refine ⟨this.1, ?_, ?_, c, this.2.2, hack, hw⟩
    · intro e; apply this.2.1; simp only at e; subst e; exact List.mem_cons_self
    · intro peers' hp'
      rw [hp] at hp'; cases hp'
      intro hmem; apply this.2.1; exact List.mem_cons_of_mem _ hmem

/-- the whitelist calls are bounded by the request: a host is only ever asked to whitelist the requester if
it may end up in the reply -/
theorem whitelist_calls_bounded (p : Pool) (id : String) (num : Int) (choice : List String) :
    ((p.whitelistCalls id num choice).length : Int) ≤ max 0 (p.effectiveNum num) := by
  by_cases hn : p.effectiveNum num ≤ 0
  · simp [whitelistCalls, hn]; omega
  · cases hp : p.store.nodePeers id with
    | error e => simp [whitelistCalls, hn, hp]; omega
    | ok peers =>
      rw [whitelistCalls_pos p id num choice peers hn hp]
      have := candidates_length p (id :: peers.map (·.id)) choice (p.effectiveNum num).toNat
      omega

/-- **never more than asked for, never more than the maximum**; a zero or negative request gets nothing -/
theorem reply_count (p : Pool) (id : String) (num : Int) (choice : List String)
    (outcome : String → HostOutcome) (hosts : List String)
    (hr : p.requestHosts id num choice outcome = .ok hosts) :
    (hosts.length : Int) ≤ max 0 num ∧ (0 < p.cfg.maxRequestHosts → (hosts.length : Int) ≤ p.cfg.maxRequestHosts) ∧
    (num ≤ 0 → hosts = []) := by
  have heff := effectiveNum_le p num
  rcases requestHosts_ok p id num choice outcome hosts hr with ⟨_, he⟩ | ⟨hn, peers, hp, he⟩
  · subst he; refine ⟨by simp; omega, by intro; simp; omega, fun _ => rfl⟩
  · subst he
    have h1 : ((p.whitelistCalls id num choice).filter (fun hc => outcome hc.2 == .ack)).length ≤
        (p.whitelistCalls id num choice).length := List.length_filter_le _ _
    have h2 := whitelist_calls_bounded p id num choice
    simp only [List.length_map]
    refine ⟨by omega, by intro hm; have := heff.2 hm; omega, by intro h0; omega⟩

/-- **an error only when no host could be provided**: for a positive request by a registered node, the reply
is an error exactly when no candidate acknowledged -/
theorem error_iff_empty (p : Pool) (id : String) (num : Int) (choice : List String) (outcome : String → HostOutcome)
    (hn : 0 < p.effectiveNum num) (peers : List Node) (hp : p.store.nodePeers id = .ok peers) :
    (∃ e, p.requestHosts id num choice outcome = .error e) ↔
      ∀ hc ∈ p.whitelistCalls id num choice, outcome hc.2 ≠ .ack := by
  rw [requestHosts_pos p id num choice outcome peers (by omega) hp]
  unfold replyOf
  constructor
  · intro ⟨e, he⟩ hc hmem hack
    split at he
    · cases he
    · rename_i hne
      apply hne
      intro hnil
      have : hc ∈ (p.whitelistCalls id num choice).filter (fun hc => outcome hc.2 == .ack) :=
        List.mem_filter.2 ⟨hmem, by simp [hack]⟩
      rw [hnil] at this; simp at this
  · intro hall
    have : (p.whitelistCalls id num choice).filter (fun hc => outcome hc.2 == .ack) = [] := by
      rw [List.filter_eq_nil_iff]
      intro hc hmem; simpa using hall hc hmem
    rw [this]
    simp only [ne_eq, not_true_eq_false, if_false]
    split <;> exact ⟨_, rfl⟩

/-- **full supply**: when every host the store chose is eligible for the requester (not itself, not already a
peer), connected and acknowledges, the reply is exactly the first `requested` (capped by the maximum) of them —
so it holds min(requested', supply) hosts -/
theorem full_supply (p : Pool) (id : String) (num : Int) (choice : List String) (outcome : String → HostOutcome)
    (hn : 0 < p.effectiveNum num) (peers : List Node) (hp : p.store.nodePeers id = .ok peers)
    (hne : choice ≠ [])
    (hall : ∀ h ∈ choice, h ≠ id ∧ h ∉ peers.map (·.id) ∧ ∃ c, p.hosts.get h = some c ∧ outcome c = .ack) :
    ∃ hosts, p.requestHosts id num choice outcome = .ok hosts ∧ hosts = choice.take (p.effectiveNum num).toNat ∧
      hosts.length = min (p.effectiveNum num).toNat choice.length := by
  have hn' : ¬ p.effectiveNum num ≤ 0 := by omega
  -- every chosen host becomes a candidate
  have hfm : ∀ (l : List String), (∀ h ∈ l, h ≠ id ∧ h ∉ peers.map (·.id) ∧ ∃ c, p.hosts.get h = some c ∧ outcome c = .ack) →
      (l.filterMap (fun h => if (id :: peers.map (·.id)).contains h then none else (p.hosts.get h).map (fun c => (h, c)))).map (·.1) = l ∧
      ∀ hc ∈ (l.filterMap (fun h => if (id :: peers.map (·.id)).contains h then none else (p.hosts.get h).map (fun c => (h, c)))), outcome hc.2 = .ack := by
    intro l
    induction l with
    | nil => intro _; simp
    | cons a t ih =>
      intro hl
      have ha := hl a List.mem_cons_self
      obtain ⟨c, hc, hack⟩ := ha.2.2
      have hskip : (id :: peers.map (·.id)).contains a = false := by
        simp only [List.contains_eq_mem, List.mem_cons, decide_eq_false_iff_not, not_or]
        exact ⟨ha.1, ha.2.1⟩
      have iht := ih (fun h hh => hl h (List.mem_cons_of_mem _ hh))
      simp only [List.filterMap_cons, hskip, hc, Option.map_some, Bool.false_eq_true, if_false, List.map_cons]
      refine ⟨by rw [iht.1], ?_⟩
      intro x hx
      rcases List.mem_cons.1 hx with rfl | hx
      · exact hack
      · exact iht.2 x hx
  have h1 := hfm choice hall
  rw [requestHosts_pos p id num choice outcome peers hn' hp, whitelistCalls_pos p id num choice peers hn' hp]
  unfold candidates
  generalize choice.filterMap (fun h => if (id :: peers.map (·.id)).contains h then none else (p.hosts.get h).map (fun c => (h, c))) = fl at h1
  have hall' : (fl.take (p.effectiveNum num).toNat).filter (fun hc => outcome hc.2 == .ack) = fl.take (p.effectiveNum num).toNat := by
    rw [List.filter_eq_self]
    intro x hx; simp [h1.2 x (List.mem_of_mem_take hx)]
  have hmap : (fl.take (p.effectiveNum num).toNat).map (·.1) = choice.take (p.effectiveNum num).toNat := by
    rw [List.map_take, h1.1]
  have hne' : fl.take (p.effectiveNum num).toNat ≠ [] := by
    intro hnil
    have : choice.take (p.effectiveNum num).toNat = [] := by rw [← hmap, hnil]; rfl
    rw [List.take_eq_nil_iff] at this
    rcases this with h0 | h0
    · omega
    · exact hne h0
  unfold replyOf
  rw [hall']
  simp only [hne', ne_eq, not_false_eq_true, if_true]
  exact ⟨_, rfl, hmap, by rw [hmap, List.length_take]⟩

/-- a host whose call fails or never answers is left out -/
theorem failed_hosts_left_out (p : Pool) (id : String) (num : Int) (choice : List String)
    (outcome : String → HostOutcome) (hosts : List String)
    (hr : p.requestHosts id num choice outcome = .ok hosts) (h c : String) (hc : p.hosts.get h = some c)
    (hfail : outcome c ≠ .ack) : h ∉ hosts := by
  intro hh
  obtain ⟨_, _, _, c', hc', hack, _⟩ := reply_hosts_eligible p id num choice outcome hosts hr h hh
  rw [hc] at hc'; cases hc'; exact hfail hack

/-- the pre-repair candidate list (no cap): witness that a request for one host could return several
(DESIGN.md §9 F6) -/
def candidatesOld (p : Pool) (skip choice : List String) : List (String × String) :=
  choice.filterMap (fun h => if skip.contains h then none else (p.hosts.get h).map (fun c => (h, c)))

theorem old_count_counterexample :
    let p : Pool := { hosts := [("h1", "c1"), ("h2", "c2"), ("h3", "c3")] }
    -- a client with two tracked peers asks for 1 host: the store is asked for 1 + 3 and all three are returned
    (candidatesOld p ["me", "x", "y"] ["h1", "h2", "h3"]).length = 3 ∧
    (p.candidates ["me", "x", "y"] ["h1", "h2", "h3"] 1).length = 1 := by decide

/-- non-vacuity: five connected hosts, the client already peers with h1, asks for 2, h2's call fails -/
example :
    let p : Pool := { hosts := [("h1", "c1"), ("h2", "c2"), ("h3", "c3"), ("h4", "c4")],
                      store := Store.run Store.empty [.setNode { id := "me" }, .setNode { id := "h1", isHost := true, lastSeen := 5 },
                        .unp "me" ["h1"] 0 10] }
    p.requestHosts "me" 2 ["h1", "h2", "h3", "h4"] (fun c => if c = "c2" then .err else .ack) = .ok ["h3"] ∧
    p.whitelistCalls "me" 2 ["h1", "h2", "h3", "h4"] = [("h2", "c2"), ("h3", "c3")] := by
  refine ⟨?_, ?_⟩ <;> rfl

end Vipnode.C08
