/-
C18 — The agent makes its node's peers match what the pool says.
Theorems about `round` (`Agent.UpdatePeers` / `AddPeers`).
-/
import Vipnode.Model.Agent
namespace Vipnode.C18
open Vipnode

theorem mem_dedup (l : List String) (x : String) : x ∈ dedupKeepFirst l ↔ x ∈ l := by
  induction l with
  | nil => simp [dedupKeepFirst]
  | cons a t ih =>
    simp only [dedupKeepFirst, List.mem_cons, List.mem_filter, bne_iff_ne, ne_eq, ih]
    constructor
    · intro h; rcases h with h | ⟨h, _⟩
      · exact Or.inl h
      · exact Or.inr h
    · intro h
      by_cases e : x = a
      · exact Or.inl e
      · rcases h with h | h
        · exact absurd h e
        · exact Or.inr ⟨h, e⟩

theorem nodup_dedup (l : List String) : (dedupKeepFirst l).Nodup := by
  induction l with
  | nil => simp [dedupKeepFirst]
  | cons a t ih =>
    simp only [dedupKeepFirst, List.nodup_cons, List.mem_filter, bne_iff_ne, ne_eq]
    exact ⟨fun h => h.2 trivial, ih.filter _⟩

/-- **who is dropped**: exactly the peers the pool declared invalid and — with strict peering — the local peers
the pool does not list as active under the same host address -/
theorem dropped_iff (cfg : AgentCfg) (locals : List LocalPeer) (active : List ActiveEntry) (invalid : List String) (x : String) :
    x ∈ dropList cfg locals active invalid ↔
      x ∈ invalid ∨ (cfg.strict = true ∧ ∃ p ∈ locals, matchesActive active p = false ∧ p.resolved = x) := by
  unfold dropList
  rw [mem_dedup, List.mem_append]
  cases hs : cfg.strict with
  | false => simp
  | true =>
    simp only [if_true, List.mem_map, List.mem_filter, Bool.not_eq_true', true_and]
    constructor
    · intro h; rcases h with h | ⟨p, ⟨hp, hm⟩, hr⟩
      · exact Or.inl h
      · exact Or.inr ⟨p, hp, hm, hr⟩
    · intro h; rcases h with h | ⟨p, hp, hm, hr⟩
      · exact Or.inl h
      · exact Or.inr ⟨p, ⟨hp, hm⟩, hr⟩

/-- without strict peering: the pool's invalid peers and no other peer -/
theorem dropped_nonstrict (cfg : AgentCfg) (locals : List LocalPeer) (active : List ActiveEntry) (invalid : List String)
    (h : cfg.strict = false) (x : String) : x ∈ dropList cfg locals active invalid ↔ x ∈ invalid := by
  rw [dropped_iff]; simp [h]

/-- a local peer is kept by strict peering iff the pool lists its id as active with the same host — ports play
no role (the structured views carry none) -/
theorem strict_keeps_iff (active : List ActiveEntry) (p : LocalPeer) :
    matchesActive active p = true ↔ p.uriOk = true ∧ lookupActive active p.id = some p.host := by
  simp [matchesActive]

/-- every dropped peer is handled exactly once: un-trusted, then disconnected -/
theorem drop_calls (cfg : AgentCfg) (locals : List LocalPeer) (active : List ActiveEntry) (invalid : List String)
    (peer : PeerOutcome) (failAt : Option Nat) :
    let out := round cfg locals true active invalid peer failAt
    let drops := dropList cfg locals active invalid
    drops.Nodup ∧
    (drops.flatMap (fun id => [NodeCall.removeTrusted id, NodeCall.disconnect id])) <+: out.nodeCalls := by
  refine ⟨nodup_dedup _, ?_⟩
  unfold round
  simp only [Bool.not_true, Bool.false_eq_true, if_false]
  split
  · exact List.prefix_refl _
  · split
    · exact List.prefix_refl _
    · exact List.prefix_refl _
    · exact List.prefix_append _ _

/-- the only un-trust / disconnect calls of a round are those of the drop list -/
theorem no_other_peer_dropped (cfg : AgentCfg) (locals : List LocalPeer) (active : List ActiveEntry) (invalid : List String)
    (peer : PeerOutcome) (failAt : Option Nat) (updateOk : Bool) (id : String)
    (h : NodeCall.removeTrusted id ∈ (round cfg locals updateOk active invalid peer failAt).nodeCalls ∨
         NodeCall.disconnect id ∈ (round cfg locals updateOk active invalid peer failAt).nodeCalls) :
    id ∈ dropList cfg locals active invalid := by
  have hconn : ∀ uris base, ∀ c ∈ (connectCalls uris base failAt).1, ∃ u, c = NodeCall.connect u := by
    intro uris
    induction uris with
    | nil => intro base c hc; simp [connectCalls] at hc
    | cons u us ih =>
      intro base c hc
      unfold connectCalls at hc
      split at hc
      · simp at hc; exact ⟨u, hc⟩
      · simp only [List.mem_cons] at hc
        rcases hc with hc | hc
        · exact ⟨u, hc⟩
        · exact ih _ c hc
  have hdrop : ∀ c ∈ (dropList cfg locals active invalid).flatMap (fun id => [NodeCall.removeTrusted id, NodeCall.disconnect id]),
      (c = .removeTrusted id ∨ c = .disconnect id) → id ∈ dropList cfg locals active invalid := by
    intro c hc hcid
    rw [List.mem_flatMap] at hc
    obtain ⟨i, hi, hci⟩ := hc
    simp only [List.mem_cons, List.mem_nil_iff, or_false] at hci
    rcases hci with rfl | rfl <;> rcases hcid with e | e <;> first | (cases e; exact hi) | cases e
  cases updateOk with
  | false => simp [round] at h
  | true =>
    unfold round at h
    simp only [Bool.not_true, Bool.false_eq_true, if_false] at h
    have key : ∀ (calls : List NodeCall), (∀ c ∈ calls, c ∈ (dropList cfg locals active invalid).flatMap (fun id => [NodeCall.removeTrusted id, NodeCall.disconnect id]) ∨ ∃ u, c = NodeCall.connect u) →
        (NodeCall.removeTrusted id ∈ calls ∨ NodeCall.disconnect id ∈ calls) → id ∈ dropList cfg locals active invalid := by
      intro calls hall hmem
      rcases hmem with hm | hm
      · rcases hall _ hm with h1 | ⟨u, h1⟩
        · exact hdrop _ h1 (Or.inl rfl)
        · cases h1
      · rcases hall _ hm with h1 | ⟨u, h1⟩
        · exact hdrop _ h1 (Or.inr rfl)
        · cases h1
    split at h
    · exact key _ (fun c hc => Or.inl hc) h
    · split at h
      · exact key _ (fun c hc => Or.inl hc) h
      · exact key _ (fun c hc => Or.inl hc) h
      · rename_i uris
        apply key _ _ h
        intro c hc
        simp only [List.mem_append] at hc
        rcases hc with hc | hc
        · exact Or.inl hc
        · exact Or.inr (hconn uris _ c hc)

/-- **shortfall**: with fewer active peers than the target, the agent asks the pool for exactly the shortfall, of
its own node kind when it is a light client (any kind when it is a full node), and connects to every host returned,
in order; otherwise it asks for nothing and connects to nobody -/
theorem shortfall (cfg : AgentCfg) (locals : List LocalPeer) (active : List ActiveEntry) (invalid : List String)
    (peer : PeerOutcome) :
    let out := round cfg locals true active invalid peer none
    let need := cfg.target - active.length
    (0 < need → out.peerRequest = some (need, if cfg.isFull then "" else cfg.kind) ∧
        ∀ uris, peer = .hosts uris → (out.nodeCalls.filterMap (fun c => match c with | .connect u => some u | _ => none)) = uris) ∧
    (need ≤ 0 → out.peerRequest = none ∧ ∀ u, NodeCall.connect u ∉ out.nodeCalls) := by
  have hconn : ∀ uris base, connectCalls uris base none = (uris.map NodeCall.connect, false) := by
    intro uris
    induction uris with
    | nil => intro base; rfl
    | cons u us ih => intro base; simp [connectCalls, ih]
  have hfilt : ∀ (drops : List String),
      (drops.flatMap (fun id => [NodeCall.removeTrusted id, NodeCall.disconnect id])).filterMap
        (fun c => match c with | .connect u => some u | _ => none) = [] := by
    intro drops
    induction drops with
    | nil => rfl
    | cons d ds ih => simp [List.flatMap_cons, List.filterMap_append, ih]
  constructor
  · intro hneed
    unfold round
    simp only [Bool.not_true, Bool.false_eq_true, if_false]
    have : ¬ (cfg.target - active.length ≤ 0) := by omega
    simp only [this, if_false]
    cases peer with
    | fatal => exact ⟨rfl, fun uris h => by cases h⟩
    | noPeers => exact ⟨rfl, fun uris h => by cases h⟩
    | hosts us =>
      refine ⟨rfl, ?_⟩
      intro uris h; cases h
      simp only [hconn, List.filterMap_append, hfilt, List.nil_append]
      induction us with
      | nil => rfl
      | cons u t ih => simp [List.filterMap_cons, ih]
  · intro hneed
    unfold round
    simp only [Bool.not_true, Bool.false_eq_true, if_false, hneed, if_true]
    refine ⟨trivial, ?_⟩
    intro u hu
    rw [List.mem_flatMap] at hu
    obtain ⟨i, _, hi⟩ := hu
    simp at hi

/-- **a failed keep-alive changes nothing on the node**: no call to the node, no peer request -/
theorem failed_keepalive_no_calls (cfg : AgentCfg) (locals : List LocalPeer) (active : List ActiveEntry)
    (invalid : List String) (peer : PeerOutcome) (failAt : Option Nat) :
    round cfg locals false active invalid peer failAt = { result := .updateFailed } := by
  simp [round]

/-- multi-round histories: each round depends only on that round's inputs, so the theorems above hold round by
round for every history of rounds -/
theorem multi_round (cfg : AgentCfg) (rounds : List (List LocalPeer × Bool × List ActiveEntry × List String × PeerOutcome)) :
    ∀ r ∈ rounds, r.2.1 = false → (round cfg r.1 r.2.1 r.2.2.1 r.2.2.2.1 r.2.2.2.2).nodeCalls = [] := by
  intro r _ h; rw [h]; simp [round]

/-- the pre-repair strict list (the pool's invalid peers discarded): witness for the repaired defect (DESIGN.md §9 F15) -/
def dropListOld (cfg : AgentCfg) (locals : List LocalPeer) (active : List ActiveEntry) (invalid : List String) : List String :=
  if cfg.strict then (locals.filter (fun p => !matchesActive active p)).map (·.resolved) else invalid

theorem old_strict_counterexample :
    let cfg : AgentCfg := { strict := true }
    -- the pool declares "gone" invalid; it is not connected right now
    dropListOld cfg [] [] ["gone"] = [] ∧ dropList cfg [] [] ["gone"] = ["gone"] := by decide

/-- non-vacuity: strict peering, one matching peer, one with another host, one the pool does not know; the pool
declares "x" invalid; target 3 with 1 active peer: two more are requested and connected -/
example :
    let cfg : AgentCfg := { strict := true, target := 3, kind := "parity" }
    let locals : List LocalPeer := [{ id := "a", host := "1.1.1.1", resolved := "a" }, { id := "b", host := "9.9.9.9", resolved := "b" },
      { id := "c", host := "3.3.3.3", resolved := "c" }]
    let active : List ActiveEntry := [{ parsed := some ("a", "1.1.1.1") }, { parsed := some ("b", "2.2.2.2") }]
    round cfg locals true active ["x"] (.hosts ["enode://h1@5.5.5.5:30303"]) =
      { nodeCalls := [.removeTrusted "x", .disconnect "x", .removeTrusted "b", .disconnect "b", .removeTrusted "c", .disconnect "c",
                      .connect "enode://h1@5.5.5.5:30303"],
        peerRequest := some (1, "parity"), result := .ok } := by decide

/-! ### what reaches the node

The agent hands the pool's host URIs to `EthNode.ConnectPeer`; for a geth node that goes through `encodeNodeID`
(component `ethrpc` runs the real wrapper against a recording RPC server). -/

/-- **a host URI reaches the node unchanged** — address, port and query included -/
theorem encode_keeps_uri (s : String) (h : hasEnodePrefix s = true) : encodeNodeID s = s := by
  simp [encodeNodeID, h]

/-- a bare id only gets the prefix geth insists on -/
theorem encode_prefixes_bare_id (s : String) (h : hasEnodePrefix s = false) : encodeNodeID s = "enode://" ++ s := by
  simp [encodeNodeID, h]

example : encodeNodeID "enode://ab@127.0.0.1:30304?discport=1" = "enode://ab@127.0.0.1:30304?discport=1" ∧
    encodeNodeID "ab" = "enode://ab" := by decide

end Vipnode.C18
