/-
C17 — Messages arrive exactly once, intact and in order, however the transport chunks.

Theorems about the byte-level reader model of the stream codec
(`Model/Codec.lean`): for every sequence of framed messages and *every* way of
splitting and merging the byte stream into reads.
-/
import Vipnode.Model.Codec
namespace Vipnode.C17
open Vipnode

/-- **chunking is unobservable**: what the persistent-decoder codec delivers depends only on the
concatenation of the reads, not on where the transport cut them -/
theorem chunking_independent (chunks : List (List UInt8)) :
    readChunks chunks = (feedAll {} chunks.flatten).done := by
  unfold readChunks feedAll
  rw [List.foldl_flatten]

theorem chunking_independent' (cs₁ cs₂ : List (List UInt8)) (h : cs₁.flatten = cs₂.flatten) :
    readChunks cs₁ = readChunks cs₂ := by
  rw [chunking_independent, chunking_independent, h]

/-- already delivered messages are never touched again -/
theorem feed_done_prefix (r : Reader) (d : List (List UInt8)) (b : UInt8) :
    feed { r with doneRev := r.doneRev ++ d } b = { feed r b with doneRev := (feed r b).doneRev ++ d } := by
  unfold feed
  simp only
  split
  · rfl
  · split <;> simp

theorem feedAll_done_prefix (r : Reader) (d : List (List UInt8)) (bs : List UInt8) :
    feedAll { r with doneRev := r.doneRev ++ d } bs = { feedAll r bs with doneRev := (feedAll r bs).doneRev ++ d } := by
  induction bs generalizing r with
  | nil => rfl
  | cons b bs ih =>
    simp only [feedAll, List.foldl_cons] at ih ⊢
    rw [feed_done_prefix]
    exact ih (feed r b)

theorem feedAll_append (r : Reader) (a b : List UInt8) : feedAll r (a ++ b) = feedAll (feedAll r a) b := by
  simp [feedAll, List.foldl_append]

/-- the delivery condition used below: fed to a clean reader the message is delivered whole and the reader
is clean again -/
def Whole (m : List UInt8) : Prop := feedAll {} m = { scan := {}, curRev := [], doneRev := [m] }

theorem clean_newline (d : List (List UInt8)) :
    feed { scan := {}, curRev := [], doneRev := d } cNewline = { scan := {}, curRev := [], doneRev := d } := by
  simp [feed, isSpace, cNewline]

theorem feed_message (d : List (List UInt8)) (m : List UInt8) (h : Whole m) :
    feedAll { scan := {}, curRev := [], doneRev := d } (m ++ [cNewline]) = { scan := {}, curRev := [], doneRev := m :: d } := by
  rw [feedAll_append]
  have := feedAll_done_prefix {} d m
  simp only [List.nil_append] at this
  rw [show ({ scan := {}, curRev := [], doneRev := d } : Reader) = { ({} : Reader) with doneRev := d } from rfl, this, h]
  simp only [feedAll, List.foldl_cons, List.foldl_nil, List.singleton_append]
  exact clean_newline _

theorem feed_messages (d : List (List UInt8)) (ms : List (List UInt8)) (h : ∀ m ∈ ms, Whole m) :
    feedAll { scan := {}, curRev := [], doneRev := d } (ms.map (· ++ [cNewline])).flatten =
      { scan := {}, curRev := [], doneRev := ms.reverse ++ d } := by
  induction ms generalizing d with
  | nil => simp [feedAll]
  | cons m ms ih =>
    simp only [List.map_cons, List.flatten_cons]
    rw [feedAll_append, feed_message d m (h m List.mem_cons_self), ih _ (fun x hx => h x (List.mem_cons_of_mem _ hx))]
    simp

/-- **exactly once, intact, in order, for every chunking**: whatever reads the transport produces out of the
bytes of the written messages, the codec delivers exactly the written messages, in order -/
theorem stream_exactly_once (ms : List (List UInt8)) (h : ∀ m ∈ ms, Whole m) (chunks : List (List UInt8))
    (hj : chunks.flatten = (ms.map (· ++ [cNewline])).flatten) : readChunks chunks = ms := by
  rw [chunking_independent, hj]
  have := feed_messages [] ms h
  simp only [List.append_nil] at this
  rw [show ({} : Reader) = { scan := {}, curRev := [], doneRev := [] } from rfl, this]
  simp [Reader.done]

/-- **HTTP transport**: a request or reply body carries one written message; however net/http hands the body over
(an announced length read in one piece, or chunked transfer encoding in any number of pieces of any sizes) the
side reading it gets exactly that message, once (stream op `http`; seeded change C17-r4 read nothing from bodies of
unannounced length, C17-r5 sent a body twice) -/
theorem http_body_one_message (m : List UInt8) (h : Whole m) (chunks : List (List UInt8))
    (hj : chunks.flatten = m ++ [cNewline]) : readChunks chunks = [m] := by
  apply stream_exactly_once [m] (by intro x hx; simp at hx; subst hx; exact h) chunks
  simpa using hj

/-- **concurrent locked writers**: each writer emits whole messages under the write lock, so the byte stream is
the concatenation of whole messages in *some* order `order` (any interleaving of the writers); the reader
delivers exactly that order — never a mixture of two messages -/
theorem locked_writers_do_not_interleave (order : List (List UInt8)) (h : ∀ m ∈ order, Whole m)
    (chunks : List (List UInt8)) (hj : chunks.flatten = (order.map (· ++ [cNewline])).flatten) :
    readChunks chunks = order := stream_exactly_once order h chunks hj

/-- one message per WebSocket frame: frames are delivered whole, so each frame is one read holding one message -/
theorem ws_one_message_per_frame (ms : List (List UInt8)) (h : ∀ m ∈ ms, Whole m) :
    readChunks (ms.map (· ++ [cNewline])) = ms := stream_exactly_once ms h _ rfl

instance (m : List UInt8) : Decidable (Whole m) := by unfold Whole; infer_instance

/-- witness for the repaired defect (DESIGN.md §9 F12): with a decoder per message, two messages coalesced
into one read lose the second; the persistent decoder delivers both.  (m1 = `{"id":1}`, m2 = `{"id":2}`) -/
theorem per_message_reader_counterexample :
    let m1 : List UInt8 := [123, 34, 105, 100, 34, 58, 49, 125]
    let m2 : List UInt8 := [123, 34, 105, 100, 34, 58, 50, 125]
    readChunksOld [m1 ++ [cNewline] ++ m2 ++ [cNewline]] = [m1] ∧
    readChunks [m1 ++ [cNewline] ++ m2 ++ [cNewline]] = [m1, m2] := by decide

set_option maxRecDepth 4000 in
/-- non-vacuity: messages with braces and escaped quotes inside strings, nested objects and multi-byte characters
satisfy the delivery condition:
`{"id":1,"method":"m","params":["}{","a\"b\\",{"x":{"y":[1,2]}}]}`, `{"result":"héllo ✓","id":7}`, `{}` -/
theorem whole_examples :
    Whole [123, 34, 105, 100, 34, 58, 49, 44, 34, 109, 101, 116, 104, 111, 100, 34, 58, 34, 109, 34, 44, 34, 112, 97, 114, 97, 109, 115, 34, 58, 91, 34, 125, 123, 34, 44, 34, 97, 92, 34, 98, 92, 92, 34, 44, 123, 34, 120, 34, 58, 123, 34, 121, 34, 58, 91, 49, 44, 50, 93, 125, 125, 93, 125] ∧
    Whole [123, 34, 114, 101, 115, 117, 108, 116, 34, 58, 34, 104, 195, 169, 108, 108, 111, 32, 226, 156, 147, 34, 44, 34, 105, 100, 34, 58, 55, 125] ∧ Whole [123, 125] := by decide

/-- an awkward chunking (cuts inside a string, inside an escape, coalescing the tail of one message with the head
of the next) still delivers `{"a":"}\"{"}` and `{"b":{"c":2}}` -/
example :
    let m1 : List UInt8 := [123, 34, 97, 34, 58, 34, 125, 92, 34, 123, 34, 125]
    let m2 : List UInt8 := [123, 34, 98, 34, 58, 123, 34, 99, 34, 58, 50, 125, 125]
    let stream := m1 ++ [cNewline] ++ m2 ++ [cNewline]
    readChunks [stream.take 5, (stream.drop 5).take 3, (stream.drop 8).take 9, stream.drop 17] = [m1, m2] := by decide

end Vipnode.C17
