/-
C01 — The pool ledger is zero-sum.

`ledgerSum` = Σ credit over wallet balances + Σ credit over trial balances.
The theorems are about `Model/Pool.lean` (endpoints of `pool/service.go` and
`pool/payment/service.go` over the store model and the pay-per-interval
manager); that model is compared with the real pool, on both store drivers, by
the correspondence streams `pool-memory` / `pool-badger`, which read the ledger
back (`Stats().TotalCredit` and every balance) after the operations.
-/
import Vipnode.Lemmas.Pool
namespace Vipnode.C01
open Vipnode Vipnode.Pool Vipnode.AList
open Vipnode.Store (ledgerSum KeysMatch keysMatch_of_nodes_eq keysMatch_unp keysMatch_setNode keysMatch_empty
  creditAdded opCredit applyOp ledger_run addAccountNode creditSum ledger_setNode)

/-! ### one operation -/

theorem addAccountNode_nodes (s s' : Store) (a id : String) (h : s.addAccountNode a id = .ok s') : s'.nodes = s.nodes := by
  unfold addAccountNode at h; split at h <;> cases h; rfl

theorem connect_keys (p : Pool) (conn : Option String) (src id : String) (req : ConnectReq) (now : Int)
    (hk : KeysMatch p.store) : KeysMatch (p.connect conn src id req now).1.store := by
  rcases connect_store p conn src id req now with h | ⟨n, _, h⟩
  · rw [h]; exact hk
  · exact keysMatch_setNode _ _ n hk h

theorem Update_keys (p : Pool) (sigOk : Bool) (id : String) (nonce : Int) (reported : List String) (block : Nat)
    (now mnow : Int) (fail : Nat → Bool) (hk : KeysMatch p.store) :
    KeysMatch (p.Update sigOk id nonce reported block now mnow fail).1.store := by
  unfold Update
  split
  · exact hk
  · rename_i p1 hv
    have hvf := verify_frame p p1 sigOk id nonce now hv
    have hk1 : KeysMatch p1.store := keysMatch_of_nodes_eq _ _ hk hvf.2.1
    split
    · exact hk1
    · rename_i before hb
      split
      · exact hk1
      · rename_i s2 inactive hu
        have hk2 := keysMatch_unp _ _ _ _ _ _ _ hk1 hu
        simp only
        split
        · exact hk2
        · rename_i active ha
          have hf := managerOnUpdate_frame { p1 with store := s2 } before (active.map (·.id)) mnow fail
          generalize managerOnUpdate { p1 with store := s2 } before (active.map (·.id)) mnow fail = mo at hf
          obtain ⟨s3, r⟩ := mo
          have hk3 : KeysMatch s3 := keysMatch_of_nodes_eq _ _ hk2 hf.1
          split <;> exact hk3

/-- the node table stays keyed by node id under every pool operation -/
theorem step_keys (p : Pool) (op : Op) (hk : KeysMatch p.store) : KeysMatch (step p op).store := by
  cases op with
  | connect conn src sigOk id nonce req now =>
    simp only [step, Connect]
    split
    · exact hk
    · rename_i p1 hv
      exact connect_keys p1 conn src id req now (keysMatch_of_nodes_eq _ _ hk (verify_frame p p1 sigOk id nonce now hv).2.1)
  | update sigOk id nonce reported block now mnow fail => exact Update_keys p sigOk id nonce reported block now mnow fail hk
  | peer sigOk id nonce now num choice outcome =>
    simp only [step, Peer]
    split
    · exact hk
    · rename_i p1 hv; exact keysMatch_of_nodes_eq _ _ hk (verify_frame p p1 sigOk id nonce now hv).2.1
  | close conn => simp only [step, closeRemote]; split <;> exact hk
  | addNode sigOk wallet nonce now id =>
    simp only [step, AddNode, payVerify]
    split
    · exact hk
    · rename_i p1 hv
      have hk1 := keysMatch_of_nodes_eq _ _ hk (verify_frame p p1 sigOk wallet nonce now hv).2.1
      split
      · exact hk1
      · rename_i s hs; exact keysMatch_of_nodes_eq _ _ hk1 (addAccountNode_nodes _ _ _ _ hs)
  | withdraw sigOk wallet nonce now settleOk =>
    simp only [step, Withdraw, payVerify]
    split
    · exact hk
    · rename_i p1 hv
      have hk1 := keysMatch_of_nodes_eq _ _ hk (verify_frame p p1 sigOk wallet nonce now hv).2.1
      split
      · exact hk1
      · split
        · exact hk1
        · split
          · exact hk1
          · exact keysMatch_of_nodes_eq _ _ hk1 rfl
  | deposit wallet amt => exact hk

/-- **Zero-sum, one operation.** Whatever the operation — connect, reconnect, keep-alive (accepted,
refused, failed, cut off for low balance, with any pattern of failing credit calls), peer request,
account linking, deposit change, connection close — the ledger total changes only by the credit a
successful withdrawal settled. -/
theorem ledger_step (p : Pool) (op : Op) (hk : KeysMatch p.store) :
    ledgerSum (step p op).store = ledgerSum p.store - settled p op := by
  cases op with
  | connect conn src sigOk id nonce req now => simp only [step, settled, Connect_ledger]; omega
  | update sigOk id nonce reported block now mnow fail => simp only [step, settled, Update_ledger _ _ _ _ _ _ _ _ _ hk]; omega
  | peer sigOk id nonce now num choice outcome => simp only [step, settled, Peer_store]; omega
  | close conn => simp only [step, settled, closeRemote]; split <;> simp
  | addNode sigOk wallet nonce now id => simp only [step, settled, AddNode_ledger]; omega
  | withdraw sigOk wallet nonce now settleOk => exact Withdraw_ledger p sigOk wallet nonce now settleOk
  | deposit wallet amt => simp [step, settled]

/-- a keep-alive whose final balance read-back fails (deposit lookup over the contract proxy) is a *failed*
request: it still leaves the ledger where it was - the hosts' credits and the client's debit have both been applied
by then, whatever the pattern of failing per-peer credit calls -/
theorem update_read_fault_zero_sum (p : Pool) (sigOk : Bool) (id : String) (nonce : Int) (reported : List String)
    (block : Nat) (now mnow : Int) (fail : Nat → Bool) (hk : KeysMatch p.store) :
    ledgerSum (p.UpdateReadFault sigOk id nonce reported block now mnow fail).1.store = ledgerSum p.store := by
  have h := Update_ledger p sigOk id nonce reported block now mnow fail hk
  unfold UpdateReadFault
  simp only
  repeat' split
  all_goals exact h

/-- **Zero-sum, every history.** -/
theorem ledger_history (p : Pool) (ops : List Op) (hk : KeysMatch p.store) :
    ledgerSum (run p ops).store = ledgerSum p.store - settledTotal p ops := by
  induction ops generalizing p with
  | nil => simp [run, settledTotal]
  | cons op ops ih =>
    have := ih (step p op) (step_keys p op hk)
    simp only [run, List.foldl_cons, settledTotal] at *
    rw [this, ledger_step p op hk]; omega

/-- from a freshly opened pool (any configuration): the ledger equals minus the settled credit -/
theorem ledger_from_empty (cfg : PoolCfg) (ops : List Op) :
    ledgerSum (run { cfg := cfg } ops).store = - settledTotal { cfg := cfg } ops := by
  have := ledger_history { cfg := cfg } ops keysMatch_empty
  simpa [ledgerSum, creditSum, sumInts, AList.vals] using this

/-- a history without successful withdrawals leaves the total exactly unchanged -/
theorem ledger_constant_without_withdrawals (p : Pool) (ops : List Op) (hk : KeysMatch p.store)
    (h : settledTotal p ops = 0) : ledgerSum (run p ops).store = ledgerSum p.store := by
  rw [ledger_history p ops hk, h]; omega

/-! ### concurrency: every interleaving of the store calls made by concurrent requests

Each request is a thread of atomic store calls (one mutex-protected method of the memory driver,
one transaction of the badger driver).  The balance manager's thread for one keep-alive is
`credit p₁ c, …, credit pₖ c, debit client (k·c)`: its amounts sum to zero.  An interleaving of
threads is some permutation of their concatenation. -/

/-- sum of the amounts of a list of balance calls -/
def amounts (calls : List (String × Int)) : Int := sumInts (calls.map (·.2))

def toOps (calls : List (String × Int)) : List Store.Op := calls.map (fun c => .addNodeBalance c.1 c.2)

theorem applyOp_addNodeBalance_nodes (s : Store) (id : String) (amt : Int) :
    (applyOp s (.addNodeBalance id amt)).nodes = s.nodes := by
  simp only [applyOp]; split
  · rename_i s' h; exact (addNodeBalance_nodes s s' id amt h).1
  · rfl

theorem creditAdded_registered (s : Store) (calls : List (String × Int))
    (hreg : ∀ c ∈ calls, (s.nodes.get c.1).isSome) : creditAdded s (toOps calls) = amounts calls := by
  induction calls generalizing s with
  | nil => rfl
  | cons c cs ih =>
    have hc := hreg c (List.mem_cons_self)
    obtain ⟨n, hn⟩ := Option.isSome_iff_exists.1 hc
    have hrest : ∀ c' ∈ cs, ((applyOp s (.addNodeBalance c.1 c.2)).nodes.get c'.1).isSome := by
      intro c' hc'; rw [applyOp_addNodeBalance_nodes]; exact hreg c' (List.mem_cons_of_mem _ hc')
    simp only [toOps, List.map_cons, creditAdded, opCredit, hn, amounts, sumInts, List.foldr_cons] at *
    rw [ih _ hrest]

theorem sumInts_perm {l₁ l₂ : List Int} (h : l₁.Perm l₂) : sumInts l₁ = sumInts l₂ := by
  induction h with
  | nil => rfl
  | cons x _ ih => simp only [sumInts, List.foldr_cons] at *; rw [ih]
  | swap x y l => simp only [sumInts, List.foldr_cons]; omega
  | trans _ _ ih1 ih2 => rw [ih1, ih2]

theorem sumInts_append (a b : List Int) : sumInts (a ++ b) = sumInts a + sumInts b := by
  induction a with
  | nil => simp [sumInts]
  | cons x t ih => simp only [sumInts, List.cons_append, List.foldr_cons] at *; rw [ih]; omega

theorem amounts_flatten (threads : List (List (String × Int))) (h : ∀ t ∈ threads, amounts t = 0) :
    amounts threads.flatten = 0 := by
  induction threads with
  | nil => rfl
  | cons t ts ih =>
    simp only [List.flatten_cons, amounts, List.map_append, sumInts_append]
    have h1 := h t (List.mem_cons_self)
    have h2 := ih (fun t' ht' => h t' (List.mem_cons_of_mem _ ht'))
    simp only [amounts] at h1 h2
    omega

/-- **Zero-sum under every schedule.** Any number of concurrent requests whose balance calls are
individually balanced (credits to peers = debit of the client), executed in *any* interleaving
`sched` of their atomic store calls, leave the ledger total unchanged. -/
theorem ledger_all_schedules (s : Store) (threads : List (List (String × Int))) (sched : List (String × Int))
    (hbal : ∀ t ∈ threads, amounts t = 0)
    (hsched : sched.Perm threads.flatten)
    (hreg : ∀ t ∈ threads, ∀ c ∈ t, (s.nodes.get c.1).isSome) :
    ledgerSum (Store.run s (toOps sched)) = ledgerSum s := by
  have hreg' : ∀ c ∈ sched, (s.nodes.get c.1).isSome := by
    intro c hc
    have := (hsched.mem_iff).1 hc
    obtain ⟨t, ht, hct⟩ := List.mem_flatten.1 this
    exact hreg t ht c hct
  rw [ledger_run, creditAdded_registered s sched hreg']
  have : amounts sched = amounts threads.flatten := sumInts_perm (hsched.map _)
  rw [this, amounts_flatten threads hbal]; omega

/-- the manager's thread for one keep-alive is balanced: k credits of `c` and one debit of the total -/
theorem keepalive_thread_balanced (client : String) (peers : List String) (c : Int) :
    amounts (peers.map (fun p => (p, c)) ++ [(client, -(peers.length * c))]) = 0 := by
  simp only [amounts, List.map_append, List.map_map, sumInts_append]
  have : sumInts (List.map ((fun x => x.2) ∘ fun p => (p, c)) peers) = peers.length * c := by
    induction peers with
    | nil => simp [sumInts]
    | cons p ps ih =>
      simp only [List.map_cons, sumInts, List.foldr_cons, List.length_cons, Function.comp] at *
      rw [ih]; rw [Int.natCast_succ, Int.add_mul]; omega
  rw [this]; simp only [List.map_cons, List.map_nil, sumInts, List.foldr_cons, List.foldr_nil, Int.add_zero]
  exact Int.add_right_neg _

/-! ### non-vacuity -/

/-- a concrete history: host and client connect, the client is billed for two minutes at price 1000/min,
then links a wallet and the host withdraws nothing; the ledger stays at 0 throughout -/
example :
    let cfg : PoolCfg := { bal := { price := 1000 } }
    let p := run { cfg := cfg } [
      .connect (some "c1") "1.2.3.4" true "h" 1 { isFull := true } 1000,
      .connect none "" true "c" 2 {} 1000,
      .update true "c" 3 ["h"] 7 2000 2000 (fun _ => false),
      .update true "h" 4 ["c"] 8 120000001000 120000001000 (fun _ => false),
      .update true "c" 5 ["h"] 8 120000002000 120000002000 (fun _ => false)]
    (p.store.nodeBalance "h").credit = 2000 ∧ (p.store.nodeBalance "c").credit = -2000 ∧ ledgerSum p.store = 0 := by
  decide

end Vipnode.C01
