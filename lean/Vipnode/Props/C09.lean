/-
C09 — The pool talks to a host exactly while that host has a live connection.

The registry of `pool/service.go` (`remoteHosts`, `remoteNodeLookup`,
`CloseRemote`, the registration inside `connect`) as `Pool.register` /
`Pool.closeRemote`, against a specification stated on the *history* of
registration and close events: a host is callable, on connection c, exactly
when its most recent registration was on c and c has not been closed since.
-/
import Vipnode.Lemmas.Pool
namespace Vipnode.C09
open Vipnode Vipnode.Pool Vipnode.AList

inductive Ev
  | reg (id conn : String)   -- a verified host connect arriving on `conn`
  | close (conn : String)    -- `CloseRemote(conn)`
deriving Repr, DecidableEq

def applyEv (p : Pool) : Ev → Pool
  | .reg id c => p.register id c
  | .close c => p.closeRemote c

/-- the registry after a history (oldest event first) -/
def runEvs (p : Pool) (evs : List Ev) : Pool := evs.foldl applyEv p

/-- specification, on the history newest-first: the connection of the most recent registration of `id`,
unless that connection was closed after it -/
def specCallable (id : String) : List Ev → Option String
  | [] => none
  | .reg id' c :: older => if id' = id then some c else specCallable id older
  | .close c :: older => match specCallable id older with
    | some c' => if c' = c then none else some c'
    | none => none

/-- every registered connection has a reverse-lookup entry (so that its close is never ignored) -/
def RegInv (p : Pool) : Prop := ∀ id c, p.hosts.get id = some c → (p.lookup.get c).isSome

theorem regInv_register (p : Pool) (id c : String) (h : RegInv p) : RegInv (p.register id c) := by
  intro id' c' hg
  simp only [register] at hg ⊢
  by_cases e : id = id'
  · subst e; rw [get_set_eq] at hg; cases hg; simp [get_set_eq]
  · rw [get_set_ne _ _ e] at hg
    by_cases ec : c = c'
    · subst ec; simp [get_set_eq]
    · rw [get_set_ne _ _ ec]; exact h id' c' hg

/-- with distinct keys, filtering by connection keeps exactly the bindings to other connections -/
theorem get_filter (l : AList String) (hn : NoDupKeys l) (c id : String) :
    AList.get (l.filter (fun kv => kv.2 != c)) id = match l.get id with
      | some c' => if c' = c then none else some c'
      | none => none := by
  induction l with
  | nil => simp [AList.get]
  | cons hd t ih =>
    obtain ⟨k, v⟩ := hd
    simp only [NoDupKeys, keys_cons, List.nodup_cons] at hn
    have iht := ih hn.2
    by_cases hk : k = id
    · subst hk
      simp only [AList.get, if_true]
      by_cases hv : v = c
      · subst hv
        simp only [List.filter, bne_self_eq_false, if_true]
        -- k does not occur in t
        have : AList.get t k = none := get_none_of_not_mem t k hn.1
        rw [iht, this]
      · have hb : (v != c) = true := by simpa using hv
        simp [List.filter, hb, AList.get, hv]
    · simp only [AList.get, hk, if_false]
      by_cases hv : v = c
      · subst hv; simp only [List.filter, bne_self_eq_false]; exact iht
      · have hb : (v != c) = true := by simpa using hv
        simp only [List.filter, hb, AList.get, hk, if_false]; exact iht

theorem noDup_filter (l : AList String) (hn : NoDupKeys l) (f : String × String → Bool) : NoDupKeys (l.filter f) := by
  unfold NoDupKeys keys at *
  exact (List.Sublist.map _ (List.filter_sublist)).nodup hn

/-- combined invariant -/
def Inv (p : Pool) : Prop := RegInv p ∧ NoDupKeys p.hosts

theorem inv_applyEv (p : Pool) (ev : Ev) (h : Inv p) : Inv (applyEv p ev) := by
  cases ev with
  | reg id c => exact ⟨regInv_register p id c h.1, noDup_set _ _ _ h.2⟩
  | close c =>
    simp only [applyEv, closeRemote]
    split
    · exact h
    · refine ⟨?_, noDup_filter _ h.2 _⟩
      intro id' c' hg
      simp only at hg ⊢
      rw [get_filter _ h.2] at hg
      cases hl : p.hosts.get id' with
      | none => simp [hl] at hg
      | some c0 =>
        simp only [hl] at hg
        by_cases e : c0 = c
        · simp [e] at hg
        · simp only [e, if_false] at hg
          have hcc : c0 = c' := by injection hg
          subst hcc
          rw [get_del_ne _ (Ne.symm e)]; exact h.1 id' c0 hl

/-- one event moves the registry exactly as the specification says -/
theorem callable_step (p : Pool) (ev : Ev) (h : Inv p) (id : String) :
    (applyEv p ev).callable id = match ev with
      | .reg id' c => if id' = id then some c else p.callable id
      | .close c => match p.callable id with
        | some c' => if c' = c then none else some c'
        | none => none := by
  cases ev with
  | reg id' c =>
    simp only [applyEv, register, callable]
    by_cases e : id' = id
    · subst e; simp [get_set_eq]
    · simp [get_set_ne _ _ e, e]
  | close c =>
    simp only [applyEv, closeRemote, callable]
    split
    · rename_i hl
      -- nothing registered on c: no host points at it
      cases hg : p.hosts.get id with
      | none => rfl
      | some c' =>
        simp only
        by_cases e : c' = c
        · subst e; have := h.1 id c' hg; rw [hl] at this; cases this
        · simp [e]
    · exact get_filter _ h.2 c id

/-- **callable iff most recently registered on a connection that has not been closed since** — for every
history of connects, reconnects and closes in any order, starting from an empty registry -/
theorem callable_iff (evs : List Ev) (id : String) :
    (runEvs {} evs).callable id = specCallable id evs.reverse := by
  suffices ∀ (evs : List Ev) (p : Pool) (older : List Ev), Inv p → (∀ id, p.callable id = specCallable id older) →
      ∀ id, (runEvs p evs).callable id = specCallable id (evs.reverse ++ older) by
    have h0 : Inv ({} : Pool) := ⟨by intro id c h; simp [AList.get] at h, by simp [NoDupKeys, keys]⟩
    simpa using this evs {} [] h0 (by intro id; rfl) id
  intro evs
  induction evs with
  | nil => intro p older _ hs id; simpa [runEvs] using hs id
  | cons ev evs ih =>
    intro p older hinv hs id
    simp only [runEvs, List.foldl_cons, List.reverse_cons, List.append_assoc, List.singleton_append]
    apply ih (applyEv p ev) (ev :: older) (inv_applyEv p ev hinv)
    intro id'
    rw [callable_step p ev hinv id']
    cases ev with
    | reg i c => simp only [specCallable]; split <;> simp_all
    | close c => simp only [specCallable]; rw [hs id']

/-- closing a host's *old* connection does not unregister its new one -/
theorem close_old_keeps_new (evs : List Ev) (id cOld cNew : String) (h : cOld ≠ cNew) :
    (runEvs {} (evs ++ [.reg id cOld, .reg id cNew, .close cOld])).callable id = some cNew := by
  rw [callable_iff]
  simp [specCallable, h.symm]

/-- after a host's connection closes, requests that start later never call it -/
theorem closed_not_callable (evs : List Ev) (id c : String) :
    (runEvs {} (evs ++ [.close c])).callable id ≠ some c := by
  rw [callable_iff]
  simp only [List.reverse_append, List.reverse_cons, List.reverse_nil, List.nil_append, List.singleton_append, specCallable]
  split
  · split <;> simp_all
  · simp

/-- a peer request only calls hosts on the connection they are callable on now -/
theorem requests_use_current_registration (p : Pool) (id : String) (num : Int) (choice : List String) (h c : String)
    (hm : (h, c) ∈ p.whitelistCalls id num choice) : p.callable h = some c := by
  unfold whitelistCalls at hm
  split at hm
  · simp at hm
  · split at hm
    · simp at hm
    · unfold candidates at hm
      have hm' := List.mem_of_mem_take hm
      rw [List.mem_filterMap] at hm'
      obtain ⟨x, _, hf⟩ := hm'
      split at hf
      · cases hf
      · cases hg : p.hosts.get x with
        | none => rw [hg] at hf; cases hf
        | some c' =>
          rw [hg] at hf
          simp only [Option.map_some, Option.some.injEq, Prod.mk.injEq] at hf
          obtain ⟨rfl, rfl⟩ := hf
          exact hg

/-- the count of connected hosts is the number of distinct hosts with a live registration -/
theorem numRemotes_eq (evs : List Ev) :
    let p := runEvs {} evs
    NoDupKeys p.hosts ∧ p.numRemotes = p.hosts.keys.length ∧ ∀ id, id ∈ p.hosts.keys ↔ (p.callable id).isSome := by
  have hinv : Inv (runEvs {} evs) := by
    suffices ∀ p, Inv p → Inv (runEvs p evs) from
      this {} ⟨by intro id c h; simp [AList.get] at h, by simp [NoDupKeys, keys]⟩
    induction evs with
    | nil => intro p h; exact h
    | cons ev evs ih => intro p h; exact ih _ (inv_applyEv p ev h)
  refine ⟨hinv.2, by simp [numRemotes, keys], ?_⟩
  intro id
  simp only [callable]
  constructor
  · intro hm
    cases hg : (runEvs {} evs).hosts.get id with
    | some c => rfl
    | none =>
      exfalso
      -- a key of the list always has a binding
      have : ∀ (l : AList String), id ∈ l.keys → l.get id ≠ none := by
        intro l
        induction l with
        | nil => intro h; simp at h
        | cons hd t ih =>
          obtain ⟨k, v⟩ := hd
          intro h
          by_cases hk : k = id
          · simp [AList.get, hk]
          · simp only [keys_cons, List.mem_cons] at h
            rcases h with h | h
            · exact absurd h.symm hk
            · simp only [AList.get, hk, if_false]; exact ih h
      exact this _ hm hg
  · intro hs
    cases hg : (runEvs {} evs).hosts.get id with
    | none => rw [hg] at hs; cases hs
    | some c =>
      have := get_some_mem _ _ _ hg
      exact List.mem_map.2 ⟨(id, c), this, rfl⟩

/-- the pre-repair `CloseRemote` (delete by the node id the connection last registered): witness for the
repaired defect (DESIGN.md §9 F7) -/
def closeRemoteOld (p : Pool) (conn : String) : Pool :=
  match p.lookup.get conn with
  | none => p
  | some id => { p with lookup := p.lookup.del conn, hosts := p.hosts.del id }

theorem old_close_counterexample :
    let p := closeRemoteOld ((({} : Pool).register "h" "c1").register "h" "c2") "c1"
    p.callable "h" = none ∧
    (runEvs {} [.reg "h" "c1", .reg "h" "c2", .close "c1"]).callable "h" = some "c2" := by decide

/-- **a full node that cannot be called back is not registered**: a host `connect` arriving over a transport without
a reverse channel (plain HTTP) is refused and leaves the pool exactly as it was — registry, store and all (poolbin op
`hosthttp`; seeded change C15-r5 panicked there with the pool's lock held) -/
theorem host_without_connection_refused (p : Pool) (src id : String) (req : Pool.ConnectReq) (now : Int)
    (h : req.isFull = true) : p.connect none src id req now = (p, .error .noService) := by
  unfold Pool.connect
  simp [h]

end Vipnode.C09
