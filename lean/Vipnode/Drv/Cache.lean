/- Driver component `cache`: the deposit cache under an injected clock. -/
import Vipnode.Model.Cache
import Vipnode.Drv.Proto
namespace Vipnode.Drv
open Vipnode

structure CacheDrv where
  c : DCache := {}
  now : Int := 0

def cacheStep (st : CacheDrv) (args : List String) : CacheDrv × String :=
  match args with
  | ["reset", d] =>
    match d.toInt? with
    | some d => ({ st with c := st.c.reset d }, "ok")
    | none => (st, "bad-op")
  | ["advance", d] =>
    match d.toInt? with
    | some d => ({ st with now := st.now + d }, "ok")
    | none => (st, "bad-op")
  | ["set", a, v] =>
    match v.toInt? with
    | some v => ({ st with c := st.c.set a v st.now }, "ok")
    | none => (st, "bad-op")
  | ["get", a, g] =>
    let getter : Option (Option Int) := if g == "fail" then some none else (g.toInt?).map some
    match getter with
    | some gt =>
      let (c', r) := st.c.get a st.now gt
      ({ st with c := c' }, match r with | some v => s!"ok {v}" | none => "err lookup")
    | none => (st, "bad-op")
  | _ => (st, "bad-op")

end Vipnode.Drv
