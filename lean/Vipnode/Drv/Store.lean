/- Driver component `store`: replays resolved store op lines through `Model.Store`. -/
import Vipnode.Model.Store
import Vipnode.Drv.Proto
namespace Vipnode.Drv
open Vipnode

def showErr : StoreErr → String
  | .unregistered => "err Unregistered"
  | .malformed => "err Malformed"
  | .invalidNonce => "err InvalidNonce"
  | .notAuthorized => "err NotAuthorized"

def showNode (n : Node) : String :=
  joinS [untok n.id, untok n.uri, showT n.lastSeen, untok n.kind, showB n.isHost, untok n.payout, toString n.block]

def showBal (b : Bal) : String := joinS [untok b.account, toString b.deposit, toString b.credit]

def storeStep (s : Store) (args : List String) : Store × String :=
  match args with
  | ["setnode", id, ls, ih, kind, uri, payout, blk] =>
    match int? ls, bool? ih, nat? blk with
    | some ls, some ih, some blk =>
      match s.setNode { id := tok id, uri := tok uri, lastSeen := ls, kind := tok kind, isHost := ih, payout := tok payout, block := blk } with
      | .ok s' => (s', "ok")
      | .error e => (s, showErr e)
    | _, _, _ => (s, "bad-op")
  | ["getnode", id] =>
    match s.getNode (tok id) with
    | .ok n => (s, "ok " ++ showNode n)
    | .error e => (s, showErr e)
  | "unp" :: id :: blk :: rest =>
    match nat? blk, findArg "peers" rest with
    | some blk, some peers =>
      -- `now` is present iff the implementation call succeeded
      match findInt "now" rest with
      | some now =>
        match s.updateNodePeers (tok id) peers blk now with
        | .ok (s', inactive) => (s', "ok inactive=" ++ joinC (sortStrings inactive))
        | .error e => (s, showErr e)
      | none =>
        match s.updateNodePeers (tok id) peers blk 0 with
        | .ok _ => (s, "model-ok-impl-err")
        | .error e => (s, showErr e)
    | _, _ => (s, "bad-op")
  | ["peers", id] =>
    match s.nodePeers (tok id) with
    | .ok ns => (s, "ok peers=" ++ joinC (sortStrings (ns.map (·.id))))
    | .error e => (s, showErr e)
  | "active" :: kind :: limit :: rest =>
    match int? limit, findInt "now" rest, findArg "choice" rest with
    | some limit, some now, some choice =>
      if s.validHostChoice (tok kind) limit now choice then (s, "ok " ++ joinC (sortStrings choice))
      else (s, "bad-choice eligible=" ++ joinC (sortStrings ((s.eligibleHosts (tok kind) now).map (·.id))))
    | _, _, _ => (s, "bad-op")
  | ["getnb", id] =>
    match s.getNodeBalance (tok id) with
    | .ok b => (s, "ok " ++ showBal b)
    | .error e => (s, showErr e)
  | ["addnb", id, amt] =>
    match int? amt with
    | some amt =>
      match s.addNodeBalance (tok id) amt with
      | .ok s' => (s', "ok")
      | .error e => (s, showErr e)
    | none => (s, "bad-op")
  | ["getab", a] => (s, "ok " ++ showBal (s.getAccountBalance (tok a)))
  | ["addab", a, amt] =>
    match int? amt with
    | some amt => (s.addAccountBalance (tok a) amt, "ok")
    | none => (s, "bad-op")
  | ["link", a, id] =>
    match s.addAccountNode (tok a) (tok id) with
    | .ok s' => (s', "ok")
    | .error e => (s, showErr e)
  | ["isan", a, id] =>
    match s.isAccountNode (tok a) (tok id) with
    | .ok _ => (s, "ok")
    | .error e => (s, showErr e)
  | ["nodes", a] => (s, "ok nodes=" ++ joinC (sortStrings (s.getAccountNodes (tok a))))
  | "nonce" :: id :: nonce :: rest =>
    match int? nonce, findInt "now" rest with
    | some nonce, some now =>
      match s.checkAndSaveNonce (tok id) nonce now with
      | .ok s' => (s', "ok")
      | .error e => (s, showErr e)
    | _, _ => (s, "bad-op")
  | ["sleep", _] => (s, "ok")
  | "stats" :: rest =>
    match findInt "now" rest with
    | some now =>
      let st := s.stats now
      (s, joinS ["ok", toString st.activeHosts, toString st.totalHosts, toString st.activeClients,
        toString st.totalClients, toString st.latestBlock, toString st.totalCredit,
        toString st.totalDeposit, toString st.trialBalances])
    | none => (s, "bad-op")
  | _ => (s, "bad-op")

end Vipnode.Drv
