/- Driver component `poolbin`: the host registry of Model/Pool.lean (`register`, `closeRemote`) against the built
pool binary with real WebSocket connections ending in every possible way (C09, the glue in server.go), and hosts
that refuse the whitelist instruction with an RPC error over the real transport (C08). -/
import Vipnode.Drv.Proto
import Vipnode.Model.Pool
namespace Vipnode.Drv
open Vipnode

structure PoolBinDrv where
  pool : Pool := {}
  refusing : List String := []     -- connections whose host currently answers instructions with an RPC error

def poolBinStep (st : PoolBinDrv) (args : List String) : PoolBinDrv × String :=
  let p := st.pool
  match args with
  | ["hostconn", c, n] => ({ st with pool := p.register n c }, "ok")
  | ["closeconn", c, _] => ({ pool := p.closeRemote c, refusing := st.refusing.filter (· != c) }, "ok")
  | ["hostmode", c, m] =>
    if (p.hosts.map (·.2)).contains c then
      ({ st with refusing := if m == "refuse" then c :: st.refusing.filter (· != c) else st.refusing.filter (· != c) }, "ok")
    else (st, "ok")
  | ["peer"] =>
    -- the client asks for more hosts than exist: every host with a live registration is called on the connection of
    -- its latest registration; those that acknowledge are returned; a connection that has ended is never called
    let wl := ",".intercalate (sortStrings (p.hosts.map (·.2)))
    let acked := p.hosts.filter (fun hc => !st.refusing.contains hc.2)
    if p.hosts.isEmpty then (st, "err NoHosts wl=")
    else if acked.isEmpty then (st, "err HostsFailed wl=" ++ wl)
    else (st, "ok hosts=" ++ ",".intercalate (sortStrings (acked.map (·.1))) ++ " wl=" ++ wl)
  | _ => (st, "bad-op")

end Vipnode.Drv
