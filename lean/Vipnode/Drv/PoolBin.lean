/- Driver component `poolbin`: the host registry of Model/Pool.lean (`register`, `closeRemote`) against the built
pool binary with real WebSocket connections ending in every possible way (C09, the glue in server.go). -/
import Vipnode.Drv.Proto
import Vipnode.Model.Pool
namespace Vipnode.Drv
open Vipnode

def poolBinStep (p : Pool) (args : List String) : Pool × String :=
  match args with
  | ["hostconn", c, n] => (p.register n c, "ok")
  | ["closeconn", c, _] => (p.closeRemote c, "ok")
  | ["peer"] =>
    -- the client asks for more hosts than exist: every host with a live registration is called on the connection of
    -- its latest registration and returned; a connection that has ended, however it ended, is never called
    if p.hosts.isEmpty then (p, "err NoHosts wl=")
    else (p, "ok hosts=" ++ ",".intercalate (sortStrings (p.hosts.map (·.1))) ++ " wl=" ++ ",".intercalate (sortStrings (p.hosts.map (·.2))))
  | _ => (p, "bad-op")

end Vipnode.Drv
