/- Driver component `poolbin`: the host registry of Model/Pool.lean (`register`, `closeRemote`) against the built
pool binary with real WebSocket connections ending in every possible way (C09, the glue in server.go), and hosts
that refuse the whitelist instruction with an RPC error over the real transport (C08). -/
import Vipnode.Drv.Proto
import Vipnode.Model.Pool
import Vipnode.Model.Ether
namespace Vipnode.Drv
open Vipnode

structure PoolBinDrv where
  pool : Pool := {}
  refusing : List String := []     -- connections whose host currently answers instructions with an RPC error
  running : Bool := true
  minBalance : Option Int := none  -- `--contract.min-balance`
  price : Int := 100000000000      -- `--contract.price` (default "100 gwei")
  maxHosts : Int := 0              -- `--max-request-hosts`
  clients : List String := []      -- light clients admitted so far
  bal : List (String × Int) := []  -- what billed keep-alives left each client with (absent: 0)

def unflag (s : String) : String := s.replace "_" " "

/-- can a fresh light client (trial balance 0) register? -/
def admits (st : PoolBinDrv) : Bool :=
  match st.minBalance with
  | some m => !decide (0 < m)
  | none => true

def poolBinStep (st : PoolBinDrv) (args : List String) : PoolBinDrv × String :=
  let p := st.pool
  if !st.running && args.head? != some "start" then (st, "err not-running") else
  match args with
  | "start" :: rest =>
    -- the operator's flags, parsed as pool.go parses them; a value it cannot parse stops the binary
    match findStr "min" rest, findStr "price" rest, (findStr "max" rest).bind (·.toInt?) with
    | some mn, some pr, some mx =>
      let minV : Option (Option Int) := Ether.minBalanceFlag (unflag mn)
      match minV, Ether.parseEther (unflag pr) with
      | some m, some price => ({ running := true, minBalance := m, price := price, maxHosts := mx }, "ok")
      | _, _ => ({ running := false }, "err start-failed")
    | _, _, _ => (st, "bad-op")
  | ["client", n] =>
    -- `OnClient`: a light client registers iff its balance is not below the configured minimum
    let b := ((st.bal.find? (·.1 == n)).map (·.2)).getD 0
    if !st.running then (st, "err not-running")
    else match st.minBalance with
      | some m =>
        if b < m then ({ st with clients := st.clients.filter (· != n) }, s!"err LowBalance {b} {m}")
        else ({ st with clients := n :: st.clients }, "ok")
      | none => ({ st with clients := n :: st.clients }, "ok")
  | "kbill" :: n :: _h :: rest =>
    -- a billable keep-alive (`OnUpdate`): the charge depends on the wall clock, so the balance it leaves is observed
    -- (`cur=`); the decision taken on it is prescribed: cut off iff a minimum is configured and the remaining balance
    -- is below it.  The charge is kept either way.
    if !st.running then (st, "err not-running")
    else if !st.clients.contains n then (st, "skipped-refused")
    else if st.price = 0 then (st, "err InvalidSettings")
    else match (findStr "cur" rest).bind (·.toInt?) with
      | none => (st, "bad-op")
      | some cur =>
        let st' := { st with bal := (n, cur) :: st.bal.filter (·.1 != n) }
        match st.minBalance with
        | some m => if cur < m then (st', s!"err LowBalance {cur} {m}") else (st', "ok")
        | none => (st', "ok")
  | ["kbillhangup", n, h] =>
    -- the billable keep-alive of a client that hangs up before the reply: it is handled like any other.  With a
    -- minimum of zero (or more) any charge cuts the client off, and the pool tells the host it peers with
    -- (`cutoff_disconnects`); without a minimum nobody is told anything.
    if !st.running then (st, "err not-running")
    else if !st.clients.contains n then (st, "sent disc=")
    else match st.minBalance with
      | some m =>
        if 0 ≤ m ∧ 0 < st.price then (st, "sent disc=" ++ ((p.hosts.find? (·.1 == h)).map (·.2)).getD "")
        else (st, "unpredictable")
      | none => (st, "sent disc=")
  | ["kalive", n] =>
    if !st.running then (st, "err not-running")
    else if !st.clients.contains n then (st, "skipped-refused")
    else if st.price = 0 then (st, "err InvalidSettings")
    else (st, "ok")
  -- a full node registering over plain HTTP has no connection to be called back on: refused, nothing registered
  | ["hosthttp", _] => (st, "err refused")
  | ["hoststray", _] => (st, "ok")
  | ["hostconn", c, n] => ({ st with pool := p.register n c }, "ok")
  | ["closeconn", c, _] => ({ pool := p.closeRemote c, refusing := st.refusing.filter (· != c) }, "ok")
  | ["hostmode", c, m] =>
    if (p.hosts.map (·.2)).contains c then
      ({ st with refusing := if m == "refuse" then c :: st.refusing.filter (· != c) else st.refusing.filter (· != c) }, "ok")
    else (st, "ok")
  | ["peer", numArg] =>
    -- with a request count: as many hosts as asked for, capped by `--max-request-hosts` and by the supply
    match (findStr "num" [numArg]).bind (·.toInt?) with
    | some num =>
      if !admits st then (st, "err client-refused") else
      let eff := if st.maxHosts > 0 ∧ num > st.maxHosts then st.maxHosts else num
      let k := min eff.toNat p.hosts.length
      if p.hosts.isEmpty then (st, "err NoHosts wl=") else (st, s!"ok nhosts={k} nwl={k}")
    | none => (st, "bad-op")
  | ["peer"] =>
    if !admits st then (st, "err client-refused") else
    -- the client asks for more hosts than exist: every host with a live registration is called on the connection of
    -- its latest registration; those that acknowledge are returned; a connection that has ended is never called
    let wl := ",".intercalate (sortStrings (p.hosts.map (·.2)))
    let acked := p.hosts.filter (fun hc => !st.refusing.contains hc.2)
    if p.hosts.isEmpty then (st, "err NoHosts wl=")
    else if acked.isEmpty then (st, "err HostsFailed wl=" ++ wl)
    else (st, "ok hosts=" ++ ",".intercalate (sortStrings (acked.map (·.1))) ++ " wl=" ++ wl)
  | _ => (st, "bad-op")

end Vipnode.Drv
