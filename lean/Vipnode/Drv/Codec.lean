/- Driver component `codec`: replays byte streams and their chunkings through the reader model. -/
import Vipnode.Model.Codec
import Vipnode.Drv.Proto
namespace Vipnode.Drv
open Vipnode

def hexVal (c : Char) : Option Nat :=
  if '0' ≤ c ∧ c ≤ '9' then some (c.toNat - '0'.toNat)
  else if 'a' ≤ c ∧ c ≤ 'f' then some (c.toNat - 'a'.toNat + 10)
  else none

def unhex : List Char → Option (List UInt8)
  | [] => some []
  | [_] => none
  | a :: b :: t => do
    let x ← hexVal a
    let y ← hexVal b
    let r ← unhex t
    pure ((x * 16 + y).toUInt8 :: r)

def hexDigit (n : Nat) : Char := if n < 10 then Char.ofNat (n + 48) else Char.ofNat (n - 10 + 97)

def hexOf (bs : List UInt8) : String :=
  String.ofList (bs.flatMap (fun b => [hexDigit (b.toNat / 16), hexDigit (b.toNat % 16)]))

/-- cut a stream at the given (increasing) positions -/
def cutAt (bs : List UInt8) (cuts : List Nat) : List (List UInt8) :=
  let rec go (rest : List UInt8) (pos : Nat) : List Nat → List (List UInt8)
    | [] => [rest]
    | c :: cs => (rest.take (c - pos)) :: go (rest.drop (c - pos)) c cs
  (go bs 0 cuts).filter (· ≠ [])

def codecStep (args : List String) : String :=
  match args with
  | "stream" :: rest =>
    match findStr "hex" rest, findArg "cuts" rest with
    | some h, some cuts =>
      match unhex h.toList with
      | some bs =>
        let chunks := cutAt bs (cuts.filterMap (·.toNat?))
        "ok " ++ joinC ((readChunks chunks).map hexOf)
      | none => "bad-op"
    | _, _ => "bad-op"
  | "http" :: rest =>
    -- one exchange over the HTTP transport: the request and the reply each arrive whole, whatever their length and
    -- whether or not net/http announced it (chunked bodies); a side that configured a size limit refuses what exceeds it
    let geti := fun k => (findStr k rest).bind (·.toNat?)
    -- the connection is lost after the server handled the message: the call fails, and the one message that was
    -- written has been read exactly once (no silent re-send)
    if geti "drop" == some 1 then "err handled=1" else
    match geti "maxs", geti "maxc", geti "reqlen", geti "resplen" with
    | some ms, some mc, some rl, some pl =>
      if !(ms == 0 || rl ≤ ms) then "err"
      else if !(mc == 0 || pl ≤ mc) then "err"
      else "ok intact"
    | _, _, _, _ => "bad-op"
  | "ws" :: rest =>
    match (findStr "writers" rest).bind (·.toNat?), (findStr "each" rest).bind (·.toNat?) with
    | some w, some e => s!"ok received={w * e} intact={w * e} order=ok"
    | _, _ => "bad-op"
  | _ => "bad-op"

end Vipnode.Drv
