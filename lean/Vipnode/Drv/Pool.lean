/- Driver component `pool`: replays resolved pool/payment op lines through `Model.Pool`. -/
import Vipnode.Model.Pool
import Vipnode.Drv.Store
namespace Vipnode.Drv
open Vipnode
open Vipnode.Pool (HostOutcome ConnectReq UpdateResp)

def showPoolErr : PoolErr → String
  | .verifyFailed => "err VerifyFailed"
  | .store e => showErr e
  | .lowBalance c m => s!"err LowBalance {c} {m}"
  | .invalidSettings => "err InvalidSettings"
  | .uri .parse => "err UriParse"
  | .uri .idMismatch => "err UriIdMismatch"
  | .uri .missingHost => "err UriMissingHost"
  | .noService => "err NoService"
  | .noHosts n => s!"err NoHosts {n}"
  | .remoteErrors n => s!"err RemoteErrors {n}"
  | .withdrawMin b m => s!"err WithdrawMin {b} {m}"
  | .withdrawDisabled => "err WithdrawDisabled"
  | .settleFailed => "err SettleFailed"

def optInt (s : String) : Option (Option Int) :=
  if s = "off" then some none else (int? s).map some

def sigOk (s : String) : Bool := s == "good" || s == "oldfmt"

def parseOutcome (s : String) : HostOutcome :=
  if s = "err" then .err else if s = "hang" then .hang else .ack

/-- `outcomes=n1:err,n2:hang` (default ack) -/
def outcomeFn (args : List String) : String → HostOutcome :=
  let l := (findArg "outcomes" args).getD []
  let tbl := l.filterMap (fun e => match e.splitOn ":" with
    | [h, o] => some (h, parseOutcome o)
    | _ => none)
  fun h => ((tbl.find? (fun kv => kv.1 == h)).map (·.2)).getD .ack

def universeNodes : List String := ["n0", "n1", "n2", "n3", "n4", "n5", "n6", "n7", "n0up", "n1up"]
def universeWallets : List String := ["w0", "w1", "w2", "w3", "w0lc", "w1lc", "w2lc", "w3lc"]

def dumpPool (p : Pool) (now : Int) : String :=
  let nodes := universeNodes.filterMap (fun id => match p.store.getNode id with
    | .ok n => some (s!"{id}:{showT n.lastSeen}:{untok n.kind}:{showB n.isHost}:{untok n.uri}:{untok n.payout}:{n.block}")
    | .error _ => none)
  let peers := universeNodes.filterMap (fun id => match p.store.nodePeers id with
    | .ok ns => some (s!"{id}>" ++ "+".intercalate (sortStrings (ns.map (·.id))))
    | .error _ => none)
  let nb := universeNodes.filterMap (fun id => match p.store.getNodeBalance id with
    | .ok b => some (s!"{id}={untok b.account}/{b.credit}")
    | .error _ => none)
  let ab := universeWallets.map (fun w => let b := p.store.getAccountBalance w; s!"{w}={untok b.account}/{b.credit}")
  let st := p.store.stats now
  joinS ["ok", "nodes=" ++ joinC nodes, "peers=" ++ joinC peers, "nb=" ++ joinC nb, "ab=" ++ joinC ab,
    s!"stats={st.activeHosts}/{st.totalHosts}/{st.activeClients}/{st.totalClients}/{st.latestBlock}/{st.totalCredit}/{st.trialBalances}",
    s!"remotes={p.numRemotes}",
    "paid=" ++ joinC (universeWallets.map (fun w => s!"{w}={(p.paid.get w).getD 0}")),
    "dep=" ++ joinC (universeWallets.map (fun w => s!"{w}={(p.deposits.get w).getD 0}"))]

def failFn (args : List String) : Nat → Bool :=
  let l := ((findArg "fail" args).getD []).filterMap (·.toNat?)
  fun k => l.contains k

/-- `failpeer=<ids>`: the store fails the credit to these peers.  The model indexes faults by position in the list of
active peers it credits (the order is the store's own): translate. -/
def failFnFor (p : Pool) (id : String) (reported : List String) (block : Nat) (now : Int) (args : List String) : Nat → Bool :=
  let names := (findArg "failpeer" args).getD []
  let active : List String := match p.store.updateNodePeers id reported block now with
    | .ok (s2, _) => (match s2.nodePeers id with | .ok a => a.map (·.id) | .error _ => [])
    | .error _ => []
  fun k => (failFn args k) || (match active[k]? with | some nm => names.contains nm | none => false)

def poolStep (p : Pool) (args : List String) : Pool × String :=
  match args with
  | "cfg" :: rest =>
    match (findStr "price" rest).bind int?, (findStr "interval" rest).bind int?, (findStr "min" rest).bind optInt,
          (findStr "max" rest).bind int?, (findStr "nobalance" rest).bind bool?, (findStr "wmin" rest).bind optInt,
          (findStr "wfee" rest).bind optInt, (findStr "settle" rest).bind bool? with
    | some price, some interval, some min, some max, some nob, some wmin, some wfee, some settle =>
      ({ cfg := { bal := { interval := interval, price := price, minBalance := min }, noBalance := nob,
                  maxRequestHosts := max, withdrawMin := wmin, withdrawFee := wfee, settleEnabled := settle } }, "ok")
    | _, _, _, _, _, _, _, _ => (p, "bad-op")
  | ["deposit", w, amt] =>
    match int? amt with
    | some a => ({ p with deposits := p.deposits.set (tok w) a }, "ok")
    | none => (p, "bad-op")
  | "connect" :: conn :: id :: nonce :: sig :: full :: kind :: rest =>
    match int? nonce, bool? full, findInt "now" rest, (findStr "uset" rest).bind bool?, (findStr "ubad" rest).bind bool? with
    | some nonce, some full, some now, some uset, some ubad =>
      let ov : Option Override := if uset then
        some { hostname := (findStr "uhost" rest).getD "", port := (findStr "uport" rest).getD "", username := (findStr "uuser" rest).getD "" }
        else none
      let req : ConnectReq := { kind := tok kind, isFull := full, override := ov, overrideUnparsable := ubad,
                                payout := (findStr "payout" rest).getD "" }
      let c := if conn = "~" then none else some conn
      let (p', r) := p.Connect c ((findStr "src" rest).getD "") (sigOk sig) (tok id) nonce req now
      match r with
      | .ok _ => (p', "ok")
      | .error e => (p', showPoolErr e)
    | _, _, _, _, _ => (p, "bad-op")
  | "update" :: id :: nonce :: sig :: rest =>
    match int? nonce, (findStr "block" rest).bind nat?, findArg "peers" rest, findInt "mnow" rest, findInt "now" rest with
    | some nonce, some block, some peers, some mnow, some now =>
      if findStr "readfault" rest == some "1" then
        let (p', failed, r, calls) := p.UpdateReadFault (sigOk sig) (tok id) nonce peers block now mnow (failFnFor p (tok id) peers block now rest)
        if failed then (p', "err DepositLookup") else
        match r with
        | .ok u => (p', s!"ok invalid={joinC (sortStrings u.invalid)} active={joinC (sortStrings u.active)} bal={showBal u.balance}")
        | .error (.lowBalance c m) => (p', s!"err LowBalance {c} {m} disconnect={joinC (sortStrings (calls.map (·.2)))}")
        | .error e => (p', showPoolErr e)
      else
      let (p', r, calls) := p.Update (sigOk sig) (tok id) nonce peers block now mnow (failFnFor p (tok id) peers block now rest)
      match r with
      | .ok u => (p', s!"ok invalid={joinC (sortStrings u.invalid)} active={joinC (sortStrings u.active)} bal={showBal u.balance}")
      | .error (.lowBalance c m) => (p', s!"err LowBalance {c} {m} disconnect={joinC (sortStrings (calls.map (·.2)))}")
      | .error e => (p', showPoolErr e)
    | _, _, _, _, _ => (p, "bad-op")
  | "peer" :: id :: nonce :: sig :: rest =>
    match int? nonce, (findStr "num" rest).bind int?, findInt "now" rest with
    | some nonce, some num, some now =>
      let choice := (findArg "choice" rest).getD []
      let kind := (findStr "kind" rest).getD ""
      -- the oracle must satisfy the store contract for the limit the pool asks for
      match p.verify (sigOk sig) (tok id) nonce now with
      | .error e => (p, showPoolErr e)
      | .ok p1 =>
        let okChoice := match p1.activeHostsLimit (tok id) num with
          | some lim => p1.store.validHostChoice kind lim now choice
          | none => choice.isEmpty
        if !okChoice then (p1, "bad-choice limit=" ++ toString (p1.activeHostsLimit (tok id) num) ++ " eligible=" ++
            joinC (sortStrings ((p1.store.eligibleHosts kind now).map (·.id))))
        else
          let wl := joinC (sortStrings ((p1.whitelistCalls (tok id) num choice).map (·.2)))
          match p1.requestHosts (tok id) num choice (outcomeFn rest) with
          | .ok hs => (p1, s!"ok hosts={joinC (sortStrings hs)} wl={wl}")
          | .error e => (p1, showPoolErr e ++ s!" wl={wl}")
    | _, _, _ => (p, "bad-op")
  | "host" :: conn :: id :: nonce :: sig :: kind :: rest =>
    match int? nonce, findInt "now" rest, (findStr "uset" rest).bind bool?, (findStr "ubad" rest).bind bool? with
    | some nonce, some now, some uset, some ubad =>
      let ov : Option Override := if uset then
        some { hostname := (findStr "uhost" rest).getD "", port := (findStr "uport" rest).getD "", username := (findStr "uuser" rest).getD "" }
        else none
      let c := if conn = "~" then none else some conn
      let (p', r) := p.Host c ((findStr "src" rest).getD "") (sigOk sig) (tok id) nonce (tok kind) ((findStr "payout" rest).getD "") ov ubad now
      match r with
      | .ok _ => (p', "ok")
      | .error e => (p', showPoolErr e)
    | _, _, _, _ => (p, "bad-op")
  | "client" :: conn :: id :: nonce :: sig :: kind :: rest =>
    match int? nonce, (findStr "num" rest).bind int?, findInt "now" rest with
    | some nonce, some num, some now =>
      let choice := (findArg "choice" rest).getD []
      let c := if conn = "~" then none else some conn
      -- validate the oracle against the state in which the store is queried (after verify + connect)
      match p.verify (sigOk sig) (tok id) nonce now with
      | .error e => (p, showPoolErr e)
      | .ok p1 =>
        match p1.connect c "" (tok id) { kind := Pool.parseKindStr (tok kind), isFull := false } now with
        | (p2, .error e) => (p2, showPoolErr e)
        | (p2, .ok _) =>
          let n := Pool.clientNumHosts num
          let okChoice := match p2.activeHostsLimit (tok id) n with
            | some lim => p2.store.validHostChoice (tok kind) lim now choice
            | none => choice.isEmpty
          if !okChoice then (p2, "bad-choice")
          else
            let wl := joinC (sortStrings ((p2.whitelistCalls (tok id) n choice).map (·.2)))
            match p2.requestHosts (tok id) n choice (outcomeFn rest) with
            | .ok hs => (p2, s!"ok hosts={joinC (sortStrings hs)} wl={wl}")
            | .error e => (p2, showPoolErr e ++ s!" wl={wl}")
    | _, _, _ => (p, "bad-op")
  | ["close", conn] => (p.closeRemote conn, "ok")
  | "addnode" :: w :: nonce :: sig :: id :: rest =>
    match int? nonce, findInt "now" rest with
    | some nonce, some now =>
      let (p', r) := p.AddNode (sigOk sig) (tok w) nonce now (tok id)
      match r with
      | .ok _ => (p', "ok")
      | .error e => (p', showPoolErr e)
    | _, _ => (p, "bad-op")
  | "withdraw" :: w :: nonce :: sig :: rest =>
    match int? nonce, findInt "now" rest, findStr "settle" rest with
    | some nonce, some now, some st =>
      let during : Option (String × Int) := match findStr "during" rest with
        | some d => (match d.splitOn ":" with
          | [n, a] => (a.toInt?).map (fun a => (tok n, a))
          | _ => none)
        | none => none
      if (findStr "lookupfault" rest).isSome then
        -- the deposit lookup fails: the request is authenticated (its nonce is consumed), then refused; nothing is paid
        match p.payVerify (sigOk sig) (tok w) nonce now with
        | .error e => (p, showPoolErr e)
        | .ok p1 => if !p1.cfg.settleEnabled then (p1, showPoolErr .withdrawDisabled) else (p1, "err DepositLookup")
      else
      let (p', r) := p.WithdrawDuring (sigOk sig) (tok w) nonce now (st == "ok") during
      match r with
      | .ok pay => (p', s!"ok paid={pay}")
      | .error e => (p', showPoolErr e)
    | _, _, _ => (p, "bad-op")
  | "setnode" :: rest =>
    let (s, o) := storeStep p.store ("setnode" :: rest)
    ({ p with store := s }, o)
  | ["addnb", id, amt] =>
    let (s, o) := storeStep p.store ["addnb", id, amt]
    ({ p with store := s }, o)
  | ["sleep", _] => (p, "ok")
  | "dump" :: rest =>
    match findInt "now" rest with
    | some now => (p, dumpPool p now)
    | none => (p, "bad-op")
  | _ => (p, "bad-op")

end Vipnode.Drv
