/- Driver component `persist`: the persistent driver across reopen, crashes and format migration. -/
import Vipnode.Model.Persist
import Vipnode.Drv.Store
namespace Vipnode.Drv
open Vipnode

def pIds : List String := ["a", "b", "c", "d", "e"]
def pAccts : List String := ["X", "Y", "Z"]

/-- everything one can read back through the store API for the small id universe, as one token -/
def dumpStore (s : Store) : String :=
  let nodes := pIds.filterMap (fun id => match s.getNode id with
    | .ok n => some (s!"{id}:{n.lastSeen}:{untok n.kind}:{showB n.isHost}:{untok n.payout}:{n.block}")
    | .error _ => none)
  let peers := pIds.filterMap (fun id => match s.nodePeers id with
    | .ok ns => some (id ++ ">" ++ "+".intercalate (sortStrings (ns.map (·.id))))
    | .error _ => none)
  let nb := pIds.filterMap (fun id => match s.getNodeBalance id with
    | .ok b => some (s!"{id}={untok b.account}/{b.credit}")
    | .error _ => none)
  let ab := pAccts.map (fun a => let b := s.getAccountBalance a; s!"{a}={untok b.account}/{b.credit}")
  let links := pAccts.map (fun a => a ++ "<" ++ "+".intercalate (sortStrings (s.getAccountNodes a)))
  "N[" ++ ",".intercalate nodes ++ "]P[" ++ ",".intercalate peers ++ "]B[" ++ ",".intercalate nb ++ "]A[" ++
    ",".intercalate ab ++ "]L[" ++ ",".intercalate links ++ "]"

def decodeOp (s : String) : List String := s.splitOn "+"

def runEncoded (s : Store) (ops : List String) : Store :=
  ops.foldl (fun st o => (storeStep st (decodeOp o)).1) s

structure PersistDrv where
  disk : Disk := { version := 2 }
  opened : Bool := false

def persistStep (st : PersistDrv) (args : List String) : PersistDrv × String :=
  match args with
  | "prepare" :: rest =>
    -- a directory written at an older / current / newer format, with some nodes, balances and nonces
    match (findStr "version" rest).bind (·.toNat?) with
    | some v =>
      let ops := (findStr "ops" rest).map (fun o => if o = "" then [] else o.splitOn ";") |>.getD []
      ({ disk := { version := v, store := runEncoded {} ops }, opened := false }, "ok")
    | none => (st, "bad-op")
  | ["golden", kArg] =>
    -- a directory in the current format as every build so far has written it (laid down with raw keys): opening it
    -- is the identity (`migrate_current_identity`), every link, balance and trial balance is read back
    let k := ((findStr "k" [kArg]).bind (·.toNat?)).getD 0
    let base := ["setnode+a+t:1000+1+geth+~+~+0", "setnode+b+t:1000+1+geth+~+~+0", "link+X+a", "addab+X+7"]
    let extra := if k == 0 then ["addnb+b+3"] else if k == 1 then ["link+X+b"] else ["link+Y+b", "addab+Y+-2"]
    let store := runEncoded {} (base ++ extra)
    let d := dumpStore store
    let b := (((d.splitOn "]B[").getD 1 "").splitOn "]A[").getD 0 ""
    let l := (d.splitOn "]L[").getD 1 ""
    ({ disk := { version := 2, store := store }, opened := true }, s!"ok B[{b}] L[{l} trials={store.trials.length}")
  | ["open"] =>
    match openDisk st.disk with
    | .ok d => ({ disk := d, opened := true }, "ok")
    | .error _ => ({ st with opened := false }, "err MigrationNewer")
  | ["torn", _] =>
    -- a partial, never acknowledged append at the end of the log: reopening is the identity (`reopen_identity`)
    match openDisk st.disk with
    | .ok d => ({ disk := d, opened := true }, "ok")
    | .error _ => (st, "err MigrationNewer")
  | ["reopen"] =>
    match openDisk st.disk with
    | .ok d => ({ disk := d, opened := true }, "ok")
    | .error _ => (st, "err MigrationNewer")
  | "op" :: sop =>
    if !st.opened then (st, "bad-op") else
    let (s, o) := storeStep st.disk.store sop
    ({ st with disk := { st.disk with store := s } }, o)
  | ["dump"] => (st, "ok " ++ dumpStore st.disk.store)
  | ["version"] => (st, s!"ok {st.disk.version}")
  | "crash" :: rest =>
    match (findStr "acked" rest).bind (·.toNat?), findStr "ops" rest, findStr "got" rest with
    | some a, some ops, some got =>
      let l := if ops = "" then [] else ops.splitOn ";"
      -- the child keeps applying operations until SIGKILL lands, so it may have completed more than the parent had
      -- read acknowledgements for: the recovered state must be the state after some prefix that contains every
      -- acknowledged operation (each operation is one transaction: no torn prefix)
      let cands := (List.range (l.length + 1 - a)).map (fun i => runEncoded st.disk.store (l.take (a + i)))
      match cands.find? (fun s => dumpStore s = got) with
      | some s => ({ st with disk := { st.disk with store := s } }, "ok crash-consistent")
      | none =>
        let sa := runEncoded st.disk.store (l.take a)
        (st, "inconsistent acked=" ++ toString a ++ " state-after-acked=" ++ dumpStore sa)
    | _, _, _ => (st, "bad-op")
  | "readers" :: _ => (st, "ok violations=0")
  | _ => (st, "bad-op")

end Vipnode.Drv
