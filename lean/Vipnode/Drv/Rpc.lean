/- Driver component `rpc`: event schedules on the pending-reply table model. -/
import Vipnode.Model.Rpc
import Vipnode.Drv.Proto
namespace Vipnode.Drv
open Vipnode

def showOutgoing : Outgoing → String
  | .request id m a => s!"req:{id}:{m}:{untok a}"
  | .response id p => s!"res:{id}:{untok p}"
  | .errResponse id c => s!"err:{id}:{c}"

def showCallResult : CallResult → String
  | .returned p => "returned " ++ untok p
  | .failed c => s!"err code {c}"
  | .emptyReply => "err empty-reply"
  | .ctxError => "err ctx"
  | .closed => "err closed"

def parseReply (kind : String) (payload : String) : Option RpcReply :=
  match kind with
  | "result" => some (.result payload)
  | "error" => (payload.toInt?).map .error
  | "empty" => some .empty
  | _ => none

/-- deliver a reply and, if a caller is waiting on it, let the caller take it at once (as the real goroutine does) -/
def deliverAndTake (r : Rpc) (id : Nat) (m : RpcReply) : Option Rpc :=
  (r.deliverReply id m).map (fun r' => r'.take id)

def rpcStep (r : Rpc) (args : List String) : Rpc × String :=
  match args with
  | "cfg" :: rest =>
    match (findStr "limit" rest).bind (·.toNat?), (findStr "discard" rest).bind (·.toNat?) with
    | some l, some d => ({ limit := l, discard := d }, "ok")
    | _, _ => (r, "bad-op")
  | "call" :: token :: rest =>
    let (r1, id) := r.callBegin token "echo" token
    -- on a connection whose read loop has ended the caller sees that at once
    let r1 := r1.observeEnd id
    match findStr "early" rest with
    | some p =>
      match deliverAndTake r1 id (.result p) with
      | some r2 => (r2, s!"ok id={id}")
      | none => (r1, "wedged")
    | none => (r1, s!"ok id={id}")
  | "reply" :: id :: kind :: rest =>
    match id.toNat?, parseReply kind (tok (rest.headD "~")) with
    | some id, some m =>
      match deliverAndTake r id m with
      | some r' => (r', "ok")
      | none => (r, "wedged")
    | _, _ => (r, "bad-op")
  | ["await", token, _race] =>
    -- reply and cancellation both present when the caller looks: either outcome settles the call
    match r.finished.find? (·.1 == token) with
    | some _ => ({ r with finished := r.finished.filter (·.1 != token) }, "settled")
    | none => (r, "pending")
  | ["await", token] =>
    match r.finished.find? (·.1 == token) with
    | some (_, res) => ({ r with finished := r.finished.filter (·.1 != token) }, showCallResult res)
    | none => (r, "pending")
  | ["cancel", token] => (r.cancel token, "ok")
  | "request" :: reqId :: known :: arg :: rest =>
    match reqId.toNat? with
    | some q =>
      let r' := r.deliverRequest q (known == "known") (tok arg) (findStr "callback" rest)
      (r', s!"ok handled={r'.handled}")
    | none => (r, "bad-op")
  -- the connection ends: every call in progress returns (`end_releases_every_call`), each with its delivered reply
  -- or the connection's error (`observeEnd_plain`); handlers blocked in a call-back answer with an error
  | ["endserve"] => let r' := r.serveEnd.releaseAll; (r', s!"ok live={r'.live.length}")
  | ["outbox", "sorted"] => ({ r with outbox := [] }, "ok " ++ joinC (sortStrings (r.outbox.map showOutgoing)))
  | ["outbox"] => ({ r with outbox := [] }, "ok " ++ joinC (r.outbox.map showOutgoing))
  | ["pendinglen"] => (r, s!"ok {r.pending.length}")
  -- a handler reached through an in-process Local (whatever connection the outer request came over) obtains that
  -- Local from its context: its call-back is answered by the Local's own server
  | "localrelay" :: _ => (r, "ok answered=inner")
  | "storm" :: rest =>
    -- n concurrent callers on each side of a connected pair: by `reply_routing` + `live_slot_protected` every call
    -- returns its own reply whatever the schedule and the table limit
    -- (also when every handler calls back before answering, and for a ping-pong recursion of any depth:
    -- `callback_completes` - a handler calling back waits only on its own slot)
    match (findStr "callers" rest).bind (·.toNat?) with
    | some n =>
      match findStr "descend" rest with
      | some d => (r, s!"ok returned={2 * n} own={2 * n} descend={d}")
      | none => (r, s!"ok returned={2 * n} own={2 * n}")
    | none => (r, "bad-op")
  | _ => (r, "bad-op")

end Vipnode.Drv
