/- Driver component `noncettl`: verdicts of the never-forgetting nonce table on the history the real badger store
(short freshness window, real clock, real TTL expiry) went through (C05 `ttl_safe`). -/
import Vipnode.Drv.Proto
import Vipnode.Model.NonceTtl
namespace Vipnode.Drv
open Vipnode Vipnode.NonceTtl

def nonceTtlStep (args : List String) : String :=
  match args with
  | "run" :: rest =>
    match findInt "window" rest, findArg "ev" rest with
    | some w, some evs =>
      let subs := evs.filterMap (fun e => match e.splitOn ":" with
        | [id, n, now] => match n.toInt?, now.toInt? with
          | some n, some now => some ({ id := id, nonce := n, now := now, exp := 0 } : ESub)
          | _, _ => none
        | _ => none)
      if subs.length ≠ evs.length then "bad-op"
      else "verdicts=" ++ ",".intercalate (((mrun w [] subs).2).map showB)
    | _, _ => "bad-op"
  | _ => "bad-op"

end Vipnode.Drv
