/- Driver component `uri`: node-URI normalisation on structured overrides. -/
import Vipnode.Model.NodeURI
import Vipnode.Drv.Proto
namespace Vipnode.Drv
open Vipnode

def uriStep (args : List String) : String :=
  match args with
  | "norm" :: rest =>
    match findStr "id" rest, findStr "src" rest, (findStr "uset" rest).bind bool?, (findStr "ubad" rest).bind bool? with
    | some id, some src, some uset, some ubad =>
      if ubad then "err UriParse"
      else
        let ov : Option Override := if uset then
          some { hostname := (findStr "uhost" rest).getD "", port := (findStr "uport" rest).getD "", username := (findStr "uuser" rest).getD "" }
          else none
        match normalizeNodeURI ov id src "30303" with
        | .error .parse => "err UriParse"
        | .error .idMismatch => "err UriIdMismatch"
        | .error .missingHost => "err UriMissingHost"
        | .ok a =>
          -- what a client gets when it parses the advertised address back
          match splitHostPortL (joinHostPortL a.host.toList a.port.toList) with
          | some (h, p) => s!"ok id={untok a.id} host={untok (String.ofList h)} port={untok (String.ofList p)}"
          | none => "ok-unparsable"
    | _, _, _, _ => "bad-op"
  | _ => "bad-op"

end Vipnode.Drv
