/- Driver component `conc`: what every schedule of a concurrent workload must produce (C10 / C01 / C05 / C07). -/
import Vipnode.Drv.Proto
namespace Vipnode.Drv
open Vipnode

/-- `k:v,k:v` (or `k=v`) lists -/
def parsePairs (sep : String) (l : List String) : List (String × String) :=
  l.filterMap (fun e => match e.splitOn sep with
    | [k, v] => some (k, v)
    | _ => none)

def lookupS (l : List (String × String)) (k : String) : String := ((l.find? (·.1 == k)).map (·.2)).getD ""

partial def concStep (args : List String) : String :=
  match args with
  | "freshcredit" :: rest => concStep ("balances" :: rest)
  -- whether a request is honoured is a function of that request alone (C04 `verify_iff`, `altered_refused`): however
  -- many identities are being verified at once, every genuine fresh request is accepted and every altered one refused
  | "sigstorm" :: _ => "ok goodrefused=0 alteredaccepted=0 other=0"
  -- a re-registration racing the node's own keep-alive: in both serial orders the record carries the new
  -- registration (a keep-alive only refreshes the check-in and the block number; C10 `peers_state_serialisable`)
  | "noderace" :: _ => "ok rounds-with-stale-record=0 failed=0"
  -- clients away for different lengths of time billed at the same moment: each pays its own elapsed time per peer,
  -- the host gets the sum (C02 `update_exact`; C01 zero-sum for every interleaving of atomic store steps)
  | "billrace" :: _ => "ok rounds-nonzero-sum=0 rounds-wrong-charge=0 failed=0"
  | "linkrace" :: rest =>
    -- as `balances`, and no trial balance survives a link (C13 `trial_never_both_nor_lost`)
    if findStr "trials" rest == some "0" then concStep ("balances" :: rest)
    else "lost-update a trial balance was kept beside the wallet it was migrated into: trials=" ++ (findStr "trials" rest).getD "?"
  | "balances" :: rest =>
    -- no update is lost: every final balance is the sum of the acknowledged deltas (any schedule; C10 `no_lost_update`)
    match findArg "acked" rest, findArg "got" rest, findStr "total" rest with
    | some acked, some got, some total =>
      let a := parsePairs ":" acked
      let g := parsePairs ":" got
      let sum := sumInts (a.filterMap (fun kv => kv.2.toInt?))
      if a == g ∧ total.toInt? == some sum then "ok failed=0" else "lost-update acked=" ++ joinC acked ++ " got=" ++ joinC got ++ " total=" ++ total
    | _, _, _ => "bad-op"
  | "nonces" :: _ => "ok rounds-with-duplicates=0 rounds-with-none=0 rounds-with-regress=0"
  | "pool" :: rest =>
    match findArg "spec" rest, findArg "minutes" rest, findArg "got" rest, findStr "total" rest with
    | some spec, some minutes, some got, some total =>
      -- client i was last seen k_i minutes before the manager's clock, price 1000 per minute and peer; host j earns
      -- into its own wallet w(j)
      let clients := (spec.zip minutes).filterMap (fun (sp, m) => match sp.splitOn ":", m.toNat? with
        | [c, hs], some k => some (c, (if hs = "" then [] else hs.splitOn "+"), k)
        | _, _ => none)
      let clientBal := clients.map (fun (c, hs, k) => (c, - ((k * 1000 * hs.length : Nat) : Int)))
      let hostIdx := fun (h : String) => ((h.drop 1).toString.toNat?).getD 0
      let earn := fun (w : Nat) => sumInts (clients.flatMap (fun (_, hs, k) =>
        (hs.filter (fun h => hostIdx h == w)).map (fun _ => ((k * 1000 : Nat) : Int))))
      let expect := sortStrings ((clientBal.map (fun (c, b) => s!"{c}={b}")) ++ [s!"w0={earn 0}", s!"w1={earn 1}", s!"w2={earn 2}", s!"w3={earn 3}"])
      if expect == got.map tok ∧ total == "0" then "ok failed=0"
      else "not-serialisable expected=" ++ joinC expect ++ " got=" ++ joinC got ++ " total=" ++ total
    | _, _, _, _ => "bad-op"
  | "samenode" :: rest =>
    -- any serial order of the two keep-alives bills the elapsed stretch once (the second one finds zero elapsed... and
    -- at most one smallest unit more): minutes × 1000 for the single tracked host
    match (findStr "minutes" rest).bind (·.toNat?) with
    | some m => s!"ok billed={m * 1000}"
    | none => "bad-op"
  | "withdraw" :: rest =>
    -- the service serialises withdrawals of a wallet (C07 `racing_withdrawals`): whatever the arrival order, the
    -- attempts form a sequence; the first `failfirst` settlements fail and leave the balance alone, the next one pays
    -- credit − fee and leaves nothing, every later attempt finds less than the minimum
    match (findStr "credit" rest).bind (·.toInt?), (findStr "fee" rest).bind (·.toInt?),
          (findStr "workers" rest).bind (·.toNat?), ((findStr "failfirst" rest).bind (·.toNat?)).getD 0 with
    | some c, some f, some w0, ff =>
      -- requests overtaken by a later nonce are refused at authentication (observed count, one per round)
      let refused := ((findArg "refused" rest).getD ["0"]).map (fun x => x.toNat?.getD 0)
      let rs := refused.map (fun r => if ff < w0 - r then ((1 : Nat), c - f, (0 : Int)) else (0, 0, c))
      let succ := (rs.map (·.1)).foldl (· + ·) 0
      s!"ok successes={succ} paid={sumInts (rs.map (·.2.1))} left={sumInts (rs.map (·.2.2))} maxinflight=1"
    | _, _, _, _ => "bad-op"
  | _ => "bad-op"

end Vipnode.Drv
