/-
Line-protocol helpers shared by all driver components. Core Lean only.
Tokens are separated by single spaces; `~` is the empty string; time-typed
tokens carry a `t:` prefix (the harness rebases them on replay).
-/
import Vipnode.Model.AList
namespace Vipnode.Drv

def tok (s : String) : String := if s = "~" then "" else s
def untok (s : String) : String := if s = "" then "~" else s

def stripT (s : String) : String := if s.startsWith "t:" then (s.drop 2).toString else s

def int? (s : String) : Option Int := (stripT s).toInt?
def nat? (s : String) : Option Nat := (stripT s).toNat?
def bool? (s : String) : Option Bool := if s = "1" then some true else if s = "0" then some false else none
def showB (b : Bool) : String := if b then "1" else "0"
def showT (i : Int) : String := "t:" ++ toString i

/-- `key=a,b,c` → `[a,b,c]`; `key=` → `[]` -/
def listArg? (key : String) (s : String) : Option (List String) :=
  let p := key ++ "="
  if s.startsWith p then
    let r := (s.drop p.length).toString
    if r = "" then some [] else some ((r.splitOn ",").map tok)
  else none

def findArg (key : String) (args : List String) : Option (List String) :=
  args.findSome? (listArg? key)

def findInt (key : String) (args : List String) : Option Int :=
  match findArg key args with
  | some [v] => int? v
  | _ => none

def findStr (key : String) (args : List String) : Option String :=
  let p := key ++ "="
  args.findSome? (fun a => if a.startsWith p then some (tok (a.drop p.length).toString) else none)

def joinC (l : List String) : String := ",".intercalate (l.map untok)
def joinS (l : List String) : String := " ".intercalate l

end Vipnode.Drv
