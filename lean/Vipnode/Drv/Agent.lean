/- Driver components `agent` (keep-alive rounds) and `agentlife` (start/stop/wait life cycle). -/
import Vipnode.Model.Agent
import Vipnode.Drv.Proto
namespace Vipnode.Drv
open Vipnode

def splitSemi (s : String) : List String := if s = "" then [] else s.splitOn ";"

def parseLocal (s : String) : Option LocalPeer :=
  match s.splitOn "|" with
  | [id, host, ok, resolved] => some { id := tok id, host := tok host, uriOk := ok == "1", resolved := tok resolved }
  | _ => none

def parseActive (s : String) : Option ActiveEntry :=
  if s = "!" then some { parsed := none }
  else match s.splitOn "|" with
    | [id, host] => some { parsed := some (tok id, tok host) }
    | _ => none

def showCall : NodeCall → String
  | .removeTrusted id => "rm:" ++ id
  | .disconnect id => "dc:" ++ id
  | .connect u => "co:" ++ u

def showResult : RoundResult → String
  | .ok => "ok" | .updateFailed => "updateFailed" | .peerFailed => "peerFailed"
  | .nodeCallFailed => "nodeCallFailed" | .disconnectErrors => "disconnectErrors"

structure AgentDrv where
  cfg : AgentCfg := {}
  life : Life := {}

def agentStep (st : AgentDrv) (args : List String) : AgentDrv × String :=
  match args with
  | "setup" :: rest =>
    match (findStr "strict" rest).bind bool?, (findStr "target" rest).bind int?, (findStr "full" rest).bind bool?, findStr "kind" rest with
    | some strict, some target, some full, some kind =>
      ({ st with cfg := { strict := strict, target := target, isFull := full, kind := kind } }, "ok")
    | _, _, _, _ => (st, "bad-op")
  | "round" :: rest =>
    match findStr "L" rest, findStr "A" rest, findStr "I" rest, findStr "update" rest, findStr "peer" rest with
    | some l, some a, some i, some upd, some peer =>
      match (splitSemi l).mapM parseLocal, (splitSemi a).mapM parseActive with
      | some locals, some active =>
        let invalid := (splitSemi i).map tok
        let po : PeerOutcome :=
          if peer.startsWith "hosts:" then .hosts (splitSemi ((peer.drop 6).toString))
          else if peer = "fatal" then .fatal else .noPeers
        let failAt := (findStr "failat" rest).bind (·.toNat?)
        let out := round st.cfg locals (upd == "ok") active invalid po failAt
        let pr := match out.peerRequest with
          | some (n, k) => s!"{n}/{untok k}"
          | none => "none"
        (st, s!"calls={",".intercalate (out.nodeCalls.map showCall)} peer={pr} result={showResult out.result}")
      | _, _ => (st, "bad-op")
    | _, _, _, _, _ => (st, "bad-op")
  | _ => (st, "bad-op")

def showLifeOut : LifeOut → String
  | .none => "ok" | .refused => "err AlreadyStarted" | .accepted => "accepted" | .returned true => "returned clean"
  | .returned false => "returned error" | .blocked => "blocked" | .ignored => "ok"

def lifeDrvStep (s : Life) (args : List String) : Life × String :=
  match args with
  | ["reset"] => ({}, "ok")
  | ["start", outcome] =>
    let (s1, o1) := lifeStep s .startBegin
    match o1 with
    | .refused => (s1, "err AlreadyStarted")
    | _ =>
      let ok := outcome == "ok"
      let (s2, _) := lifeStep s1 (.startFinish ok)
      (s2, if ok then "ok" else "err StartFailed")
  | ["start2"] =>
    -- two concurrent starts: at most one is accepted (and then registers successfully), the other is refused
    let (s1, o1) := lifeStep s .startBegin
    let (s2, o2) := lifeStep s1 .startBegin
    let s3 := if o1 == .accepted then (lifeStep s2 (.startFinish true)).1 else s2
    let s4 := if o2 == .accepted then (lifeStep s3 (.startFinish true)).1 else s3
    let sh := fun (o : LifeOut) => match o with | .refused => "err AlreadyStarted" | _ => "ok"
    (s4, joinC (sortStrings [sh o1, sh o2]))
  | ["stop"] => let (s', o) := lifeStep s .stop; (s', showLifeOut o)
  | ["stop2"] =>
    -- two concurrent stops: whichever is served first ends the loop, the other finds it over
    let (s1, o1) := lifeStep s .stop
    let (s2, o2) := lifeStep s1 .stop
    (s2, joinC (sortStrings [showLifeOut o1, showLifeOut o2]))
  | ["stopfail"] =>
    -- the loop ends on its own (failed keep-alive) while a Stop is pending: the Stop returns
    if s.loops = 0 then (s, "no-keepalive") else
    let (s1, _) := lifeStep s (.tick false)
    let (s2, o) := lifeStep s1 .stop
    (s2, showLifeOut o)
  | ["wait"] => let (s', o) := lifeStep s .wait; (s', showLifeOut o)
  | "run" :: fail :: _ =>
    -- some intervals elapse; with `fail` the next keep-alive fails
    if fail = "slow" then
      -- a slow pool does not stretch the period: one keep-alive per tick (`one_keepalive_per_tick`)
      (s, if s.loops == 1 then "loops=1 cadence=ok" else s!"loops={s.loops}")
    else if fail = "fail" then
      let (s', _) := lifeStep s (.tick false)
      (s', s!"loops={s.loops}")
    else (s, s!"loops={s.loops}")
  | _ => (s, "bad-op")

/-- component `ethrpc`: what the node's RPC endpoint receives for each instruction of the agent, per kind of node:
geth takes `admin_*` with the `enode://` prefix added to a bare id; parity only has reserved peers and wants a full
URI (a bare id gets the prefix and the unspecified address); pantheon's `admin_addPeer` / `admin_removePeer` get the
argument as it is -/
def ethRpcStep (kind : String) (args : List String) : String × String :=
  match args with
  | ["kind", k] => if k == "geth" || k == "parity" || k == "pantheon" then (k, "ok " ++ k) else (kind, "bad-op")
  | [op, arg] =>
    let raw := tok arg
    let add := op == "connect" || op == "trust"
    if !(add || op == "disconnect" || op == "untrust") then (kind, "bad-op") else
    if kind == "parity" then
      let a := if hasEnodePrefix raw then raw else "enode://" ++ raw ++ "@[::]:30303"
      (kind, "sent " ++ (if add then "parity_addReservedPeer " else "parity_removeReservedPeer ") ++ untok a)
    else if kind == "pantheon" then
      (kind, "sent " ++ (if add then "admin_addPeer " else "admin_removePeer ") ++ untok raw)
    else
      let a := untok (encodeNodeID raw)
      (kind, match op with
        | "connect" => "sent admin_addPeer " ++ a
        | "disconnect" => "sent admin_removePeer " ++ a
        | "trust" => "sent admin_addTrustedPeer " ++ a
        | _ => "sent admin_removeTrustedPeer " ++ a)
  | _ => (kind, "bad-op")

end Vipnode.Drv
