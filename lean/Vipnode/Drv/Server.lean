/- Driver component `srv`: method registry and positional-argument decoding. -/
import Vipnode.Model.Server
import Vipnode.Drv.Proto
namespace Vipnode.Drv
open Vipnode

def parseGoType (s : String) : Option GoType :=
  match s with
  | "str" => some .str | "int" => some .int | "bool" => some .bool | "obj" => some .obj
  | "pstr" => some (.ptr .str) | "pobj" => some (.ptr .obj) | "pint" => some (.ptr .int)
  | "slice" => some .slice | "anymap" => some .anymap | "any" => some .any
  | _ => none

def parseJKind (s : String) : Option JKind :=
  match s with
  | "n" => some .null | "s" => some .str | "i" => some .int | "f" => some .frac | "b" => some .bool
  | "a" => some .arr | "o" => some .obj | "ob" => some .badobj
  | _ => none

/-- `Name:str.int.obj` or `Name:` ; a trailing `!` marks a method that returns an error -/
def parseMethod (s : String) : Option (String × Method) :=
  match s.splitOn ":" with
  | [n, ts] =>
    let fails := n.endsWith "!"
    let n := if fails then (n.dropEnd 1).toString else n
    let tl := if ts = "" then [] else ts.splitOn "."
    (tl.mapM parseGoType).map (fun t => (n, { types := t, fails := fails }))
  | _ => none

def parseParams (s : String) : Option Params :=
  if s = "absent" then some .absent
  else if s = "null" then some .null
  else if s = "nonarray" then some .nonArray
  else if s = "[]" then some (.array [])
  else ((s.splitOn ".").mapM parseJKind).map .array

def showReply : Reply → String
  | .result => "result"
  | .methodNotFound => "err MethodNotFound"
  | .invalidParams => "err InvalidParams"
  | .internalError => "err Internal"
  | .invalidRequest => "err InvalidRequest"

def srvStep (reg : AList Method) (args : List String) : AList Method × String :=
  match args with
  | "reg" :: pre :: rest =>
    match (findArg "methods" rest), (findArg "allow" rest) with
    | some ms, some allow =>
      match ms.mapM parseMethod with
      | some ml => (register reg (tok pre) ml allow, "ok")
      | none => (reg, "bad-op")
    | _, _ => (reg, "bad-op")
  | "call" :: name :: ps :: rest =>
    match parseParams ps with
    | some p =>
      let (r, inv) := handle reg true (tok name) p
      -- over a real transport the invocation count is not observable
      if rest.contains "noinv=1" then
        (reg, match r with | .result | .internalError => "ran" | _ => showReply r) else (reg, showReply r ++ " inv=" ++ (if inv then "1" else "0"))
    | none => (reg, "bad-op")
  | ["notrequest"] => let (r, inv) := handle reg false "" .absent; (reg, showReply r ++ " inv=" ++ (if inv then "1" else "0"))
  | ["names"] => (reg, "ok " ++ joinC (sortStrings reg.keys))
  | _ => (reg, "bad-op")

/-- `fuzz`: what C15 promises for a message of the given shape (C15 `reply_well_formed`, C14 `serve_never_blocks`):
a request is answered under its own id and the connection stays usable; anything else is not answered; every other
connection keeps being served -/
def fuzzStep (args : List String) : String :=
  -- unsolicited replies on one connection never keep a request on another connection from being answered
  if args.head? = some "wedge" then "alive answered=1" else
  -- a reply nobody waits for does not keep the pool from noticing that the connection ended (C09 `closed_not_callable`)
  if args.head? = some "strayclose" then "alive forgotten=1" else
  -- an agent survives whatever its pool replies (it may fail the call or end its loop; it does not die or hang)
  if args.head? = some "agentreply" then "alive" else
  match findStr "shape" args with
  | some "request" => "alive reply=1 idok=1 sender=open other=ok"
  | some "reply" => "alive reply=0 idok=- sender=open other=ok"
  | some "nonmessage" => "alive reply=0 idok=- sender=any other=ok"
  | _ => "bad-op"

end Vipnode.Drv
