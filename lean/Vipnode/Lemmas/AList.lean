/- Lemmas about the association-list model of Go maps. Core Lean only. -/
import Vipnode.Model.AList
namespace Vipnode
namespace AList
variable {α : Type}

@[simp] theorem get_nil (k : String) : get ([] : AList α) k = none := rfl

theorem get_set_eq (l : AList α) (k : String) (v : α) : get (set l k v) k = some v := by
  induction l with
  | nil => simp [set, get]
  | cons h t ih =>
    obtain ⟨k', v'⟩ := h
    by_cases hk : k' = k
    · simp [set, get, hk]
    · simp [set, get, hk, ih]

theorem get_set_ne (l : AList α) {k k' : String} (v : α) (h : k ≠ k') : get (set l k v) k' = get l k' := by
  induction l with
  | nil => simp [set, get, h]
  | cons hd t ih =>
    obtain ⟨k0, v0⟩ := hd
    by_cases hk : k0 = k
    · subst hk; simp [set, get, h]
    · by_cases hk' : k0 = k'
      · subst hk'; simp [set, get, hk]
      · simp [set, get, hk, hk', ih]

theorem get_del_ne (l : AList α) {k k' : String} (h : k ≠ k') : get (del l k) k' = get l k' := by
  induction l with
  | nil => simp [del, get]
  | cons hd t ih =>
    obtain ⟨k0, v0⟩ := hd
    by_cases hk : k0 = k
    · subst hk; simp [del, get, h]
    · by_cases hk' : k0 = k'
      · subst hk'; simp [del, get, hk]
      · simp [del, get, hk, hk', ih]

/-- sum of an integer measure over the values -/
def sumBy (f : α → Int) (l : AList α) : Int := sumInts (l.vals.map f)

@[simp] theorem sumBy_nil (f : α → Int) : sumBy f ([] : AList α) = 0 := rfl
@[simp] theorem sumBy_cons (f : α → Int) (k : String) (v : α) (t : AList α) :
    sumBy f ((k, v) :: t) = f v + sumBy f t := rfl

/-- value of the measure at a key (0 when unbound) -/
def at0 (f : α → Int) (l : AList α) (k : String) : Int := ((get l k).map f).getD 0

theorem sumBy_set (f : α → Int) (l : AList α) (k : String) (v : α) :
    sumBy f (set l k v) = sumBy f l - at0 f l k + f v := by
  induction l with
  | nil => simp [set, at0, get]
  | cons hd t ih =>
    obtain ⟨k0, v0⟩ := hd
    by_cases hk : k0 = k
    · simp [set, at0, get, hk]; omega
    · simp [set, at0, get, hk] at *; rw [ih]; omega

theorem sumBy_del (f : α → Int) (l : AList α) (k : String) :
    sumBy f (del l k) = sumBy f l - at0 f l k := by
  induction l with
  | nil => simp [del, at0, get]
  | cons hd t ih =>
    obtain ⟨k0, v0⟩ := hd
    by_cases hk : k0 = k
    · simp [del, at0, get, hk]; omega
    · simp [del, at0, get, hk] at *; rw [ih]; omega

/-- keys are pairwise distinct -/
def NoDupKeys (l : AList α) : Prop := l.keys.Nodup

@[simp] theorem keys_nil : keys ([] : AList α) = [] := rfl
@[simp] theorem keys_cons (k : String) (v : α) (t : AList α) : keys ((k, v) :: t) = k :: keys t := rfl

theorem mem_keys_set (l : AList α) (k : String) (v : α) (x : String) :
    x ∈ (set l k v).keys ↔ x ∈ l.keys ∨ x = k := by
  induction l with
  | nil => simp only [set, keys_cons, keys_nil, List.mem_cons, List.not_mem_nil, or_false, false_or]
  | cons hd t ih =>
    obtain ⟨k0, v0⟩ := hd
    by_cases hk : k0 = k
    · subst hk
      simp only [set, if_true, keys_cons, List.mem_cons]
      grind
    · simp only [set, hk, if_false, keys_cons, List.mem_cons, ih]
      grind

theorem noDup_set (l : AList α) (k : String) (v : α) (h : NoDupKeys l) : NoDupKeys (set l k v) := by
  induction l with
  | nil => simp [set, NoDupKeys, keys]
  | cons hd t ih =>
    obtain ⟨k0, v0⟩ := hd
    simp only [NoDupKeys, keys, List.map_cons, List.nodup_cons] at h
    by_cases hk : k0 = k
    · subst hk; simpa [set, NoDupKeys, keys] using h
    · simp only [set, hk, if_false, NoDupKeys, keys, List.map_cons, List.nodup_cons]
      refine ⟨?_, ih h.2⟩
      intro hm
      have := (mem_keys_set t k v k0).1 hm
      rcases this with h1 | h1
      · exact h.1 h1
      · exact hk h1

theorem mem_keys_del (l : AList α) (k x : String) : x ∈ (del l k).keys → x ∈ l.keys := by
  induction l with
  | nil => simp [del]
  | cons hd t ih =>
    obtain ⟨k0, v0⟩ := hd
    by_cases hk : k0 = k
    · simp only [del, hk, if_true, keys_cons, List.mem_cons]; exact Or.inr
    · simp only [del, hk, if_false, keys_cons, List.mem_cons]
      grind

theorem noDup_del (l : AList α) (k : String) (h : NoDupKeys l) : NoDupKeys (del l k) := by
  induction l with
  | nil => simp [del, NoDupKeys, keys]
  | cons hd t ih =>
    obtain ⟨k0, v0⟩ := hd
    simp only [NoDupKeys, keys, List.map_cons, List.nodup_cons] at h
    by_cases hk : k0 = k
    · simpa [del, hk, NoDupKeys, keys] using h.2
    · simp only [del, hk, if_false, NoDupKeys, keys, List.map_cons, List.nodup_cons]
      exact ⟨fun hm => h.1 (mem_keys_del t k k0 hm), ih h.2⟩

theorem get_none_of_not_mem (l : AList α) (k : String) (h : k ∉ l.keys) : get l k = none := by
  induction l with
  | nil => rfl
  | cons hd t ih =>
    obtain ⟨k0, v0⟩ := hd
    simp [keys] at h
    have h1 : k0 ≠ k := fun e => h.1 e.symm
    simp [get, h1]; exact ih (by simpa [keys] using h.2)

theorem get_del_self (l : AList α) (k : String) (h : NoDupKeys l) : get (del l k) k = none := by
  induction l with
  | nil => rfl
  | cons hd t ih =>
    obtain ⟨k0, v0⟩ := hd
    simp only [NoDupKeys, keys, List.map_cons, List.nodup_cons] at h
    by_cases hk : k0 = k
    · subst hk; simp [del]; exact get_none_of_not_mem t k0 h.1
    · simp [del, get, hk]; exact ih h.2

theorem get_some_mem (l : AList α) (k : String) (v : α) (h : get l k = some v) : (k, v) ∈ l := by
  induction l with
  | nil => simp [get] at h
  | cons hd t ih =>
    obtain ⟨k0, v0⟩ := hd
    by_cases hk : k0 = k
    · simp [get, hk] at h; simp [hk, h]
    · simp [get, hk] at h; exact List.mem_cons_of_mem _ (ih h)

end AList
end Vipnode
