/- Helper lemmas about the pool model: effect of each endpoint on the ledger. Core Lean only. -/
import Vipnode.Model.Pool
import Vipnode.Lemmas.Balance
namespace Vipnode
namespace Pool
open Store AList

theorem verify_frame (p p' : Pool) (sigOk : Bool) (id : String) (nonce now : Int)
    (h : p.verify sigOk id nonce now = .ok p') :
    ledgerSum p'.store = ledgerSum p.store ∧ p'.store.nodes = p.store.nodes ∧ p'.store.balances = p.store.balances ∧
    p'.store.trials = p.store.trials ∧ p'.store.accounts = p.store.accounts ∧ p'.store.peers = p.store.peers ∧
    p'.hosts = p.hosts ∧ p'.lookup = p.lookup ∧ p'.cfg = p.cfg ∧ p'.deposits = p.deposits ∧ p'.paid = p.paid := by
  unfold verify at h
  split at h
  · cases h
  · split at h
    · rename_i s hs
      cases h
      unfold checkAndSaveNonce at hs
      split at hs
      · cases hs
      · split at hs <;> cases hs
        simp [ledgerSum]
    · cases h

theorem verify_error (p : Pool) (sigOk : Bool) (id : String) (nonce now : Int) (e : PoolErr)
    (h : p.verify sigOk id nonce now = .error e) : e = .verifyFailed := by
  unfold verify at h
  split at h
  · cases h; rfl
  · split at h <;> cases h; rfl

theorem connect_store (p : Pool) (conn : Option String) (src id : String) (req : ConnectReq) (now : Int) :
    (p.connect conn src id req now).1.store = p.store ∨
    ∃ n : Node, n.id = id ∧ p.store.setNode n = .ok (p.connect conn src id req now).1.store := by
  unfold connect
  simp only
  split
  · exact Or.inl rfl
  · rename_i p1 node hreg
    have hp1 : p1.store = p.store ∧ node.id = id := by
      split at hreg
      · split at hreg
        · cases hreg
        · split at hreg
          · cases hreg
          · split at hreg
            · cases hreg
            · cases hreg; exact ⟨rfl, rfl⟩
      · cases hreg; exact ⟨rfl, rfl⟩
    split
    · simp only; exact Or.inl hp1.1
    · rename_i s hs
      rw [hp1.1] at hs
      split <;> exact Or.inr ⟨node, hp1.2, hs⟩

theorem connect_ledger (p : Pool) (conn : Option String) (src id : String) (req : ConnectReq) (now : Int) :
    ledgerSum (p.connect conn src id req now).1.store = ledgerSum p.store := by
  rcases connect_store p conn src id req now with h | ⟨n, _, h⟩
  · rw [h]
  · exact ledger_setNode _ _ n h

theorem Connect_ledger (p : Pool) (conn : Option String) (src : String) (sigOk : Bool) (id : String) (nonce : Int)
    (req : ConnectReq) (now : Int) :
    ledgerSum (p.Connect conn src sigOk id nonce req now).1.store = ledgerSum p.store := by
  unfold Connect
  split
  · rfl
  · rename_i p1 h
    rw [connect_ledger, (verify_frame p p1 sigOk id nonce now h).1]

theorem managerOnUpdate_ledger (p : Pool) (n : Node) (peers : List String) (mnow : Int) (fail : Nat → Bool)
    (hreg : (p.store.nodes.get n.id).isSome) :
    ledgerSum (p.managerOnUpdate n peers mnow fail).1 = ledgerSum p.store := by
  unfold managerOnUpdate
  split
  · rfl
  · exact onUpdate_ledger _ _ _ _ _ _ _ hreg

theorem managerOnUpdate_frame (p : Pool) (n : Node) (peers : List String) (mnow : Int) (fail : Nat → Bool) :
    (p.managerOnUpdate n peers mnow fail).1.nodes = p.store.nodes ∧ (p.managerOnUpdate n peers mnow fail).1.peers = p.store.peers ∧
    (p.managerOnUpdate n peers mnow fail).1.accounts = p.store.accounts ∧ (p.managerOnUpdate n peers mnow fail).1.nonces = p.store.nonces := by
  unfold managerOnUpdate
  split
  · simp
  · exact onUpdate_frame _ _ _ _ _ _ _

/-- a keep-alive never changes the ledger total: accepted, refused, failed or cut off for low balance,
for every clock reading, peer report and fault pattern -/
theorem Update_ledger (p : Pool) (sigOk : Bool) (id : String) (nonce : Int) (reported : List String) (block : Nat)
    (now mnow : Int) (fail : Nat → Bool) (hk : KeysMatch p.store) :
    ledgerSum (p.Update sigOk id nonce reported block now mnow fail).1.store = ledgerSum p.store := by
  unfold Update
  split
  · rfl
  · rename_i p1 hv
    have hvf := verify_frame p p1 sigOk id nonce now hv
    have hv1 := hvf.1
    split
    · simp only; exact hv1
    · rename_i before hb
      split
      · simp only; exact hv1
      · rename_i s2 inactive hu
        have hl2 := ledger_updateNodePeers p1.store s2 id reported block now inactive hu
        simp only
        split
        · simp only; rw [hl2, hv1]
        · rename_i active ha
          have hid : before.id = id := by
            unfold getNode at hb
            split at hb
            · rename_i n hn
              cases hb
              rw [hvf.2.1] at hn
              exact hk id _ hn
            · cases hb
          have hreg : (s2.nodes.get before.id).isSome := by
            rw [hid]
            unfold updateNodePeers at hu
            split at hu
            · cases hu
            · cases hu; simp [get_set_eq]
          have hm := managerOnUpdate_ledger { p1 with store := s2 } before (active.map (·.id)) mnow fail hreg
          generalize hmo : managerOnUpdate { p1 with store := s2 } before (active.map (·.id)) mnow fail = mo at hm
          obtain ⟨s3, r⟩ := mo
          simp only at hm ⊢
          have : ledgerSum s3 = ledgerSum p.store := by rw [hm, hl2, hv1]
          split <;> (simp only; exact this)

theorem Peer_store (p : Pool) (sigOk : Bool) (id : String) (nonce now : Int) (num : Int) (choice : List String)
    (outcome : String → HostOutcome) :
    ledgerSum (p.Peer sigOk id nonce now num choice outcome).1.store = ledgerSum p.store := by
  unfold Peer
  split
  · rfl
  · rename_i p1 h; exact (verify_frame p p1 sigOk id nonce now h).1

theorem AddNode_ledger (p : Pool) (sigOk : Bool) (wallet : String) (nonce now : Int) (id : String) :
    ledgerSum (p.AddNode sigOk wallet nonce now id).1.store = ledgerSum p.store := by
  unfold AddNode payVerify
  split
  · rfl
  · rename_i p1 h
    have hv := (verify_frame p p1 sigOk wallet nonce now h).1
    split
    · simp only; exact hv
    · rename_i s hs
      simp only; rw [ledger_addAccountNode p1.store s wallet id hs, hv]

theorem Withdraw_cases (p : Pool) (sigOk : Bool) (wallet : String) (nonce now : Int) (settleOk : Bool) :
    (∃ pay, (p.Withdraw sigOk wallet nonce now settleOk).2 = .ok pay ∧
      ledgerSum (p.Withdraw sigOk wallet nonce now settleOk).1.store =
        ledgerSum p.store - (p.store.getAccountBalance wallet).credit) ∨
    (∃ e, (p.Withdraw sigOk wallet nonce now settleOk).2 = .error e ∧
      ledgerSum (p.Withdraw sigOk wallet nonce now settleOk).1.store = ledgerSum p.store) := by
  generalize hr : p.Withdraw sigOk wallet nonce now settleOk = r
  unfold Withdraw payVerify at hr
  split at hr
  · subst hr; exact Or.inr ⟨_, rfl, rfl⟩
  · rename_i p1 h
    have hv := verify_frame p p1 sigOk wallet nonce now h
    simp only at hr
    split at hr
    · subst hr; exact Or.inr ⟨_, rfl, hv.1⟩
    · split at hr
      · subst hr; exact Or.inr ⟨_, rfl, hv.1⟩
      · split at hr
        · subst hr; exact Or.inr ⟨_, rfl, hv.1⟩
        · subst hr
          refine Or.inl ⟨_, rfl, ?_⟩
          simp only
          rw [ledger_addAccountBalance, hv.1]
          simp only [walletBalance, getAccountBalance, hv.2.2.1]
          omega

/-- a withdrawal removes from the ledger exactly the credit it settled, and nothing when it is refused or fails -/
theorem Withdraw_ledger (p : Pool) (sigOk : Bool) (wallet : String) (nonce now : Int) (settleOk : Bool) :
    ledgerSum (p.Withdraw sigOk wallet nonce now settleOk).1.store =
      ledgerSum p.store - settled p (.withdraw sigOk wallet nonce now settleOk) := by
  rcases Withdraw_cases p sigOk wallet nonce now settleOk with ⟨pay, h1, h2⟩ | ⟨e, h1, h2⟩
  · simp only [settled, h1]; exact h2
  · simp only [settled, h1]; rw [h2]; omega

end Pool
end Vipnode
