/- Floor-division arithmetic used by the billing theorems. Core Lean only. -/
import Vipnode.Model.AList
namespace Vipnode

/-- floor(a/I) + floor(b/I) ≤ floor((a+b)/I) ≤ floor(a/I) + floor(b/I) + 1, for a positive divisor -/
theorem ediv_add_bounds (a b I : Int) (hI : 0 < I) :
    a / I + b / I ≤ (a + b) / I ∧ (a + b) / I ≤ a / I + b / I + 1 := by
  have ha := Int.mul_ediv_add_emod a I
  have hb := Int.mul_ediv_add_emod b I
  have hab := Int.mul_ediv_add_emod (a + b) I
  have ha0 := Int.emod_nonneg a (Int.ne_of_gt hI)
  have hb0 := Int.emod_nonneg b (Int.ne_of_gt hI)
  have hab0 := Int.emod_nonneg (a + b) (Int.ne_of_gt hI)
  have ha1 := Int.emod_lt_of_pos a hI
  have hb1 := Int.emod_lt_of_pos b hI
  have hab1 := Int.emod_lt_of_pos (a + b) hI
  -- I * (q_ab - q_a - q_b) = r_a + r_b - r_ab ∈ (-I, 2I)
  have key : I * ((a + b) / I - a / I - b / I) = a % I + b % I - (a + b) % I := by
    have : I * ((a + b) / I - a / I - b / I) = I * ((a + b) / I) - I * (a / I) - I * (b / I) := by
      rw [Int.mul_sub, Int.mul_sub]
    omega
  obtain ⟨d, hd⟩ : ∃ d, d = (a + b) / I - a / I - b / I := ⟨_, rfl⟩
  rw [← hd] at key
  have hlo : -1 < d := by
    by_cases h : d ≤ -1
    · have : I * d ≤ I * (-1) := Int.mul_le_mul_of_nonneg_left h (Int.le_of_lt hI)
      omega
    · omega
  have hhi : d < 2 := by
    by_cases h : 2 ≤ d
    · have : I * 2 ≤ I * d := Int.mul_le_mul_of_nonneg_left h (Int.le_of_lt hI)
      omega
    · omega
  omega


/-- list version: slicing a total `Σ aᵢ` into `k` pieces loses at most `k - 1` units to rounding,
and never gains -/
theorem sliced_floor_bounds (I : Int) (hI : 0 < I) (as : List Int) (hne : as ≠ []) :
    sumInts (as.map (· / I)) ≤ sumInts as / I ∧ sumInts as / I ≤ sumInts (as.map (· / I)) + (as.length - 1 : Int) := by
  induction as with
  | nil => exact absurd rfl hne
  | cons a t ih =>
    cases t with
    | nil => simp [sumInts]
    | cons b t' =>
      have ih' := ih (by simp)
      have hb := ediv_add_bounds a (sumInts (b :: t')) I hI
      simp only [sumInts, List.map_cons, List.foldr_cons, List.length_cons] at *
      omega

end Vipnode
