/- Lemmas about the balance manager model. Core Lean only. -/
import Vipnode.Model.Balance
import Vipnode.Lemmas.Store
namespace Vipnode
open Store AList

theorem addNodeBalance_nodes (s s' : Store) (id : String) (amt : Int) (h : s.addNodeBalance id amt = .ok s') :
    s'.nodes = s.nodes ∧ s'.peers = s.peers ∧ s'.accounts = s.accounts ∧ s'.nonces = s.nonces := by
  unfold addNodeBalance at h
  split at h
  · cases h
  · split at h <;> cases h <;> simp

theorem addNodeBalance_ok_of_registered (s : Store) (id : String) (amt : Int) (n : Node) (h : s.nodes.get id = some n) :
    ∃ s', s.addNodeBalance id amt = .ok s' := by
  unfold addNodeBalance; simp only [h]; split <;> exact ⟨_, rfl⟩

/-- crediting peers: the ledger grows by exactly the total that will be charged, whatever credits fail -/
theorem creditPeers_ledger (s : Store) (credit : Int) (fail : Nat → Bool) (k : Nat) (ps : List String) :
    ledgerSum (creditPeers s credit fail k ps).1 = ledgerSum s + (creditPeers s credit fail k ps).2 := by
  induction ps generalizing s k with
  | nil => simp [creditPeers]
  | cons p ps ih =>
    unfold creditPeers
    split
    · simp only; rw [ih]
    · split
      · rename_i s1 h1
        simp only; rw [ih, ledger_addNodeBalance s s1 p credit h1]; omega
      · simp only; rw [ih]

theorem creditPeers_frame (s : Store) (credit : Int) (fail : Nat → Bool) (k : Nat) (ps : List String) :
    (creditPeers s credit fail k ps).1.nodes = s.nodes ∧ (creditPeers s credit fail k ps).1.peers = s.peers ∧
    (creditPeers s credit fail k ps).1.accounts = s.accounts ∧ (creditPeers s credit fail k ps).1.nonces = s.nonces := by
  induction ps generalizing s k with
  | nil => simp [creditPeers]
  | cons p ps ih =>
    unfold creditPeers
    split
    · simp only; exact ih s (k+1)
    · split
      · rename_i s1 h1
        have := addNodeBalance_nodes s s1 p credit h1
        simp only
        have h2 := ih s1 (k+1)
        exact ⟨by rw [h2.1, this.1], by rw [h2.2.1, this.2.1], by rw [h2.2.2.1, this.2.2.1], by rw [h2.2.2.2, this.2.2.2]⟩
      · simp only; exact ih s (k+1)

/-- `onUpdate` never creates or destroys credit when the billed node is registered — for every
clock reading, price, peer list and every pattern of failing credit calls, including the
low-balance outcome. -/
theorem onUpdate_ledger (cfg : BalCfg) (s : Store) (d : AList Int) (n : Node) (peers : List String) (now : Int)
    (fail : Nat → Bool) (hreg : (s.nodes.get n.id).isSome) :
    ledgerSum (onUpdate cfg s d n peers now fail).1 = ledgerSum s := by
  unfold onUpdate
  simp only
  split
  · split <;> rfl
  · split
    · rfl
    · split
      · split <;> rfl
      · have hl := creditPeers_ledger s (intervalCredit cfg now n.lastSeen) fail 0 peers
        have hf := (creditPeers_frame s (intervalCredit cfg now n.lastSeen) fail 0 peers).1
        generalize hcp : creditPeers s (intervalCredit cfg now n.lastSeen) fail 0 peers = cp at hl hf
        obtain ⟨s1, total⟩ := cp
        simp only at hl hf ⊢
        have hreg1 : (s1.nodes.get n.id).isSome := by rw [hf]; exact hreg
        obtain ⟨nn, hnn⟩ := Option.isSome_iff_exists.1 hreg1
        obtain ⟨s2, hs2⟩ := addNodeBalance_ok_of_registered s1 n.id (-total) nn hnn
        rw [hs2]
        have h2 := ledger_addNodeBalance s1 s2 n.id (-total) hs2
        simp only
        split
        · simp only; omega
        · split
          · split <;> (simp only; omega)
          · simp only; omega

theorem onUpdate_frame (cfg : BalCfg) (s : Store) (d : AList Int) (n : Node) (peers : List String) (now : Int)
    (fail : Nat → Bool) :
    (onUpdate cfg s d n peers now fail).1.nodes = s.nodes ∧ (onUpdate cfg s d n peers now fail).1.peers = s.peers ∧
    (onUpdate cfg s d n peers now fail).1.accounts = s.accounts ∧ (onUpdate cfg s d n peers now fail).1.nonces = s.nonces := by
  unfold onUpdate
  simp only
  split
  · split <;> simp
  · split
    · simp
    · split
      · split <;> simp
      · have hf := creditPeers_frame s (intervalCredit cfg now n.lastSeen) fail 0 peers
        generalize hcp : creditPeers s (intervalCredit cfg now n.lastSeen) fail 0 peers = cp at hf
        obtain ⟨s1, total⟩ := cp
        simp only at hf ⊢
        split
        · simp only; exact hf
        · rename_i s2 hs2
          have h2 := addNodeBalance_nodes s1 s2 n.id (-total) hs2
          have : s2.nodes = s.nodes ∧ s2.peers = s.peers ∧ s2.accounts = s.accounts ∧ s2.nonces = s.nonces :=
            ⟨by rw [h2.1, hf.1], by rw [h2.2.1, hf.2.1], by rw [h2.2.2.1, hf.2.2.1], by rw [h2.2.2.2, hf.2.2.2]⟩
          split
          · simp only; exact this
          · split
            · split <;> (simp only; exact this)
            · simp only; exact this

end Vipnode
