/- Invariants of the pending-reply table model. Core Lean only. -/
import Vipnode.Model.Rpc
namespace Vipnode
namespace Rpc

/-- ids of the slots are pairwise distinct -/
def NodupIds (l : List Slot) : Prop := (l.map (·.id)).Nodup

theorem mem_insertSorted (s x : Slot) (l : List Slot) : x ∈ insertSorted s l ↔ x = s ∨ x ∈ l := by
  induction l with
  | nil => simp [insertSorted]
  | cons h t ih =>
    simp only [insertSorted]
    split
    · simp
    · simp only [List.mem_cons, ih]
      constructor
      · intro hx; rcases hx with hx | hx | hx
        · exact Or.inr (Or.inl hx)
        · exact Or.inl hx
        · exact Or.inr (Or.inr hx)
      · intro hx; rcases hx with hx | hx | hx
        · exact Or.inr (Or.inl hx)
        · exact Or.inl hx
        · exact Or.inr (Or.inr hx)

theorem mem_sorted (l : List Slot) (x : Slot) : x ∈ l.foldr insertSorted [] ↔ x ∈ l := by
  induction l with
  | nil => simp
  | cons h t ih => simp only [List.foldr_cons, mem_insertSorted, ih, List.mem_cons]

theorem eq_of_nodup_ids (l : List Slot) (hn : NodupIds l) (a b : Slot) (ha : a ∈ l) (hb : b ∈ l) (h : a.id = b.id) : a = b := by
  induction l with
  | nil => simp at ha
  | cons x t ih =>
    simp only [NodupIds, List.map_cons, List.nodup_cons, List.mem_map, not_exists, not_and] at hn
    rcases List.mem_cons.1 ha with rfl | ha' <;> rcases List.mem_cons.1 hb with rfl | hb'
    · rfl
    · exact absurd h.symm (hn.1 b hb')
    · exact absurd h (hn.1 a ha')
    · exact ih hn.2 ha' hb'

/-- only slots nobody waits on are candidates for eviction -/
theorem evictable_not_waiting (r : Rpc) (id : Nat) (h : id ∈ r.evictable) :
    ∃ s ∈ r.pending, s.id = id ∧ s.waiting = false := by
  unfold evictable at h
  rw [List.mem_map] at h
  obtain ⟨s, hs, rfl⟩ := h
  have hs' := List.mem_of_mem_take hs
  rw [mem_sorted, List.mem_filter] at hs'
  exact ⟨s, hs'.1, rfl, by simpa using hs'.2⟩

/-- **a slot a caller is waiting on survives eviction** -/
theorem evict_keeps_waiting (r : Rpc) (hn : NodupIds r.pending) (s : Slot) (hs : s ∈ r.pending) (hw : s.waiting = true) :
    s ∈ r.evict.pending := by
  unfold evict
  split
  · simp only
    rw [List.mem_filter]
    refine ⟨hs, ?_⟩
    simp only [Bool.not_eq_true', List.contains_eq_mem, decide_eq_false_iff_not]
    intro hmem
    obtain ⟨s', hs', hid, hw'⟩ := evictable_not_waiting r s.id hmem
    -- two slots with the same id: the same slot
    have : s' = s := eq_of_nodup_ids r.pending hn s' s hs' hs hid
    rw [this, hw] at hw'; cases hw'
  · exact hs

theorem evict_sublist (r : Rpc) : r.evict.pending.Sublist r.pending := by
  unfold evict
  split
  · exact List.filter_sublist
  · exact List.Sublist.refl _

theorem evict_nodup (r : Rpc) (hn : NodupIds r.pending) : NodupIds r.evict.pending := by
  unfold NodupIds at *
  exact ((evict_sublist r).map _).nodup hn

theorem evict_frame (r : Rpc) : r.evict.live = r.live ∧ r.evict.nextId = r.nextId ∧ r.evict.handlers = r.handlers ∧
    r.evict.finished = r.finished ∧ r.evict.outbox = r.outbox ∧ r.evict.handled = r.handled ∧ r.evict.clock = r.clock ∧
    r.evict.limit = r.limit ∧ r.evict.discard = r.discard := by
  unfold evict; split <;> simp

end Rpc
end Vipnode

namespace Vipnode
namespace Rpc

theorem slot?_some (r : Rpc) (id : Nat) (s : Slot) (h : r.slot? id = some s) : s ∈ r.pending ∧ s.id = id := by
  unfold slot? at h
  exact ⟨List.mem_of_find?_eq_some h, by simpa using List.find?_some h⟩

theorem slot?_none (r : Rpc) (id : Nat) (h : r.slot? id = none) : ∀ s ∈ r.pending, s.id ≠ id := by
  unfold slot? at h
  intro s hs e
  have := List.find?_eq_none.1 h s hs
  simp [e] at this

theorem slot?_of_mem (r : Rpc) (hn : NodupIds r.pending) (s : Slot) (hs : s ∈ r.pending) : r.slot? s.id = some s := by
  cases h : r.slot? s.id with
  | none => exact absurd rfl (slot?_none r s.id h s hs)
  | some s' =>
    obtain ⟨hm, hid⟩ := slot?_some r s.id s' h
    rw [eq_of_nodup_ids r.pending hn s' s hm hs hid]

/-- what `pendingChan` does to the table: nothing but eviction of non-waiting slots, marking, or appending a fresh slot -/
theorem pendingChan_spec (r : Rpc) (id : Nat) (w : Bool) (hn : NodupIds r.pending) :
    NodupIds (r.pendingChan id w).pending ∧
    (∃ s ∈ (r.pendingChan id w).pending, s.id = id ∧ (w = true → s.waiting = true) ∧
        (s.buf = none ∨ ∃ s0 ∈ r.pending, s0.id = id ∧ s0.buf = s.buf)) ∧
    (∀ s ∈ r.pending, s.waiting = true → ∃ s' ∈ (r.pendingChan id w).pending, s'.id = s.id ∧ s'.waiting = true ∧ s'.buf = s.buf) ∧
    (∀ s' ∈ (r.pendingChan id w).pending, s'.id ≠ id → s' ∈ r.pending) ∧
    (∀ s' ∈ (r.pendingChan id w).pending, s'.id = id ∨ s' ∈ r.pending) ∧
    (∀ s' ∈ (r.pendingChan id w).pending, s'.waiting = true → (s'.id = id ∧ w = true) ∨ ∃ s ∈ r.pending, s.id = s'.id ∧ s.waiting = true) ∧
    (∀ s' ∈ (r.pendingChan id w).pending, ∀ m, s'.buf = some m → ∃ s ∈ r.pending, s.id = s'.id ∧ s.buf = some m) := by
  have hne := evict_nodup r hn
  have hsub := evict_sublist r
  have hkeep := evict_keeps_waiting r hn
  unfold pendingChan
  simp only
  cases hs : r.evict.slot? id with
  | none =>
    simp only
    have hfresh := slot?_none r.evict id hs
    refine ⟨?_, ?_, ?_, ?_, ?_, ?_, ?_⟩
    · unfold NodupIds at *
      rw [List.map_append, List.nodup_append]
      refine ⟨hne, by simp, ?_⟩
      intro a ha b hb
      simp at hb; subst hb
      rw [List.mem_map] at ha
      obtain ⟨s, hs', rfl⟩ := ha
      exact hfresh s hs'
    · exact ⟨_, List.mem_append_right _ (List.mem_singleton_self _), rfl, fun h => h, Or.inl rfl⟩
    · intro s hs' hw
      exact ⟨s, List.mem_append_left _ (hkeep s hs' hw), rfl, hw, rfl⟩
    · intro s' hs' hid
      rcases List.mem_append.1 hs' with h | h
      · exact hsub.subset h
      · simp at h; subst h; exact absurd rfl hid
    · intro s' hs'
      rcases List.mem_append.1 hs' with h | h
      · exact Or.inr (hsub.subset h)
      · simp at h; subst h; exact Or.inl rfl
    · intro s' hs' hw
      rcases List.mem_append.1 hs' with h | h
      · exact Or.inr ⟨s', hsub.subset h, rfl, hw⟩
      · simp at h; subst h; simp only at hw; exact Or.inl ⟨rfl, hw⟩
    · intro s' hs' m hm
      rcases List.mem_append.1 hs' with h | h
      · exact ⟨s', hsub.subset h, rfl, hm⟩
      · simp at h; subst h; simp at hm
  | some s0 =>
    obtain ⟨hs0m, hs0id⟩ := slot?_some r.evict id s0 hs
    simp only
    by_cases hmark : (w && !s0.waiting) = true
    · simp only [hmark, if_true]
      have hmapid : (r.evict.pending.map (fun x => if x.id == id then { x with waiting := true } else x)).map (·.id) = r.evict.pending.map (·.id) := by
        rw [List.map_map]; apply List.map_congr_left; intro x _; simp only [Function.comp]; split <;> rfl
      refine ⟨?_, ?_, ?_, ?_, ?_, ?_, ?_⟩
      · unfold NodupIds; rw [hmapid]; exact hne
      · refine ⟨{ s0 with waiting := true }, ?_, hs0id, fun _ => rfl, Or.inr ⟨s0, hsub.subset hs0m, hs0id, rfl⟩⟩
        rw [List.mem_map]; exact ⟨s0, hs0m, by simp [hs0id]⟩
      · intro s hs' hw
        have := hkeep s hs' hw
        by_cases e : s.id = id
        · refine ⟨{ s with waiting := true }, ?_, rfl, rfl, rfl⟩
          rw [List.mem_map]; exact ⟨s, this, by simp [e]⟩
        · refine ⟨s, ?_, rfl, hw, rfl⟩
          rw [List.mem_map]; exact ⟨s, this, by simp [e]⟩
      · intro s' hs' hid
        rw [List.mem_map] at hs'
        obtain ⟨x, hx, rfl⟩ := hs'
        by_cases e : x.id = id
        · simp [e] at hid
        · simp only [beq_iff_eq, e, if_false]; exact hsub.subset hx
      · intro s' hs'
        rw [List.mem_map] at hs'
        obtain ⟨x, hx, rfl⟩ := hs'
        by_cases e : x.id = id
        · left; simp [e]
        · right; simp only [beq_iff_eq, e, if_false]; exact hsub.subset hx
      · intro s' hs' hw
        rw [List.mem_map] at hs'
        obtain ⟨x, hx, rfl⟩ := hs'
        by_cases e : x.id = id
        · left; simp only [beq_iff_eq, e, if_true]; exact ⟨trivial, by simp at hmark; exact hmark.1⟩
        · right; simp only [beq_iff_eq, e, if_false] at hw ⊢; exact ⟨x, hsub.subset hx, rfl, hw⟩
      · intro s' hs' m hm
        rw [List.mem_map] at hs'
        obtain ⟨x, hx, rfl⟩ := hs'
        by_cases e : x.id = id
        · simp only [beq_iff_eq, e, if_true] at hm ⊢; exact ⟨x, hsub.subset hx, e, hm⟩
        · simp only [beq_iff_eq, e, if_false] at hm ⊢; exact ⟨x, hsub.subset hx, rfl, hm⟩
    · simp only [hmark, Bool.false_eq_true, if_false]
      refine ⟨hne, ?_, ?_, ?_, ?_, ?_, ?_⟩
      · refine ⟨s0, hs0m, hs0id, ?_, Or.inr ⟨s0, hsub.subset hs0m, hs0id, rfl⟩⟩
        intro hw; subst hw; simpa using hmark
      · intro s hs' hw; exact ⟨s, hkeep s hs' hw, rfl, hw, rfl⟩
      · intro s' hs' _; exact hsub.subset hs'
      · intro s' hs'; exact Or.inr (hsub.subset hs')
      · intro s' hs' hw; exact Or.inr ⟨s', hsub.subset hs', rfl, hw⟩
      · intro s' hs' m hm; exact ⟨s', hsub.subset hs', rfl, hm⟩

theorem pendingChan_frame (r : Rpc) (id : Nat) (w : Bool) :
    (r.pendingChan id w).live = r.live ∧ (r.pendingChan id w).nextId = r.nextId ∧ (r.pendingChan id w).handlers = r.handlers ∧
    (r.pendingChan id w).finished = r.finished ∧ (r.pendingChan id w).outbox = r.outbox ∧ (r.pendingChan id w).handled = r.handled := by
  have hf := evict_frame r
  unfold pendingChan
  simp only
  split
  · split <;> simp [hf.1, hf.2.1, hf.2.2.1, hf.2.2.2.1, hf.2.2.2.2.1, hf.2.2.2.2.2.1]
  · simp [hf.1, hf.2.1, hf.2.2.1, hf.2.2.2.1, hf.2.2.2.2.1, hf.2.2.2.2.2.1]

end Rpc
end Vipnode
