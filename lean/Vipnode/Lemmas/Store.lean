/- Helper lemmas about the store model. Core Lean only. -/
import Vipnode.Model.Store
import Vipnode.Lemmas.AList
namespace Vipnode
namespace Store
open AList

theorem creditSum_eq (l : AList Bal) : creditSum l = sumBy (·.credit) l := rfl

theorem creditSum_set (l : AList Bal) (k : String) (b : Bal) :
    creditSum (l.set k b) = creditSum l - at0 (·.credit) l k + b.credit := by
  simp only [creditSum_eq]; exact sumBy_set _ l k b

theorem creditSum_del (l : AList Bal) (k : String) :
    creditSum (l.del k) = creditSum l - at0 (·.credit) l k := by
  simp only [creditSum_eq]; exact sumBy_del _ l k

theorem at0_getD (l : AList Bal) (k : String) : at0 (·.credit) l k = ((l.get k).getD {}).credit := by
  unfold at0; cases l.get k <;> rfl

/-- ledger effect of each operation -/
theorem ledger_addNodeBalance (s s' : Store) (id : String) (amt : Int)
    (h : s.addNodeBalance id amt = .ok s') : ledgerSum s' = ledgerSum s + amt := by
  unfold addNodeBalance at h
  split at h
  · cases h
  · split at h
    · cases h; simp only [ledgerSum, creditSum_set, at0_getD]; omega
    · cases h; simp only [ledgerSum, creditSum_set, at0_getD]; omega

theorem ledger_addAccountBalance (s : Store) (a : String) (amt : Int) :
    ledgerSum (s.addAccountBalance a amt) = ledgerSum s + amt := by
  simp only [addAccountBalance, ledgerSum, creditSum_set, at0_getD]; omega

theorem ledger_addAccountNode (s s' : Store) (a id : String)
    (h : s.addAccountNode a id = .ok s') : ledgerSum s' = ledgerSum s := by
  unfold addAccountNode at h
  split at h
  · cases h
  · cases h; simp only [ledgerSum, creditSum_set, creditSum_del, at0_getD]; omega

theorem ledger_setNode (s s' : Store) (n : Node) (h : s.setNode n = .ok s') : ledgerSum s' = ledgerSum s := by
  unfold setNode at h; split at h <;> cases h; rfl

theorem ledger_updateNodePeers (s s' : Store) (id r b now inact)
    (h : s.updateNodePeers id r b now = .ok (s', inact)) : ledgerSum s' = ledgerSum s := by
  unfold updateNodePeers at h; split at h <;> cases h; rfl

theorem ledger_nonce (s s' : Store) (id n now) (h : s.checkAndSaveNonce id n now = .ok s') :
    ledgerSum s' = ledgerSum s := by
  unfold checkAndSaveNonce at h
  split at h
  · cases h
  · split at h <;> cases h; rfl

theorem ledger_applyOp (s : Store) (op : Op) : ledgerSum (applyOp s op) = ledgerSum s + opCredit s op := by
  cases op with
  | setNode n =>
    simp only [applyOp, opCredit]; split
    · rename_i s' h; rw [ledger_setNode s s' n h]; omega
    · omega
  | unp id r b now =>
    simp only [applyOp, opCredit]; split
    · rename_i s' i h; rw [ledger_updateNodePeers s s' id r b now i h]; omega
    · omega
  | addNodeBalance id amt =>
    simp only [applyOp, opCredit]
    split
    · rename_i s' h
      rw [ledger_addNodeBalance s s' id amt h]
      unfold addNodeBalance at h
      split at h
      · cases h
      · rename_i n hn; simp [hn]
    · rename_i e h
      unfold addNodeBalance at h
      split at h
      · rename_i hn; simp [hn]
      · split at h <;> cases h
  | addAccountBalance a amt => simp only [applyOp, opCredit]; exact ledger_addAccountBalance s a amt
  | addAccountNode a id =>
    simp only [applyOp, opCredit]; split
    · rename_i s' h; rw [ledger_addAccountNode s s' a id h]; omega
    · omega
  | nonce id n now =>
    simp only [applyOp, opCredit]; split
    · rename_i s' h; rw [ledger_nonce s s' id n now h]; omega
    · omega

theorem ledger_run (s : Store) (ops : List Op) : ledgerSum (run s ops) = ledgerSum s + creditAdded s ops := by
  induction ops generalizing s with
  | nil => simp [run, creditAdded]
  | cons op ops ih =>
    simp only [run, List.foldl_cons, creditAdded] at *
    rw [ih (applyOp s op), ledger_applyOp]; omega

end Store
end Vipnode

namespace Vipnode
namespace Store
open AList

/-- every node record is stored under its own id (both drivers key `SetNode` by `n.ID`) -/
def KeysMatch (s : Store) : Prop := ∀ k n, s.nodes.get k = some n → n.id = k

theorem keysMatch_empty : KeysMatch Store.empty := by
  intro k n h; simp [Store.empty] at h

theorem keysMatch_set (s : Store) (k : String) (n : Node) (h : KeysMatch s) (hk : n.id = k) (s' : Store)
    (hs : s'.nodes = s.nodes.set k n) : KeysMatch s' := by
  intro k' n' h'
  rw [hs] at h'
  by_cases e : k = k'
  · subst e; rw [get_set_eq] at h'; cases h'; exact hk
  · rw [get_set_ne _ _ e] at h'; exact h k' n' h'

theorem keysMatch_setNode (s s' : Store) (n : Node) (h : KeysMatch s) (hs : s.setNode n = .ok s') : KeysMatch s' := by
  unfold setNode at hs; split at hs <;> cases hs
  exact keysMatch_set s n.id n h rfl _ rfl

theorem keysMatch_unp (s s' : Store) (id r b now i) (h : KeysMatch s) (hs : s.updateNodePeers id r b now = .ok (s', i)) :
    KeysMatch s' := by
  unfold updateNodePeers at hs
  split at hs
  · cases hs
  · rename_i n hn
    cases hs
    exact keysMatch_set s id { n with lastSeen := now, block := b } h (h id n hn) _ rfl

theorem keysMatch_of_nodes_eq (s s' : Store) (h : KeysMatch s) (e : s'.nodes = s.nodes) : KeysMatch s' := by
  intro k n hk; rw [e] at hk; exact h k n hk

end Store
end Vipnode
