/-
Model of `internal/pretty.ParseEther` as the pool binary uses it for `--contract.price` and
`--contract.min-balance` (root package pool.go): a decimal number, optionally followed by a unit.
Covered input language (what the generators produce; everything else the model refuses to judge): an optional `-`,
digits, an optional `.` and more digits, optional spaces, an optional unit name.  Core Lean only.
-/
namespace Vipnode.Ether

def isNumChar (c : Char) : Bool := c.isDigit || c == '-' || c == '.'

/-- digits → natural number -/
def digitsVal (l : List Char) : Option Nat :=
  if l.isEmpty || !l.all Char.isDigit then none
  else some (l.foldl (fun n c => n * 10 + (c.toNat - '0'.toNat)) 0)

/-- `[-]ddd[.ddd]` → (numerator, denominator = 10^k) -/
def parseDecimal (l : List Char) : Option (Int × Nat) :=
  let (neg, body) := match l with
    | '-' :: t => (true, t)
    | _ => (false, l)
  let ip := body.takeWhile (· != '.')
  let rest := body.dropWhile (· != '.')
  let fp := match rest with
    | '.' :: t => t
    | _ => []
  if rest.length == 1 then none else          -- a trailing dot
  match digitsVal ip, (if fp.isEmpty then some 0 else digitsVal fp) with
  | some i, some f =>
    let den := 10 ^ fp.length
    let num : Int := (i * den + f : Nat)
    some (if neg then -num else num, den)
  | _, _ => none

def unitFactor (u : String) : Option Int :=
  match u with
  | "wei" => some 1
  | "kwei" | "babbage" => some 1000
  | "mwei" | "lovelace" => some 1000000
  | "gwei" | "shannon" => some 1000000000
  | "microether" | "szabo" => some 1000000000000
  | "milliether" | "finney" => some 1000000000000000
  | "ether" | "eth" => some 1000000000000000000
  | _ => none

def lower (s : String) : String := String.ofList (s.toList.map Char.toLower)
def trimSpaces (l : List Char) : List Char := ((l.dropWhile (· == ' ')).reverse.dropWhile (· == ' ')).reverse

/-- `ParseEther`: `none` = the flag value is rejected -/
def parseEther (s : String) : Option Int :=
  let l := s.toList
  let num := l.takeWhile isNumChar
  let unit := l.dropWhile isNumChar
  if unit.isEmpty then
    -- a bare number is wei (only plain decimal integers are in the covered language)
    match num with
    | '-' :: t => (digitsVal t).map (fun n => -(n : Int))
    | _ => (digitsVal num).map (fun n => (n : Int))
  else if num.isEmpty then none
  else
    match parseDecimal num, unitFactor (lower (String.ofList (trimSpaces unit))) with
    | some (n, d), some f => some ((n * f) / (d : Int))     -- big.Int.Div: Euclidean, the denominator is positive
    | _, _ => none

example : parseEther "100 gwei" = some 100000000000 := by decide
example : parseEther "5 wei" = some 5 := by decide
example : parseEther "0.5 kwei" = some 500 := by decide
example : parseEther "-0.01 gwei" = some (-10000000) := by decide
example : parseEther "12" = some 12 := by decide
example : parseEther "1.5 parsec" = none := by decide
example : parseEther "0.0005 gwei" = some 500000 := by decide

/-- `runPool`'s reading of `--contract.min-balance`: `none` = the binary refuses to start; `some none` = no minimum;
`some (some m)` = minimum `m` — also when `m` is zero or negative -/
def minBalanceFlag (s : String) : Option (Option Int) :=
  if s == "off" then some none else (parseEther s).map some

end Vipnode.Ether
