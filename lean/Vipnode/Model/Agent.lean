/-
Model of the agent (`agent/agent.go`): one keep-alive round (`UpdatePeers`,
`AddPeers`) as a pure function from what the node and the pool answered to the
calls the agent makes, and the start/stop/wait life cycle as a state machine.

Enode URIs are handled structurally: for every URI string the harness reports
what `ethnode.ParseNodeURI` makes of it (id, remote host, or "unparseable");
`net/url` is not re-implemented.  Core Lean only.
-/
namespace Vipnode

/-! ### one keep-alive round -/

structure AgentCfg where
  strict : Bool := false
  target : Int := 3          -- `NumHosts`
  isFull : Bool := false
  kind : String := "geth"    -- `nodeInfo.Kind.String()`
deriving Repr

/-- a peer of the local node: `EnodeID()`, and `ParseNodeURI(EnodeURI())` (`resolved` is the id the agent
would act on: the parsed id, or the raw URI string when it does not parse) -/
structure LocalPeer where
  id : String
  host : String := ""        -- `RemoteHost()` of its URI ("" for loopback / unspecified / no address)
  uriOk : Bool := true
  resolved : String
deriving Repr, DecidableEq

/-- an entry of the pool's `ActivePeers`: `ParseNodeURI` result (id, remote host) or unparseable -/
structure ActiveEntry where
  parsed : Option (String × String)
deriving Repr, DecidableEq

inductive NodeCall
  | removeTrusted (id : String)
  | disconnect (id : String)
  | connect (uri : String)
deriving Repr, DecidableEq

inductive PeerOutcome
  | hosts (uris : List String)   -- the pool returned these host URIs
  | noPeers                      -- an internal-error reply: treated as "no peers for now"
  | fatal                        -- any other error of the peer request
deriving Repr, DecidableEq

inductive RoundResult
  | ok | updateFailed | peerFailed | nodeCallFailed | disconnectErrors
deriving Repr, DecidableEq

structure RoundOut where
  nodeCalls : List NodeCall := []
  peerRequest : Option (Int × String) := none   -- (number, kind) asked of the pool
  result : RoundResult := .ok
deriving Repr, DecidableEq

/-- Go map semantics of `lookup[uri.ID()] = uri.RemoteHost()`: the last entry for an id wins -/
def lookupActive (active : List ActiveEntry) (id : String) : Option String :=
  active.foldl (fun acc e => match e.parsed with
    | some (i, h) => if i = id then some h else acc
    | none => acc) none

/-- strict peering keeps a local peer iff the pool lists its id as active under the same remote host -/
def matchesActive (active : List ActiveEntry) (p : LocalPeer) : Bool :=
  p.uriOk && (lookupActive active p.id == some p.host)

def dedupKeepFirst : List String → List String
  | [] => []
  | x :: t => x :: (dedupKeepFirst t).filter (· != x)

/-- the ids the round un-trusts and disconnects: the pool's invalid peers, plus (strict) the local peers that
do not match the pool's active set; each handled once, in this order -/
def dropList (cfg : AgentCfg) (locals : List LocalPeer) (active : List ActiveEntry) (invalid : List String) : List String :=
  dedupKeepFirst (invalid ++ (if cfg.strict then (locals.filter (fun p => !matchesActive active p)).map (·.resolved) else []))

def peerKind (cfg : AgentCfg) : String := if cfg.isFull then "" else cfg.kind

/-- connect to the returned hosts in order, stopping at the first failing call (`failAt` = index of the failing
node call of the round, if any) -/
def connectCalls (uris : List String) (base : Nat) (failAt : Option Nat) : List NodeCall × Bool :=
  match uris with
  | [] => ([], false)
  | u :: us =>
    if failAt = some base then ([.connect u], true)
    else let (cs, f) := connectCalls us (base + 1) failAt; (.connect u :: cs, f)

/-- one round of `UpdatePeers`. `updateOk`: did the keep-alive call succeed; `invalid`: the pool's invalid peers
(resolved ids); `numActive`: length of the pool's active list. -/
def round (cfg : AgentCfg) (locals : List LocalPeer) (updateOk : Bool) (active : List ActiveEntry)
    (invalid : List String) (peer : PeerOutcome) (failAt : Option Nat := none) : RoundOut :=
  if !updateOk then { result := .updateFailed }
  else
    let drops := dropList cfg locals active invalid
    let dropCalls := drops.flatMap (fun id => [NodeCall.removeTrusted id, NodeCall.disconnect id])
    let dropFailed := match failAt with
      | some k => decide (k < dropCalls.length)
      | none => false
    let need := cfg.target - active.length
    if need ≤ 0 then { nodeCalls := dropCalls, result := if dropFailed then .disconnectErrors else .ok }
    else
      match peer with
      | .fatal => { nodeCalls := dropCalls, peerRequest := some (need, peerKind cfg), result := .peerFailed }
      | .noPeers => { nodeCalls := dropCalls, peerRequest := some (need, peerKind cfg),
                      result := if dropFailed then .disconnectErrors else .ok }
      | .hosts uris =>
        let (cs, failed) := connectCalls uris dropCalls.length failAt
        { nodeCalls := dropCalls ++ cs, peerRequest := some (need, peerKind cfg),
          result := if failed then .nodeCallFailed else if dropFailed then .disconnectErrors else .ok }

/-! ### life cycle (`Start` / `Stop` / `Wait` / the update loop) as atomic steps

`startBegin` is the check-and-set of `started` under the agent's mutex; the pool registration and first update
happen between `startBegin` and `startFinish`, outside the mutex. -/

structure Life where
  started : Bool := false    -- a run (start attempt or loop) is in progress
  starting : Bool := false   -- between `startBegin` and `startFinish`
  loops : Nat := 0           -- live update loops
  waitBuf : List Bool := []   -- results of finished runs not yet collected by `Wait`, oldest first (true = clean stop)
  keepalives : Nat := 0
deriving Repr, DecidableEq

inductive LifeEv
  | startBegin
  | startFinish (ok : Bool)      -- registration + first update succeeded / failed
  | tick (ok : Bool)             -- the interval elapsed; the keep-alive succeeded / failed
  | stop
  | wait
deriving Repr, DecidableEq

inductive LifeOut
  | none | refused | accepted | returned (clean : Bool) | blocked | ignored
deriving Repr, DecidableEq

def lifeStep (s : Life) : LifeEv → Life × LifeOut
  | .startBegin => if s.started then (s, .refused) else ({ s with started := true, starting := true }, .accepted)
  | .startFinish ok =>
    if !s.starting then (s, .ignored)
    else if ok then ({ s with starting := false, loops := s.loops + 1 }, .none)
    else ({ s with starting := false, started := false }, .none)
  | .tick ok =>
    if s.loops = 0 then (s, .ignored)
    else if ok then ({ s with keepalives := s.keepalives + 1 }, .none)
    else ({ s with loops := s.loops - 1, started := false, waitBuf := s.waitBuf ++ [false], keepalives := s.keepalives + 1 }, .none)
  | .stop =>
    if s.loops = 0 then (s, if s.started then .blocked else .ignored)
    else ({ s with loops := s.loops - 1, started := false, waitBuf := s.waitBuf ++ [true] }, .none)
  | .wait =>
    match s.waitBuf with
    | r :: rest => ({ s with waitBuf := rest }, .returned r)
    | [] => (s, .blocked)

def lifeRun (s : Life) (evs : List LifeEv) : Life := evs.foldl (fun s e => (lifeStep s e).1) s

/-- `ethnode.encodeNodeID`: geth wants the `enode://` prefix; nothing else of the argument is touched -/
def hasEnodePrefix (s : String) : Bool := "enode://".toList.isPrefixOf s.toList
def encodeNodeID (s : String) : String := if hasEnodePrefix s then s else "enode://" ++ s

end Vipnode
