/-
Model of what the persistent driver adds to the store contract
(`pool/store/badger`): every store method is one transaction, the database
survives close/reopen and crashes at transaction granularity, and opening runs
the format migration (`migration.go`, `versions.go`).

Badger's own guarantees — a committed transaction is atomic and durable — are
*assumed* (sampled by the kill-and-reopen stream); what is modelled is
vipnode's use of them.  Core Lean only.
-/
import Vipnode.Model.Store
namespace Vipnode

/-- the on-disk image: the abstract store content plus the format version key -/
structure Disk where
  version : Nat := 0
  store : Store := {}
deriving Repr

def latestVersion : Nat := 2

inductive MigrateErr | newer
deriving Repr, DecidableEq

/-- one migration step, as in `versions.go` -/
def migrateStep (d : Disk) : Disk :=
  match d.version with
  | 0 => { d with version := 1 }
  | 1 => { version := 2, store := { d.store with nonces := [] } }   -- the nonce table is dropped (TTL introduced)
  | _ => d

/-- `MigrateLatest`, run inside one transaction by `Open` -/
def migrate (d : Disk) : Except MigrateErr Disk :=
  if d.version = latestVersion then .ok d
  else if latestVersion < d.version then .error .newer
  else .ok (migrateStep (migrateStep d))   -- at most two steps from version 0

/-- `Open`: migrate, or refuse and leave the files alone -/
def openDisk (d : Disk) : Except MigrateErr Disk := migrate d

/-- a run of the pool process on a disk image: open, apply operations (each one transaction), then either a clean
close or a crash; with `partial = some op` the crash hits while `op`'s transaction is being committed and
`committed` says whether badger had made it durable -/
def runProcess (d : Disk) (ops : List Store.Op) (inflight : Option (Store.Op × Bool)) : Except MigrateErr Disk :=
  match openDisk d with
  | .error e => .error e
  | .ok d1 =>
    let s := Store.run d1.store ops
    let s' := match inflight with
      | some (op, true) => Store.applyOp s op
      | _ => s
    .ok { d1 with store := s' }

end Vipnode
