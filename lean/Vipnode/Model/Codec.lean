/-
Byte-level model of message framing on the stream codec (`jsonrpc2/codecs.go`:
one `json.Decoder` per connection reading a byte stream that the transport may
split and coalesce arbitrarily).

`json.Decoder` itself is not re-implemented; what is modelled is what makes a
decoder find the end of a top-level JSON object: brace depth outside string
literals, string literals with backslash escapes.  Core Lean only.
-/
namespace Vipnode

structure Scan where
  depth : Nat := 0
  inStr : Bool := false
  esc : Bool := false
deriving Repr, DecidableEq

def cOpen : UInt8 := 123     -- {
def cClose : UInt8 := 125    -- }
def cQuote : UInt8 := 34     -- "
def cBackslash : UInt8 := 92 -- \
def cNewline : UInt8 := 10

/-- advance the scanner by one byte; the flag says "a top-level object ended at this byte" -/
def scanByte (s : Scan) (b : UInt8) : Scan × Bool :=
  if s.inStr then
    if s.esc then ({ s with esc := false }, false)
    else if b = cBackslash then ({ s with esc := true }, false)
    else if b = cQuote then ({ s with inStr := false }, false)
    else (s, false)
  else if b = cQuote then ({ s with inStr := true }, false)
  else if b = cOpen then ({ s with depth := s.depth + 1 }, false)
  else if b = cClose then
    if s.depth = 1 then ({ s with depth := 0 }, true)
    else ({ s with depth := s.depth - 1 }, false)
  else (s, false)

/-- the reader's persistent state: scanner, bytes of the message being assembled and messages delivered
(both newest first, so that consuming a byte is constant time) -/
structure Reader where
  scan : Scan := {}
  curRev : List UInt8 := []
  doneRev : List (List UInt8) := []
deriving Repr, DecidableEq

def Reader.done (r : Reader) : List (List UInt8) := r.doneRev.reverse

def isSpace (b : UInt8) : Bool := b = 32 || b = 10 || b = 13 || b = 9

/-- consume one byte: whitespace between messages is skipped; a message is delivered when its object closes -/
def feed (r : Reader) (b : UInt8) : Reader :=
  if r.scan.depth = 0 ∧ r.scan.inStr = false ∧ r.curRev = [] ∧ isSpace b then r
  else
    let (s', fin) := scanByte r.scan b
    if fin then { scan := s', curRev := [], doneRev := (b :: r.curRev).reverse :: r.doneRev }
    else { r with scan := s', curRev := b :: r.curRev }

def feedAll (r : Reader) (bs : List UInt8) : Reader := bs.foldl feed r

/-- the persistent-decoder codec reading a chunked stream: one decoder state across all reads -/
def readChunks (chunks : List (List UInt8)) : List (List UInt8) :=
  (chunks.foldl feedAll {}).done

/-- the pre-repair codec: a new decoder per message — whatever the previous decoder had read beyond the end of
its message (the rest of that chunk) is lost -/
def feedChunkOld (r : Reader) : List UInt8 → Reader
  | [] => r
  | b :: bs =>
    let r' := feed r b
    if r'.doneRev.length > r.doneRev.length then r' -- message delivered: the rest of the chunk is dropped with the decoder
    else feedChunkOld r' bs

def readChunksOld (chunks : List (List UInt8)) : List (List UInt8) :=
  (chunks.foldl feedChunkOld {}).done

end Vipnode
