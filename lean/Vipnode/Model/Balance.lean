/-
Model of `pool/balance/perinterval.go` (pay-per-interval manager) over the
store model plus the on-chain deposits seen through the contract proxy
(`pool/payment/contract.go: GetNodeBalance`).  Core Lean only.
-/
import Vipnode.Model.Store
namespace Vipnode

structure BalCfg where
  interval : Int := 60000000000
  price : Int := 0
  minBalance : Option Int := none
deriving Repr

def i64max : Int := 9223372036854775807
def i64min : Int := -9223372036854775808

/-- Go `Time.Sub` saturates at the `Duration` range -/
def clampI64 (x : Int) : Int := if x > i64max then i64max else if x < i64min then i64min else x

/-- `intervalCredit`: floor(elapsed × price / interval), Euclidean division as `big.Int.Div` -/
def intervalCredit (cfg : BalCfg) (now last : Int) : Int :=
  (clampI64 (now - last) * cfg.price) / cfg.interval

inductive BalErr
  | store (e : StoreErr)
  | invalidSettings
  | lowBalance (current min : Int)
deriving Repr, DecidableEq

/-- what the manager sees through the contract proxy: store balance + deposit of the linked wallet -/
def spendable (s : Store) (deposits : AList Int) (id : String) : Except StoreErr Bal :=
  match s.getNodeBalance id with
  | .error e => .error e
  | .ok b => if b.account = "" then .ok b else .ok { b with deposit := (deposits.get b.account).getD 0 }

/-- `OnClient` (connect-time minimum balance check; hosts are exempt) -/
def onClient (cfg : BalCfg) (s : Store) (deposits : AList Int) (n : Node) : Except BalErr Unit :=
  match cfg.minBalance with
  | none => .ok ()
  | some m =>
    if n.isHost then .ok ()
    else match spendable s deposits n.id with
      | .error e => .error (.store e)
      | .ok b => if m > b.credit + b.deposit then .error (.lowBalance (b.credit + b.deposit) m) else .ok ()

/-- credit every peer; a failed credit (store error) is not charged.
`fail k` is the fault-injection oracle: does the k-th credit call fail? (never, on a real store with registered peers) -/
def creditPeers (s : Store) (credit : Int) (fail : Nat → Bool) : Nat → List String → Store × Int
  | _, [] => (s, 0)
  | k, p :: ps =>
    if fail k then
      let (s', t) := creditPeers s credit fail (k + 1) ps
      (s', t)
    else match s.addNodeBalance p credit with
      | .ok s1 => let (s', t) := creditPeers s1 credit fail (k + 1) ps; (s', t + credit)
      | .error _ => let (s', t) := creditPeers s credit fail (k + 1) ps; (s', t)

/-- `OnUpdate node peers` at manager clock `now`; `node` is the record *before* the keep-alive refreshed it.
Returns the new store and either the client's balance or an error. The store is returned in every case
because credits may have moved before a low-balance error. -/
def onUpdate (cfg : BalCfg) (s : Store) (deposits : AList Int) (n : Node) (peers : List String) (now : Int)
    (fail : Nat → Bool := fun _ => false) : Store × Except BalErr Bal :=
  let read := fun (s : Store) => match spendable s deposits n.id with
    | .ok b => (s, Except.ok b)
    | .error e => (s, Except.error (BalErr.store e))
  if n.isHost then read s
  else if cfg.interval ≤ 0 ∨ cfg.price = 0 then (s, .error .invalidSettings)
  else
    let credit := intervalCredit cfg now n.lastSeen
    if credit = 0 then read s
    else
      let (s1, total) := creditPeers s credit fail 0 peers
      match s1.addNodeBalance n.id (-total) with
      | .error e => (s1, .error (.store e))
      | .ok s2 =>
        match spendable s2 deposits n.id with
        | .error e => (s2, .error (.store e))
        | .ok b =>
          match cfg.minBalance with
          | some m => if m > b.credit + b.deposit then (s2, .error (.lowBalance (b.credit + b.deposit) m)) else (s2, .ok b)
          | none => (s2, .ok b)

end Vipnode
