/-
Model of `pool/nodeuri.go: normalizeNodeURI` on *structured* inputs: the
override is what `net/url` parsing yields (hostname without brackets, port,
user name); `net/url` itself is not re-implemented (the harness renders the
structured value to a string for the real code, DESIGN.md section 3).
Core Lean only.
-/
namespace Vipnode

structure Override where
  hostname : String := ""
  port : String := ""
  username : String := ""
deriving Repr, DecidableEq

inductive UriErr | parse | idMismatch | missingHost
deriving Repr, DecidableEq

/-- Go `net.JoinHostPort` (on character lists, for the proofs) -/
def joinHostPortL (h p : List Char) : List Char :=
  if ':' ∈ h then '[' :: h ++ ']' :: ':' :: p else h ++ ':' :: p

def joinHostPort (h p : String) : String := String.ofList (joinHostPortL h.toList p.toList)

/-- split at the last colon -/
def splitLastColon : List Char → Option (List Char × List Char)
  | [] => none
  | c :: t =>
    match splitLastColon t with
    | some (h, p) => some (c :: h, p)
    | none => if c = ':' then some ([], t) else none

/-- the characters before the first `]` -/
def beforeBracket : List Char → List Char
  | [] => []
  | c :: t => if c = ']' then [] else c :: beforeBracket t

/-- the suffix starting at the first `]` -/
def fromBracket : List Char → List Char
  | [] => []
  | c :: t => if c = ']' then c :: t else fromBracket t

/-- Go `net.SplitHostPort` -/
def splitHostPortL (s : List Char) : Option (List Char × List Char) :=
  match s with
  | '[' :: rest =>
    match fromBracket rest with
    | ']' :: ':' :: port => if ':' ∈ port then none else some (beforeBracket rest, port)
    | _ => none
  | _ =>
    match splitLastColon s with
    | some (h, p) => if ':' ∈ h then none else some (h, p)
    | none => none

/-- the host the pool advertises: the override's unless empty/unspecified, else the connection's source -/
def chosenHost (o : Option Override) (src : String) : String :=
  match o with
  | some ov => if ov.hostname ≠ "::" ∧ ov.hostname ≠ "" then ov.hostname else src
  | none => src

def chosenPort (o : Option Override) (defPort : String) : String :=
  match o with
  | some ov => if ov.port ≠ "" then ov.port else defPort
  | none => defPort

structure Advertised where
  id : String
  host : String
  port : String
deriving Repr, DecidableEq

def Advertised.render (a : Advertised) : String := "enode://" ++ a.id ++ "@" ++ joinHostPort a.host a.port

/-- the override names a user other than the authenticated node id -/
def usernameMismatch (o : Option Override) (id : String) : Bool :=
  match o with
  | some ov => decide (ov.username ≠ "" ∧ ov.username ≠ id)
  | none => false

def hostMissing (host : String) : Bool := decide (host = "" ∨ host = "::" ∨ host = "[::]")

/-- `normalizeNodeURI(nodeURI, nodeID, defaultHost, defaultPort)` -/
def normalizeNodeURI (o : Option Override) (id src defPort : String) : Except UriErr Advertised :=
  if usernameMismatch o id then .error .idMismatch
  else if hostMissing (chosenHost o src) then .error .missingHost
  else .ok { id := id, host := chosenHost o src, port := chosenPort o defPort }

end Vipnode
