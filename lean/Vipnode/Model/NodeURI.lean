/-
Model of `pool/nodeuri.go: normalizeNodeURI` on *structured* inputs: the
override is what `net/url` parsing yields (hostname without brackets, port,
user name); `net/url` itself is not re-implemented (the harness renders the
structured value to a string for the real code, DESIGN.md section 3).
Core Lean only.
-/
namespace Vipnode

structure Override where
  hostname : String := ""
  port : String := ""
  username : String := ""
deriving Repr, DecidableEq

inductive UriErr | parse | idMismatch | missingHost
deriving Repr, DecidableEq

/-- Go `net.JoinHostPort` -/
def joinHostPort (h p : String) : String :=
  if h.contains ':' then "[" ++ h ++ "]:" ++ p else h ++ ":" ++ p

/-- the host the pool advertises: the override's unless empty/unspecified, else the connection's source -/
def chosenHost (o : Option Override) (src : String) : String :=
  match o with
  | some ov => if ov.hostname ≠ "::" ∧ ov.hostname ≠ "" then ov.hostname else src
  | none => src

def chosenPort (o : Option Override) (defPort : String) : String :=
  match o with
  | some ov => if ov.port ≠ "" then ov.port else defPort
  | none => defPort

structure Advertised where
  id : String
  host : String
  port : String
deriving Repr, DecidableEq

def Advertised.render (a : Advertised) : String := "enode://" ++ a.id ++ "@" ++ joinHostPort a.host a.port

/-- `normalizeNodeURI(nodeURI, nodeID, defaultHost, defaultPort)` -/
def normalizeNodeURI (o : Option Override) (id src defPort : String) : Except UriErr Advertised :=
  let bad : Bool := match o with
    | some ov => decide (ov.username ≠ "" ∧ ov.username ≠ id)
    | none => false
  if bad then .error .idMismatch
  else
    let host := chosenHost o src
    if host = "" ∨ host = "::" ∨ host = "[::]" then .error .missingHost
    else .ok { id := id, host := host, port := chosenPort o defPort }

end Vipnode
