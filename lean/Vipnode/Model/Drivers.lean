/-
Line-by-line transcriptions of the two storage drivers, beside the contract model `Model/Store.lean`.

* `Bdg.*`  — pool/store/badger/badger.go: every method is one transaction over the key spaces `vip:node:`,
  `vip:peers:`, `vip:account:`, `vip:balance:`, `vip:trial:` (one association list each — the layout of `Store`), in
  the order in which the code reads and writes them (the balance is looked up *before* the node's registration is
  checked; a missing balance record is the empty balance only for a registered node; ...).
* `Mem.*`  — pool/store/memory/memory.go: Go maps under one mutex, the tracked peers living *inside* the node record
  (`memNode.peers`), re-registration keeping them.

`Props/C12.lean` proves that on every reachable state both transcriptions answer and change state exactly as the
contract model does, so what the correspondence streams compare each real driver with is, provably, the other
driver's logic too.  Go map iteration order is modelled by list order (outputs are compared as sets).  Core Lean only.
-/
import Vipnode.Model.Store
namespace Vipnode
open AList

/-! ## pool/store/store.go: the aggregation helpers both drivers feed -/

/-- `Stats.CountNode` (`activeSince` = the clock reading minus the activity window) -/
def countNode (now : Int) (st : Store.Stats) (n : Node) : Store.Stats :=
  let isActive := decide (now - W < n.lastSeen)
  let st := if n.isHost then
      { st with totalHosts := st.totalHosts + 1, activeHosts := if isActive then st.activeHosts + 1 else st.activeHosts }
    else
      { st with totalClients := st.totalClients + 1, activeClients := if isActive then st.activeClients + 1 else st.activeClients }
  if n.block > st.latestBlock then { st with latestBlock := n.block } else st

/-- `Stats.CountBalance` -/
def countBalance (st : Store.Stats) (b : Bal) : Store.Stats :=
  { st with totalCredit := st.totalCredit + b.credit, totalDeposit := st.totalDeposit + b.deposit,
            trialBalances := if b.account == "" then st.trialBalances + 1 else st.trialBalances }

/-! ## pool/store/badger/badger.go -/
namespace Bdg

/-- `GetNodeBalance` -/
def getNodeBalance (s : Store) (id : String) : Except StoreErr Bal :=
  -- balanceKey := vip:trial:<id>, or vip:balance:<account> when vip:account:<id> exists
  let r : Option Bal := match s.accounts.get id with
    | none => s.trials.get id
    | some a => s.balances.get a
  match r with
  | some b => .ok b
  | none =>
    -- ErrKeyNotFound: an empty balance, but only for a registered node
    match s.nodes.get id with
    | none => .error .unregistered
    | some _ => .ok {}

/-- `AddNodeBalance` -/
def addNodeBalance (s : Store) (id : String) (amt : Int) : Except StoreErr Store :=
  match s.accounts.get id with
  | none =>
    match s.trials.get id with
    | some b => .ok { s with trials := s.trials.set id { b with credit := b.credit + amt } }
    | none =>
      match s.nodes.get id with
      | none => .error .unregistered
      | some _ => .ok { s with trials := s.trials.set id { credit := 0 + amt } }
  | some a =>
    match s.balances.get a with
    | some b => .ok { s with balances := s.balances.set a { b with credit := b.credit + amt } }
    | none =>
      match s.nodes.get id with
      | none => .error .unregistered
      | some _ => .ok { s with balances := s.balances.set a { credit := 0 + amt } }

/-- `GetAccountBalance` -/
def getAccountBalance (s : Store) (a : String) : Bal :=
  match s.balances.get a with
  | some b => b
  | none => {}

/-- `AddAccountBalance` -/
def addAccountBalance (s : Store) (a : String) (amt : Int) : Store :=
  let b : Bal := match s.balances.get a with | some b => b | none => {}
  { s with balances := s.balances.set a { b with credit := b.credit + amt, account := a } }

/-- `AddAccountNode` -/
def addAccountNode (s : Store) (a id : String) : Except StoreErr Store :=
  match s.nodes.get id with
  | none => .error .unregistered
  | some _ =>
    let trial : Bal := match s.trials.get id with | some t => t | none => {}
    let bal : Bal := match s.balances.get a with | some b => b | none => {}
    let accounts := s.accounts.set id a
    let balances := s.balances.set a { bal with credit := bal.credit + trial.credit, account := a }
    .ok { s with accounts := accounts, balances := balances, trials := s.trials.del id }

/-- `IsAccountNode` -/
def isAccountNode (s : Store) (a id : String) : Except StoreErr Unit :=
  match s.accounts.get id with
  | none => .error .notAuthorized
  | some a' => if a' ≠ a then .error .notAuthorized else .ok ()

/-- `GetAccountNodes`: scan of the `vip:account:` prefix, keeping the keys whose value is the account -/
def getAccountNodes (s : Store) (a : String) : List String :=
  s.accounts.foldr (fun kv r => if kv.2 != a then r else kv.1 :: r) []

/-- `GetNode` -/
def getNode (s : Store) (id : String) : Except StoreErr Node :=
  match s.nodes.get id with
  | none => .error .unregistered
  | some n => .ok n

/-- `SetNode` -/
def setNode (s : Store) (n : Node) : Except StoreErr Store :=
  if n.id = "" then .error .malformed else .ok { s with nodes := s.nodes.set n.id n }

/-- `NodePeers` -/
def nodePeers (s : Store) (id : String) : Except StoreErr (List Node) :=
  match s.peers.get id with
  | none =>
    match s.nodes.get id with
    | none => .error .unregistered
    | some _ => .ok []
  | some tracked => .ok (tracked.filterMap (fun kv => s.nodes.get kv.1))

/-- the loop over the reported peers of `UpdateNodePeers` (reads the node table after the node's own refresh) -/
def recordPeers (nodes : AList Node) : AList Int → List String → AList Int
  | tracked, [] => tracked
  | tracked, p :: ps =>
    match nodes.get p with
    | none => recordPeers nodes tracked ps          -- "We don't know about this node, ignore"
    | some pn => recordPeers nodes (tracked.set p pn.lastSeen) ps

/-- `UpdateNodePeers` -/
def updateNodePeers (s : Store) (id : String) (reported : List String) (block : Nat) (now : Int) :
    Except StoreErr (Store × List String) :=
  match s.nodes.get id with
  | none => .error .unregistered
  | some n =>
    let nodes := s.nodes.set id { n with lastSeen := now, block := block }
    let tracked0 : AList Int := match s.peers.get id with | some t => t | none => []
    let tracked := recordPeers nodes tracked0 reported
    let deadline := now - W
    -- `timestamp.After(inactiveDeadline)` keeps the entry; otherwise it is deleted and reported
    let inactive := (tracked.filter (fun kv => !decide (deadline < kv.2))).map (·.1)
    let kept := tracked.filter (fun kv => decide (deadline < kv.2))
    .ok ({ s with nodes := nodes, peers := s.peers.set id kept }, inactive)

/-- `Stats`: three prefix scans feeding `CountNode` / `CountBalance` -/
def stats (s : Store) (now : Int) : Store.Stats :=
  s.trials.vals.foldl countBalance (s.balances.vals.foldl countBalance (s.nodes.vals.foldl (countNode now) {}))

/-- `ActiveHosts`: one scan of the `vip:node:` prefix (`it`: the records in iteration order) keeping the eligible
hosts; all of them when the limit is not positive or not reached, else the first `limit` of a shuffle -/
def activeHosts (it : List Node) (shuffle : List Node → List Node) (kind : String) (limit now : Int) : List Node :=
  let r := it.filter (Store.isActiveHost kind now)
  if limit ≤ 0 ∨ (r.length : Int) < limit then r else (shuffle r).take limit.toNat

/-- one state-changing store call through the badger code; a refused call changes nothing -/
def applyOp (s : Store) : Store.Op → Store
  | .setNode n => match setNode s n with | .ok s' => s' | .error _ => s
  | .unp id r b now => match updateNodePeers s id r b now with | .ok (s', _) => s' | .error _ => s
  | .addNodeBalance id amt => match addNodeBalance s id amt with | .ok s' => s' | .error _ => s
  | .addAccountBalance a amt => addAccountBalance s a amt
  | .addAccountNode a id => match addAccountNode s a id with | .ok s' => s' | .error _ => s
  | .nonce id n now => match s.checkAndSaveNonce id n now with | .ok s' => s' | .error _ => s   -- TTL: see C05 `ttl_safe`

def run (s : Store) (ops : List Store.Op) : Store := ops.foldl applyOp s

end Bdg

/-! ## pool/store/memory/memory.go -/

structure Mem where
  balances : AList Bal := []
  nodes    : AList (Node × AList Int) := []     -- memNode: the record and its tracked peers
  accounts : AList String := []
  trials   : AList Bal := []
  nonces   : AList Int := []
deriving Repr, Inhabited

namespace Mem

/-- a Go map read: the zero value when the key is missing -/
def balOf (l : AList Bal) (k : String) : Bal := match l.get k with | some b => b | none => {}

def checkAndSaveNonce (m : Mem) (id : String) (nonce now : Int) : Except StoreErr Mem :=
  if nonce ≤ now - nonceWindow then .error .invalidNonce
  else
    let last : Int := match m.nonces.get id with | some v => v | none => 0
    if last ≥ nonce then .error .invalidNonce
    else .ok { m with nonces := m.nonces.set id nonce }

def getNodeBalance (m : Mem) (id : String) : Except StoreErr Bal :=
  match m.nodes.get id with
  | none => .error .unregistered
  | some _ =>
    match m.accounts.get id with
    | none => .ok (balOf m.trials id)
    | some a => .ok (balOf m.balances a)

def addNodeBalance (m : Mem) (id : String) (amt : Int) : Except StoreErr Mem :=
  match m.nodes.get id with
  | none => .error .unregistered
  | some _ =>
    match m.accounts.get id with
    | some a =>
      let b := balOf m.balances a
      .ok { m with balances := m.balances.set a { b with credit := b.credit + amt } }
    | none =>
      let b := balOf m.trials id
      .ok { m with trials := m.trials.set id { b with credit := b.credit + amt } }

def getAccountBalance (m : Mem) (a : String) : Bal := balOf m.balances a

def addAccountBalance (m : Mem) (a : String) (amt : Int) : Mem :=
  let b := balOf m.balances a
  { m with balances := m.balances.set a { b with credit := b.credit + amt, account := a } }

def addAccountNode (m : Mem) (a id : String) : Except StoreErr Mem :=
  match m.nodes.get id with
  | none => .error .unregistered
  | some _ =>
    let b := balOf m.balances a
    let accounts := m.accounts.set id a
    let t := balOf m.trials id
    let b := { b with credit := b.credit + t.credit, account := a }
    .ok { m with accounts := accounts, trials := m.trials.del id, balances := m.balances.set a b }

def isAccountNode (m : Mem) (a id : String) : Except StoreErr Unit :=
  match m.accounts.get id with
  | none => .error .notAuthorized
  | some a' => if a' ≠ a then .error .notAuthorized else .ok ()

def getAccountNodes (m : Mem) (a : String) : List String :=
  m.accounts.foldr (fun kv r => if a == kv.2 then kv.1 :: r else r) []

def getNode (m : Mem) (id : String) : Except StoreErr Node :=
  match m.nodes.get id with
  | none => .error .unregistered
  | some mn => .ok mn.1

/-- `SetNode`: re-registering a node keeps its tracked peers -/
def setNode (m : Mem) (n : Node) : Except StoreErr Mem :=
  if n.id = "" then .error .malformed
  else
    let peers : AList Int := match m.nodes.get n.id with | some ex => ex.2 | none => []
    .ok { m with nodes := m.nodes.set n.id (n, peers) }

def nodePeers (m : Mem) (id : String) : Except StoreErr (List Node) :=
  match m.nodes.get id with
  | none => .error .unregistered
  | some mn => .ok (mn.2.filterMap (fun kv => (m.nodes.get kv.1).map (·.1)))

def recordPeers (nodes : AList (Node × AList Int)) : AList Int → List String → AList Int
  | tracked, [] => tracked
  | tracked, p :: ps =>
    match nodes.get p with
    | some pn => recordPeers nodes (tracked.set p pn.1.lastSeen) ps
    | none => recordPeers nodes tracked ps

def updateNodePeers (m : Mem) (id : String) (reported : List String) (block : Nat) (now : Int) :
    Except StoreErr (Mem × List String) :=
  match m.nodes.get id with
  | none => .error .unregistered
  | some mn =>
    let node := { mn.1 with lastSeen := now, block := block }
    -- "Save the refreshed node first so that a node reporting itself as a peer is tracked with its new LastSeen"
    let nodes1 := m.nodes.set id (node, mn.2)
    let tracked := recordPeers nodes1 mn.2 reported
    let deadline := now - W
    let inactive := (tracked.filter (fun kv => !decide (deadline < kv.2))).map (·.1)
    let kept := tracked.filter (fun kv => decide (deadline < kv.2))
    .ok ({ m with nodes := nodes1.set id (node, kept) }, inactive)

/-- `ActiveHosts`: ranging over the node map (`it`: the records in the order the map yields them), skipping
non-hosts, other kinds and inactive nodes, `limit -= 1; if limit == 0 { break }` after every host kept -/
def activeHosts (kind : String) (now : Int) : List Node → Int → List Node
  | [], _ => []
  | n :: t, limit =>
    if Store.isActiveHost kind now n then
      n :: (if limit - 1 = 0 then [] else activeHosts kind now t (limit - 1))
    else activeHosts kind now t limit

def stats (m : Mem) (now : Int) : Store.Stats :=
  m.trials.vals.foldl countBalance (m.balances.vals.foldl countBalance
    ((m.nodes.vals.map (·.1)).foldl (countNode now) {}))

def applyOp (m : Mem) : Store.Op → Mem
  | .setNode n => match setNode m n with | .ok m' => m' | .error _ => m
  | .unp id r b now => match updateNodePeers m id r b now with | .ok (m', _) => m' | .error _ => m
  | .addNodeBalance id amt => match addNodeBalance m id amt with | .ok m' => m' | .error _ => m
  | .addAccountBalance a amt => addAccountBalance m a amt
  | .addAccountNode a id => match addAccountNode m a id with | .ok m' => m' | .error _ => m
  | .nonce id n now => match checkAndSaveNonce m id n now with | .ok m' => m' | .error _ => m

def run (m : Mem) (ops : List Store.Op) : Mem := ops.foldl applyOp m

end Mem
end Vipnode
