/-
The Go operations in vipnode's own code that can panic on data received from
the network, modelled as `Except Panic`: slicing beyond the length, a method
call through a nil embedded pointer, `make` with a negative or absurd capacity.
Each function below mirrors the guard the code places in front of the
operation.  Core Lean only.
-/
import Vipnode.Model.Pool
namespace Vipnode

inductive Panic | sliceOutOfRange | nilDeref | makeslice
deriving Repr, DecidableEq

/-- Go `s[:n]` -/
def sliceTo {α : Type} (l : List α) (n : Nat) : Except Panic (List α) :=
  if n ≤ l.length then .ok (l.take n) else .error .sliceOutOfRange

/-- Go `s[a:b]` -/
def sliceFromTo {α : Type} (l : List α) (a b : Nat) : Except Panic (List α) :=
  if a ≤ b ∧ b ≤ l.length then .ok ((l.drop a).take (b - a)) else .error .sliceOutOfRange

/-- `NodeRequest.Verify`: the decoded signature is cut to 64 bytes after a length check; `none` = refused -/
def nodeSigBytes (sig : List UInt8) : Except Panic (Option (List UInt8)) :=
  if sig.length < 64 then .ok none
  else match sliceTo sig 64 with
    | .ok s => .ok (some s)
    | .error p => .error p

/-- `AddressRequest.Verify`: exactly 65 bytes are required before byte 64 is inspected -/
def addressSigV (sig : List UInt8) : Except Panic (Option UInt8) :=
  if sig.length ≠ 65 then .ok none
  else match sig[64]? with
    | some v => .ok (some v)
    | none => .error .sliceOutOfRange

/-- `PeerInfo.EnodeID`: the id is cut out of the enode string only if it is long enough -/
def enodeID (id : List Char) (enode : List Char) : Except Panic (List Char) :=
  if enode.length ≤ 8 + 128 then .ok id else sliceFromTo enode 8 (8 + 128)

/-- what `Remote.Call` does with the message routed to it: a reply without `result`/`error` is refused, never
dereferenced -/
inductive ReplyShape | withResponse | bare
deriving DecidableEq

def callReturn : ReplyShape → Except Panic Bool
  | .withResponse => .ok true
  | .bare => .ok false      -- "reply has neither result nor error"

/-- the capacity the memory driver allocates for an active-host query: bounded by the table, not by the request -/
def activeHostsCap (limit : Int) (tableSize : Nat) : Except Panic Nat :=
  if limit < 0 then .error .makeslice else .ok (min limit.toNat tableSize)

end Vipnode
