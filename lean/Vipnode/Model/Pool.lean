/-
Model of the pool endpoints (`pool/service.go`) and of the payment service
(`pool/payment/service.go`) over the store model, the balance manager model
and the host-connection registry.

Inputs that the real code takes from its environment are explicit: clock
readings (`now`), whether the signature verifies (`sigOk`, see Model/Auth.lean
for what that means), the store's random host choice (`choice`), the outcome
of each host's whitelist call (`outcome`), the settlement outcome.
Core Lean only.
-/
import Vipnode.Model.Balance
import Vipnode.Model.NodeURI
namespace Vipnode

structure PoolCfg where
  bal : BalCfg := {}
  noBalance : Bool := false            -- `balance.NoBalance{}` manager (pool.New(store, nil))
  maxRequestHosts : Int := 0
  withdrawMin : Option Int := none
  withdrawFee : Option Int := none     -- pay = total − fee
  settleEnabled : Bool := true
deriving Repr

structure Pool where
  cfg : PoolCfg := {}
  store : Store := {}
  deposits : AList Int := []           -- wallet ↦ on-chain deposit (environment)
  hosts : AList String := []           -- `remoteHosts`: node id ↦ connection
  lookup : AList String := []          -- `remoteNodeLookup`: connection ↦ node id
  paid : AList Int := []               -- wallet ↦ total disbursed by the settlement handler (environment)
deriving Repr

inductive PoolErr
  | verifyFailed
  | store (e : StoreErr)
  | lowBalance (current min : Int)
  | invalidSettings
  | uri (e : UriErr)
  | noService
  | noHosts (tried : Nat)
  | remoteErrors (n : Nat)
  | withdrawMin (balance min : Int)
  | withdrawDisabled
  | settleFailed
deriving Repr, DecidableEq

def PoolErr.ofBal : BalErr → PoolErr
  | .store e => .store e
  | .invalidSettings => .invalidSettings
  | .lowBalance c m => .lowBalance c m

namespace Pool

/-! ### authentication (`VipnodePool.verify`): signature first, then nonce -/

def verify (p : Pool) (sigOk : Bool) (id : String) (nonce now : Int) : Except PoolErr Pool :=
  if !sigOk then .error .verifyFailed
  else match p.store.checkAndSaveNonce id nonce now with
    | .ok s => .ok { p with store := s }
    | .error _ => .error .verifyFailed

/-! ### host registry -/

def register (p : Pool) (id conn : String) : Pool :=
  { p with hosts := p.hosts.set id conn, lookup := p.lookup.set conn id }

/-- `CloseRemote`: forget the connection and every host registration that still points at it -/
def closeRemote (p : Pool) (conn : String) : Pool :=
  match p.lookup.get conn with
  | none => p
  | some _ => { p with lookup := p.lookup.del conn, hosts := p.hosts.filter (fun kv => kv.2 != conn) }

def numRemotes (p : Pool) : Nat := p.hosts.length

/-- the connection on which the pool would call host `id` now -/
def callable (p : Pool) (id : String) : Option String := p.hosts.get id

/-! ### connect -/

structure ConnectReq where
  kind : String := "unknown"           -- `NodeKind.String()`
  isFull : Bool := false
  override : Option Override := none   -- parsed `NodeURI` override
  overrideUnparsable : Bool := false   -- `url.Parse` failed
  payout : String := ""
  nodeVersion : String := ""
  vipnodeVersion : String := ""
deriving Repr

def managerOnClient (p : Pool) (n : Node) : Except BalErr Unit :=
  if p.cfg.noBalance then .ok () else onClient p.cfg.bal p.store p.deposits n

/-- `connect` (after verification). `conn`: the calling connection, `src`: its remote host. -/
def connect (p : Pool) (conn : Option String) (src : String) (id : String) (req : ConnectReq) (now : Int) :
    Pool × Except PoolErr Unit :=
  let kind := if req.kind = "unknown" then "" else req.kind
  let node : Node := { id := id, kind := kind, lastSeen := now, isHost := req.isFull, payout := req.payout,
                       nodeVersion := req.nodeVersion, vipnodeVersion := req.vipnodeVersion }
  let reg : Except PoolErr (Pool × Node) :=
    if req.isFull then
      match conn with
      | none => .error .noService
      | some c =>
        if req.overrideUnparsable then .error (.uri .parse)
        else match normalizeNodeURI req.override id src "30303" with
          | .error e => .error (.uri e)
          | .ok a => .ok (p.register id c, { node with uri := a.render })
    else .ok (p, node)
  match reg with
  | .error e => (p, .error e)
  | .ok (p1, node) =>
    match p1.store.setNode node with
    | .error e => (p1, .error (.store e))
    | .ok s =>
      let p2 := { p1 with store := s }
      match p2.managerOnClient node with
      | .error e => (p2, .error (.ofBal e))
      | .ok _ => (p2, .ok ())

/-- `Connect`: verify, then connect -/
def Connect (p : Pool) (conn : Option String) (src : String) (sigOk : Bool) (id : String) (nonce : Int)
    (req : ConnectReq) (now : Int) : Pool × Except PoolErr Unit :=
  match p.verify sigOk id nonce now with
  | .error e => (p, .error e)
  | .ok p1 => p1.connect conn src id req now

/-! ### keep-alive update -/

structure UpdateResp where
  invalid : List String
  active : List String     -- URIs of the tracked peers
  activeIds : List String
  balance : Bal
deriving Repr

def managerOnUpdate (p : Pool) (n : Node) (peers : List String) (mnow : Int) (fail : Nat → Bool) : Store × Except BalErr Bal :=
  if p.cfg.noBalance then (p.store, .ok {}) else onUpdate p.cfg.bal p.store p.deposits n peers mnow fail

/-- `Update` (keep-alive). `now`: the store's clock reading inside `UpdateNodePeers`, `mnow`: the
balance manager's. Third component: the `vipnode_disconnect` calls made, as (host id, connection). -/
def Update (p : Pool) (sigOk : Bool) (id : String) (nonce : Int) (reported : List String) (block : Nat)
    (now mnow : Int) (fail : Nat → Bool := fun _ => false) :
    Pool × Except PoolErr UpdateResp × List (String × String) :=
  match p.verify sigOk id nonce now with
  | .error e => (p, .error e, [])
  | .ok p1 =>
    match p1.store.getNode id with
    | .error e => (p1, .error (.store e), [])
    | .ok before =>
      match p1.store.updateNodePeers id reported block now with
      | .error e => (p1, .error (.store e), [])
      | .ok (s2, inactive) =>
        let p2 := { p1 with store := s2 }
        match s2.nodePeers id with
        | .error e => (p2, .error (.store e), [])
        | .ok active =>
          let (s3, r) := p2.managerOnUpdate before (active.map (·.id)) mnow fail
          let p3 := { p2 with store := s3 }
          match r with
          | .error (.lowBalance c m) =>
            let calls := active.filterMap (fun n => (p3.hosts.get n.id).map (fun c => (n.id, c)))
            (p3, .error (.lowBalance c m), calls)
          | .error e => (p3, .error (.ofBal e), [])
          | .ok b => (p3, .ok { invalid := inactive, active := active.map (·.uri), activeIds := active.map (·.id), balance := b }, [])

/-- `Update` with the deposit lookup of the balance manager's final read-back failing (`GetNodeBalance` over the
contract proxy: timelocked deposit, RPC error).  The read comes after the peers were credited and the client debited,
so the state is that of `Update`; only the answer changes: the lookup error replaces the balance (and the
minimum-balance verdict, which is never reached).  Only a node linked to a wallet has a deposit to look up. -/
def UpdateReadFault (p : Pool) (sigOk : Bool) (id : String) (nonce : Int) (reported : List String) (block : Nat)
    (now mnow : Int) (fail : Nat → Bool := fun _ => false) :
    Pool × Bool × Except PoolErr UpdateResp × List (String × String) :=
  let (p', r, calls) := p.Update sigOk id nonce reported block now mnow fail
  let reached := match r with
    | .ok _ => true
    | .error (.lowBalance _ _) => true
    | .error _ => false
  if reached && (p'.store.accounts.get id).isSome && !p'.cfg.noBalance then (p', true, r, [])
  else (p', false, r, calls)

/-! ### peer requests -/

inductive HostOutcome | ack | err | hang
deriving Repr, DecidableEq

def effectiveNum (p : Pool) (num : Int) : Int :=
  if p.cfg.maxRequestHosts > 0 ∧ num > p.cfg.maxRequestHosts then p.cfg.maxRequestHosts else num

/-- candidates: chosen hosts that are not skipped and have a live registration, capped at the requested count -/
def candidates (p : Pool) (skip : List String) (choice : List String) (num : Nat) : List (String × String) :=
  (choice.filterMap (fun h => if skip.contains h then none else (p.hosts.get h).map (fun c => (h, c)))).take num

/-- the `vipnode_whitelist` calls a peer request makes -/
def whitelistCalls (p : Pool) (id : String) (num : Int) (choice : List String) : List (String × String) :=
  if p.effectiveNum num ≤ 0 then []
  else match p.store.nodePeers id with
    | .error _ => []
    | .ok peers => p.candidates (id :: peers.map (·.id)) choice (p.effectiveNum num).toNat

/-- the reply assembled from the candidates' answers: the acknowledged ones; an error only if there are none -/
def replyOf (cands : List (String × String)) (outcome : String → HostOutcome) (tried : Nat) :
    Except PoolErr (List String) :=
  if cands.filter (fun hc => outcome hc.2 == .ack) ≠ [] then
    .ok ((cands.filter (fun hc => outcome hc.2 == .ack)).map (·.1))
  else if cands.filter (fun hc => outcome hc.2 != .ack) ≠ [] then
    .error (.remoteErrors (cands.filter (fun hc => outcome hc.2 != .ack)).length)
  else .error (.noHosts tried)

/-- `requestHosts`. `choice`: what `ActiveHosts(kind, num + |skip|)` returned (in order);
`outcome c`: how the host behind connection `c` answers the whitelist call. -/
def requestHosts (p : Pool) (id : String) (num : Int) (choice : List String) (outcome : String → HostOutcome) :
    Except PoolErr (List String) :=
  if p.effectiveNum num ≤ 0 then .ok []
  else match p.store.nodePeers id with
    | .error e => .error (.store e)
    | .ok _ => replyOf (p.whitelistCalls id num choice) outcome choice.length

/-- how many hosts `requestHosts` asks the store for -/
def activeHostsLimit (p : Pool) (id : String) (num : Int) : Option Int :=
  let n := p.effectiveNum num
  if n ≤ 0 then none
  else match p.store.nodePeers id with
    | .error _ => none
    | .ok peers => some (n + (dedupStrings (id :: peers.map (·.id))).length)

/-- `Peer`: verify, then request hosts -/
def Peer (p : Pool) (sigOk : Bool) (id : String) (nonce now : Int) (num : Int) (choice : List String)
    (outcome : String → HostOutcome) : Pool × Except PoolErr (List String) :=
  match p.verify sigOk id nonce now with
  | .error e => (p, .error e)
  | .ok p1 => (p1, p1.requestHosts id num choice outcome)

/-! ### legacy endpoints (`vipnode_host`, `vipnode_client`): verify, connect, and for clients a host request -/

/-- `ethnode.ParseNodeKind(s).String()` on lower-case input -/
def parseKindStr (s : String) : String :=
  if s = "geth" ∨ s = "parity" ∨ s = "pantheon" then s else "unknown"

def Host (p : Pool) (conn : Option String) (src : String) (sigOk : Bool) (id : String) (nonce : Int)
    (kind payout : String) (override : Option Override) (overrideUnparsable : Bool) (now : Int) :
    Pool × Except PoolErr Unit :=
  match p.verify sigOk id nonce now with
  | .error e => (p, .error e)
  | .ok p1 => p1.connect conn src id { kind := parseKindStr kind, isFull := true, override := override,
                                        overrideUnparsable := overrideUnparsable, payout := payout } now

/-- the number of hosts a legacy client request asks for: its own count if positive, else the documented default -/
def clientNumHosts (numHosts : Int) : Int := if numHosts > 0 then numHosts else Facts.defaultRequestNumHosts

def Client (p : Pool) (conn : Option String) (src : String) (sigOk : Bool) (id : String) (nonce : Int)
    (kind : String) (numHosts : Int) (now : Int) (choice : List String) (outcome : String → HostOutcome) :
    Pool × Except PoolErr (List String) :=
  match p.verify sigOk id nonce now with
  | .error e => (p, .error e)
  | .ok p1 =>
    match p1.connect conn src id { kind := parseKindStr kind, isFull := false } now with
    | (p2, .error e) => (p2, .error e)
    | (p2, .ok _) => (p2, p2.requestHosts id (clientNumHosts numHosts) choice outcome)

/-! ### payment service -/

/-- `PaymentService.verify`: signature first, then nonce (same order as the pool) -/
def payVerify (p : Pool) (sigOk : Bool) (wallet : String) (nonce now : Int) : Except PoolErr Pool :=
  p.verify sigOk wallet nonce now

def AddNode (p : Pool) (sigOk : Bool) (wallet : String) (nonce now : Int) (id : String) : Pool × Except PoolErr Unit :=
  match p.payVerify sigOk wallet nonce now with
  | .error e => (p, .error e)
  | .ok p1 =>
    match p1.store.addAccountNode wallet id with
    | .error e => (p1, .error (.store e))
    | .ok s => ({ p1 with store := s }, .ok ())

/-- the wallet's balance as the payment service sees it (store credit + on-chain deposit) -/
def walletBalance (p : Pool) (wallet : String) : Bal :=
  { p.store.getAccountBalance wallet with deposit := (p.deposits.get wallet).getD 0 }

def belowWithdrawMin (cfg : PoolCfg) (total : Int) : Bool :=
  match cfg.withdrawMin with
  | some m => decide (total < m)
  | none => false

/-- the amount disbursed: the balance minus the fee -/
def withdrawPay (cfg : PoolCfg) (total : Int) : Int :=
  match cfg.withdrawFee with
  | some f => total - f
  | none => total

/-- `Withdraw`. `settleOk`: does the settlement transaction succeed?  On success the handler
sets the on-chain balance to 0 and disburses `pay`; the pool then deducts the settled credit. -/
def Withdraw (p : Pool) (sigOk : Bool) (wallet : String) (nonce now : Int) (settleOk : Bool) :
    Pool × Except PoolErr Int :=
  match p.payVerify sigOk wallet nonce now with
  | .error e => (p, .error e)
  | .ok p1 =>
    if !p1.cfg.settleEnabled then (p1, .error .withdrawDisabled)
    else
      let b := p1.walletBalance wallet
      let total := b.deposit + b.credit
      if belowWithdrawMin p1.cfg total then (p1, .error (.withdrawMin total (p1.cfg.withdrawMin.getD 0)))
      else if !settleOk then (p1, .error .settleFailed)
      else
        let pay := withdrawPay p1.cfg total
        ({ p1 with
            deposits := p1.deposits.set wallet 0
            paid := p1.paid.set wallet ((p1.paid.get wallet).getD 0 + pay)
            store := p1.store.addAccountBalance wallet (-b.credit) }, .ok pay)

/-- `Withdraw` with another request's credit landing *while the settlement is in flight* (`during`: a node and the
amount an `AddNodeBalance` gives it between the pool's balance read and its deduction).  The deduction uses the
amount read before the settlement, so what is earned meanwhile stays on the books. -/
def WithdrawDuring (p : Pool) (sigOk : Bool) (wallet : String) (nonce now : Int) (settleOk : Bool)
    (during : Option (String × Int)) : Pool × Except PoolErr Int :=
  match p.payVerify sigOk wallet nonce now with
  | .error e => (p, .error e)
  | .ok p1 =>
    if !p1.cfg.settleEnabled then (p1, .error .withdrawDisabled)
    else
      let b := p1.walletBalance wallet
      let total := b.deposit + b.credit
      if belowWithdrawMin p1.cfg total then (p1, .error (.withdrawMin total (p1.cfg.withdrawMin.getD 0)))
      else
        -- the settlement handler is running: the other request's credit lands now
        let st := match during with
          | some (id, amt) => (match p1.store.addNodeBalance id amt with | .ok s' => s' | .error _ => p1.store)
          | none => p1.store
        if !settleOk then ({ p1 with store := st }, .error .settleFailed)
        else
          let pay := withdrawPay p1.cfg total
          ({ p1 with
              deposits := p1.deposits.set wallet 0
              paid := p1.paid.set wallet ((p1.paid.get wallet).getD 0 + pay)
              store := st.addAccountBalance wallet (-b.credit) }, .ok pay)

end Pool
end Vipnode

namespace Vipnode
namespace Pool

/-- Pool-level operations, for statements about histories. Every environment
input (clock readings, signature validity, store choice, host outcomes, fault
pattern, settlement outcome) is part of the operation. -/
inductive Op
  | connect (conn : Option String) (src : String) (sigOk : Bool) (id : String) (nonce : Int) (req : ConnectReq) (now : Int)
  | update (sigOk : Bool) (id : String) (nonce : Int) (reported : List String) (block : Nat) (now mnow : Int) (fail : Nat → Bool)
  | peer (sigOk : Bool) (id : String) (nonce now : Int) (num : Int) (choice : List String) (outcome : String → HostOutcome)
  | close (conn : String)
  | addNode (sigOk : Bool) (wallet : String) (nonce now : Int) (id : String)
  | withdraw (sigOk : Bool) (wallet : String) (nonce now : Int) (settleOk : Bool)
  | deposit (wallet : String) (amt : Int)

def step (p : Pool) : Op → Pool
  | .connect conn src sigOk id nonce req now => (p.Connect conn src sigOk id nonce req now).1
  | .update sigOk id nonce reported block now mnow fail => (p.Update sigOk id nonce reported block now mnow fail).1
  | .peer sigOk id nonce now num choice outcome => (p.Peer sigOk id nonce now num choice outcome).1
  | .close conn => p.closeRemote conn
  | .addNode sigOk wallet nonce now id => (p.AddNode sigOk wallet nonce now id).1
  | .withdraw sigOk wallet nonce now settleOk => (p.Withdraw sigOk wallet nonce now settleOk).1
  | .deposit wallet amt => { p with deposits := p.deposits.set wallet amt }

def run (p : Pool) (ops : List Op) : Pool := ops.foldl step p

/-- credit settled (removed from the ledger) by an operation: only a successful withdrawal -/
def settled (p : Pool) : Op → Int
  | .withdraw sigOk wallet nonce now settleOk =>
    match (p.Withdraw sigOk wallet nonce now settleOk).2 with
    | .ok _ => (p.store.getAccountBalance wallet).credit
    | .error _ => 0
  | _ => 0

def settledTotal : Pool → List Op → Int
  | _, [] => 0
  | p, op :: ops => settled p op + settledTotal (step p op) ops

end Pool
end Vipnode
