/-
Abstract model of the documented store contract (`pool/store/store.go`),
which both drivers (`memory`, `badger`) are checked against by the
correspondence harness (component `store`).

Every clock reading the real code takes with `time.Now()` is an explicit input
(`now`, nanoseconds).  Go maps are association lists.  `big.Int` is `Int`.
Core Lean only.
-/
import Vipnode.Model.AList
import Vipnode.Generated.Facts

namespace Vipnode

structure Node where
  id : String
  uri : String := ""
  lastSeen : Int := 0
  kind : String := ""
  isHost : Bool := false
  payout : String := ""
  block : Nat := 0
  nodeVersion : String := ""
  vipnodeVersion : String := ""
deriving Repr, DecidableEq, Inhabited

structure Bal where
  account : String := ""
  deposit : Int := 0
  credit : Int := 0
deriving Repr, DecidableEq, Inhabited

inductive StoreErr
  | unregistered | malformed | invalidNonce | notAuthorized
deriving Repr, DecidableEq, Inhabited

structure Store where
  nodes    : AList Node := []
  peers    : AList (AList Int) := []   -- node id ↦ (peer id ↦ peer's LastSeen when last reported)
  accounts : AList String := []        -- node id ↦ wallet
  balances : AList Bal := []           -- wallet ↦ balance
  trials   : AList Bal := []           -- unlinked node id ↦ balance
  nonces   : AList Int := []
deriving Repr, Inhabited

/-- the activity window (`store.ExpireInterval`), regenerated from the source -/
def W : Int := Facts.expireIntervalNs
/-- the nonce freshness window (`store.ExpireNonce`) -/
def nonceWindow : Int := Facts.expireNonceNs

namespace Store

def empty : Store := {}

/-! ### nonces -/

/-- `CheckAndSaveNonce`: reject stale, reject not-strictly-greater, else save. -/
def checkAndSaveNonce (s : Store) (id : String) (nonce now : Int) : Except StoreErr Store :=
  if nonce ≤ now - nonceWindow then .error .invalidNonce
  else if nonce ≤ (s.nonces.get id).getD 0 then .error .invalidNonce
  else .ok { s with nonces := s.nonces.set id nonce }

/-! ### nodes -/

def setNode (s : Store) (n : Node) : Except StoreErr Store :=
  if n.id = "" then .error .malformed
  else .ok { s with nodes := s.nodes.set n.id n }

def getNode (s : Store) (id : String) : Except StoreErr Node :=
  match s.nodes.get id with
  | some n => .ok n
  | none => .error .unregistered

/-! ### balances -/

/-- the balance a node spends from: its wallet's once linked, its trial otherwise -/
def nodeBalance (s : Store) (id : String) : Bal :=
  match s.accounts.get id with
  | some a => (s.balances.get a).getD {}
  | none => (s.trials.get id).getD {}

def getNodeBalance (s : Store) (id : String) : Except StoreErr Bal :=
  match s.nodes.get id with
  | none => .error .unregistered
  | some _ => .ok (s.nodeBalance id)

def addNodeBalance (s : Store) (id : String) (amt : Int) : Except StoreErr Store :=
  match s.nodes.get id with
  | none => .error .unregistered
  | some _ =>
    match s.accounts.get id with
    | some a =>
      let b := (s.balances.get a).getD {}
      .ok { s with balances := s.balances.set a { b with credit := b.credit + amt } }
    | none =>
      let b := (s.trials.get id).getD {}
      .ok { s with trials := s.trials.set id { b with credit := b.credit + amt } }

def getAccountBalance (s : Store) (a : String) : Bal := (s.balances.get a).getD {}

def addAccountBalance (s : Store) (a : String) (amt : Int) : Store :=
  let b := (s.balances.get a).getD {}
  { s with balances := s.balances.set a { b with credit := b.credit + amt, account := a } }

/-- `AddAccountNode`: link, migrating the trial credit into the wallet. -/
def addAccountNode (s : Store) (a id : String) : Except StoreErr Store :=
  match s.nodes.get id with
  | none => .error .unregistered
  | some _ =>
    let b := (s.balances.get a).getD {}
    let t := (s.trials.get id).getD {}
    .ok { s with
      accounts := s.accounts.set id a
      balances := s.balances.set a { b with credit := b.credit + t.credit, account := a }
      trials := s.trials.del id }

def isAccountNode (s : Store) (a id : String) : Except StoreErr Unit :=
  match s.accounts.get id with
  | some a' => if a' = a then .ok () else .error .notAuthorized
  | none => .error .notAuthorized

def getAccountNodes (s : Store) (a : String) : List String :=
  (s.accounts.filter (fun kv => kv.2 == a)).map (·.1)

/-! ### peers -/

/-- refresh every *registered* reported peer with that peer's own `LastSeen` -/
def refreshPeers (nodes : AList Node) : AList Int → List String → AList Int
  | tracked, [] => tracked
  | tracked, p :: ps =>
    match nodes.get p with
    | some pn => refreshPeers nodes (tracked.set p pn.lastSeen) ps
    | none => refreshPeers nodes tracked ps

/-- `UpdateNodePeers`: keep-alive of `id` at clock reading `now`.
Returns the new store and the peers declared inactive. -/
def updateNodePeers (s : Store) (id : String) (reported : List String) (block : Nat) (now : Int) :
    Except StoreErr (Store × List String) :=
  match s.nodes.get id with
  | none => .error .unregistered
  | some n =>
    let nodes' := s.nodes.set id { n with lastSeen := now, block := block }
    let tracked := refreshPeers nodes' ((s.peers.get id).getD []) reported
    let deadline := now - W
    let inactive := (tracked.filter (fun kv => decide (kv.2 ≤ deadline))).map (·.1)
    let active := tracked.filter (fun kv => decide (deadline < kv.2))
    .ok ({ s with nodes := nodes', peers := s.peers.set id active }, inactive)

def trackedPeers (s : Store) (id : String) : AList Int := (s.peers.get id).getD []

def nodePeers (s : Store) (id : String) : Except StoreErr (List Node) :=
  match s.nodes.get id with
  | none => .error .unregistered
  | some _ => .ok ((s.trackedPeers id).filterMap (fun kv => s.nodes.get kv.1))

/-! ### active hosts -/

def isActiveHost (kind : String) (now : Int) (n : Node) : Bool :=
  n.isHost && (kind == "" || n.kind == kind) && decide (now - W < n.lastSeen)

def eligibleHosts (s : Store) (kind : String) (now : Int) : List Node :=
  s.nodes.vals.filter (isActiveHost kind now)

def expectedHostCount (limit : Int) (supply : Nat) : Nat :=
  if limit ≤ 0 then supply else min limit.toNat supply

/-- The documented contract of `ActiveHosts(kind, limit)` as a predicate on the
set the driver returned (drivers choose randomly): a duplicate-free subset of
the eligible hosts of exactly the prescribed size. -/
def validHostChoice (s : Store) (kind : String) (limit : Int) (now : Int) (choice : List String) : Bool :=
  let elig := (s.eligibleHosts kind now).map (·.id)
  choice.all (fun c => elig.contains c) &&
  (dedupStrings choice).length == choice.length &&
  choice.length == expectedHostCount limit elig.length

/-! ### statistics -/

structure Stats where
  activeHosts : Nat := 0
  totalHosts : Nat := 0
  activeClients : Nat := 0
  totalClients : Nat := 0
  latestBlock : Nat := 0
  totalCredit : Int := 0
  totalDeposit : Int := 0
  trialBalances : Nat := 0
deriving Repr, DecidableEq

def creditSum (l : AList Bal) : Int := sumInts (l.vals.map (·.credit))
def depositSum (l : AList Bal) : Int := sumInts (l.vals.map (·.deposit))

/-- the quantity the zero-sum property is about -/
def ledgerSum (s : Store) : Int := creditSum s.balances + creditSum s.trials

def stats (s : Store) (now : Int) : Stats :=
  let ns := s.nodes.vals
  let act := fun (n : Node) => decide (now - W < n.lastSeen)
  let bs := s.balances.vals ++ s.trials.vals
  { activeHosts := (ns.filter (fun n => n.isHost && act n)).length
    totalHosts := (ns.filter (·.isHost)).length
    activeClients := (ns.filter (fun n => !n.isHost && act n)).length
    totalClients := (ns.filter (fun n => !n.isHost)).length
    latestBlock := ns.foldl (fun m n => max m n.block) 0
    totalCredit := ledgerSum s
    totalDeposit := depositSum s.balances + depositSum s.trials
    trialBalances := (bs.filter (fun b => b.account == "")).length }

end Store
end Vipnode

namespace Vipnode
namespace Store

/-- State-changing store operations, for statements about histories. -/
inductive Op
  | setNode (n : Node)
  | unp (id : String) (reported : List String) (block : Nat) (now : Int)
  | addNodeBalance (id : String) (amt : Int)
  | addAccountBalance (a : String) (amt : Int)
  | addAccountNode (a id : String)
  | nonce (id : String) (nonce now : Int)
deriving Repr

/-- apply one operation; a refused operation leaves the store unchanged -/
def applyOp (s : Store) : Op → Store
  | .setNode n => match s.setNode n with | .ok s' => s' | .error _ => s
  | .unp id r b now => match s.updateNodePeers id r b now with | .ok (s', _) => s' | .error _ => s
  | .addNodeBalance id amt => match s.addNodeBalance id amt with | .ok s' => s' | .error _ => s
  | .addAccountBalance a amt => s.addAccountBalance a amt
  | .addAccountNode a id => match s.addAccountNode a id with | .ok s' => s' | .error _ => s
  | .nonce id n now => match s.checkAndSaveNonce id n now with | .ok s' => s' | .error _ => s

def run (s : Store) (ops : List Op) : Store := ops.foldl applyOp s

/-- credit explicitly added to the ledger by an operation in state `s` -/
def opCredit (s : Store) : Op → Int
  | .addNodeBalance id amt => match s.nodes.get id with | some _ => amt | none => 0
  | .addAccountBalance _ amt => amt
  | _ => 0

/-- total credit explicitly added along a history -/
def creditAdded : Store → List Op → Int
  | _, [] => 0
  | s, op :: ops => opCredit s op + creditAdded (applyOp s op) ops

end Store
end Vipnode
