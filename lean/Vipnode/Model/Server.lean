/-
Model of the RPC method registry and positional-argument decoding
(`jsonrpc2/server.go`, `jsonrpc2/method.go`, `jsonrpc2/borrowed_eth.go`).
JSON values are abstracted to their kind; Go parameter types to the kinds the
services use.  `encoding/json` itself is not re-implemented: which JSON kind
decodes into which Go type is the table `compat` (null decodes into anything,
as with the geth-derived decoder).  Core Lean only.
-/
import Vipnode.Model.AList
namespace Vipnode

inductive GoType
  | str | int | bool | obj | ptr (t : GoType)
  | slice      -- []string: a JSON array
  | anymap     -- map[string]interface{}: any JSON object
  | any        -- interface{}: any JSON value
deriving Repr, DecidableEq

inductive JKind
  | null | str | int | frac | bool | arr | obj | badobj   -- badobj: an object with a wrongly typed known field
deriving Repr, DecidableEq

def compat : JKind → GoType → Bool
  | .null, _ => true
  | k, .ptr t => compat k t
  | .str, .str => true
  | .int, .int => true
  | .bool, .bool => true
  | .obj, .obj => true
  | .arr, .slice => true
  | .obj, .anymap => true
  | .badobj, .anymap => true
  | _, .any => true
  | _, _ => false

inductive Params
  | absent | null | nonArray | array (l : List JKind)
deriving Repr, DecidableEq

def isPtr : GoType → Bool
  | .ptr _ => true
  | _ => false

/-- decode the supplied elements against the declared types, left to right -/
def decodeArgs : List JKind → List GoType → Bool
  | [], _ => true
  | _ :: _, [] => false                       -- too many arguments
  | k :: ks, t :: ts => compat k t && decodeArgs ks ts

/-- `parsePositionalArguments`: every supplied element decodes into its declared type, there are not too
many, and every missing trailing argument is optional (pointer-typed) -/
def parsePositional (ps : Params) (types : List GoType) : Bool :=
  match ps with
  | .nonArray => false
  | .absent | .null => types.all isPtr
  | .array l => decodeArgs l types && (types.drop l.length).all isPtr

/-- `unicode.ToLower` of the first character -/
def lowerFirst (s : String) : String :=
  match s.toList with
  | [] => ""
  | c :: cs => String.ofList (c.toLower :: cs)

def rpcName (pre m : String) : String := pre ++ lowerFirst m

/-- a callable method: its positional parameter types and whether calling it returns an error -/
structure Method where
  types : List GoType
  fails : Bool := false
deriving Repr, DecidableEq

/-- `Server.Register(prefix, receiver, onlyMethods…)` given the receiver's exported method set -/
def register (reg : AList Method) (pre : String) (methods : List (String × Method)) (allow : List String) : AList Method :=
  methods.foldl (fun r m => if allow.isEmpty || allow.contains (lowerFirst m.1) then r.set (rpcName pre m.1) m.2 else r) reg

inductive Reply
  | result | methodNotFound | invalidParams | internalError | invalidRequest
deriving Repr, DecidableEq

/-- `Server.Handle`: the reply class and whether the method was invoked -/
def handle (reg : AList Method) (isRequest : Bool) (name : String) (ps : Params) : Reply × Bool :=
  if !isRequest then (.invalidRequest, false)
  else match reg.get name with
    | none => (.methodNotFound, false)
    | some m =>
      if parsePositional ps m.types then (if m.fails then .internalError else .result, true)
      else (.invalidParams, false)

end Vipnode
