/-
Model of request authentication (`request/request.go`, `request/node.go`,
`request/address.go`): which bytes are signed and when a request is accepted.

Cryptography is an *ideal signature scheme* passed as a structure whose laws
are hypotheses of the theorems (not Lean axioms): keccak256, secp256k1 and the
EIP-191 prefix are not modelled (DESIGN.md section 7).  What is modelled is
what vipnode adds: the signed payload is the method name followed by the JSON
array `[identity, nonce, args…]`.
Core Lean only.
-/
namespace Vipnode

/-- an ideal signature scheme: a signature verifies for an identity and a message exactly when it
was produced over that very message by the key of that identity; signatures do not collide -/
structure SigScheme where
  Key : Type
  Sig : Type
  ident : Key → String
  sign : Key → List Char → Sig
  verify : String → List Char → Sig → Bool
  verify_iff : ∀ id m s, verify id m s = true ↔ ∃ k, ident k = id ∧ s = sign k m
  sign_inj : ∀ k k' m m', sign k m = sign k' m' → k = k' ∧ m = m'

/-- `assemble`: the method name immediately followed by the JSON encoding of `[identity, nonce, args…]`.
`enc` is the JSON array encoder on the request's argument tuple: its output starts with `[` and it is
injective on the request types (hypotheses of the theorems; sampled by the per-field mutation stream). -/
def payload {α : Type} (enc : α → List Char) (method : String) (a : α) : List Char := method.toList ++ enc a

structure ArrayEncoder (α : Type) where
  enc : α → List Char
  starts : ∀ a, ∃ r, enc a = '[' :: r
  inj : ∀ a b, enc a = enc b → a = b

end Vipnode
