/-
Model of `pool/payment/cache.go`: the cache of on-chain deposits in front of the contract (`balanceCache`).
An entry carries the clock reading at which it stops being served (`none` = never: the cache is fed by the contract's
balance events); `Get` serves an unexpired entry, otherwise drops it and asks the getter, caching what it answers;
`Set` is what a balance event (and `Get` itself) does; `Reset` is the fallback to polling after the event
subscription aborted.  Core Lean only.
-/
import Vipnode.Model.AList
namespace Vipnode

structure CItem where
  value : Int
  expire : Option Int        -- `time.Time{}` (never) = none
deriving Repr, DecidableEq

structure DCache where
  expireAfter : Int := 0     -- 0: entries never expire
  items : AList CItem := []
deriving Repr

namespace DCache

def set (c : DCache) (acct : String) (v : Int) (now : Int) : DCache :=
  { c with items := c.items.set acct { value := v, expire := if c.expireAfter = 0 then none else some (now + c.expireAfter) } }

/-- is the entry still served at `now`?  (`r.expire.IsZero() || now.Before(r.expire)`) -/
def live (it : CItem) (now : Int) : Bool :=
  match it.expire with
  | none => true
  | some e => decide (now < e)

/-- `Get`.  `getter`: what the contract lookup would answer now (`none` = it fails) -/
def get (c : DCache) (acct : String) (now : Int) (getter : Option Int) : DCache × Option Int :=
  match c.items.get acct with
  | some it =>
    if live it now then (c, some it.value)
    else
      let c' := { c with items := c.items.del acct }
      match getter with
      | some v => (c'.set acct v now, some v)
      | none => (c', none)
  | none =>
    match getter with
    | some v => (c.set acct v now, some v)
    | none => (c, none)

def reset (_c : DCache) (expireAfter : Int) : DCache := { expireAfter := expireAfter, items := [] }

end DCache
end Vipnode
