/-
Model of the badger driver's expiring nonce entries (pool/store/badger/badger.go CheckAndSaveNonce with
`nonceExpire > 0`) beside the table that never forgets (memory driver).  `w` is the freshness window.
-/
import Vipnode.Model.AList
namespace Vipnode.NonceTtl
open Vipnode AList

/-- badger table: identity ↦ (nonce, expiry instant) -/
abbrev ETable := AList (Int × Int)

def eget (t : ETable) (id : String) (now : Int) : Option Int :=
  match t.get id with
  | some (v, exp) => if now < exp then some v else none
  | none => none

/-- `CheckAndSaveNonce` of the badger driver; `exp` is the instant at which the saved entry expires
(the code asks for `nonce + window + 1 s`, badger rounds down to whole seconds) -/
def echeck (w : Int) (t : ETable) (id : String) (n now exp : Int) : Option ETable :=
  if n ≤ now - w then none
  else match eget t id now with
    | some v => if n ≤ v then none else some (t.set id (n, exp))
    | none => some (t.set id (n, exp))

/-- the never-forgetting table (memory driver), without the default-0 entry -/
def mcheck (w : Int) (t : AList Int) (id : String) (n now : Int) : Option (AList Int) :=
  if n ≤ now - w then none
  else match t.get id with
    | some v => if n ≤ v then none else some (t.set id n)
    | none => some (t.set id n)

/-- a submission together with the expiry instant badger gives the saved entry -/
structure ESub where
  id : String
  nonce : Int
  now : Int
  exp : Int

/-- run both tables over the same history -/
def erun (w : Int) : ETable → List ESub → ETable × List Bool
  | t, [] => (t, [])
  | t, x :: xs => match echeck w t x.id x.nonce x.now x.exp with
    | some t' => let (tf, vs) := erun w t' xs; (tf, true :: vs)
    | none => let (tf, vs) := erun w t xs; (tf, false :: vs)

def mrun (w : Int) : AList Int → List ESub → AList Int × List Bool
  | t, [] => (t, [])
  | t, x :: xs => match mcheck w t x.id x.nonce x.now with
    | some t' => let (tf, vs) := mrun w t' xs; (tf, true :: vs)
    | none => let (tf, vs) := mrun w t xs; (tf, false :: vs)

/-! ### the expiry the badger driver asks for (`CheckAndSaveNonce`, `setExpiringItem`)

`ttl := nonceExpire + 1 s`, plus `nonce − now` when the nonce is dated ahead of the store's clock; badger stamps the
entry with `ExpiresAt = (clock + ttl).Unix()` (whole seconds, rounded down; its own clock reading `now1` is taken a
little after the driver's `now0`) and hides it from the second `ExpiresAt` on. -/

def second : Int := 1000000000

def badgerTtl (w nonce now0 : Int) : Int :=
  let ttl := w + second
  if nonce - now0 > 0 then ttl + (nonce - now0) else ttl

/-- the first instant at which the entry is no longer visible -/
def badgerExp (w nonce now0 now1 : Int) : Int := ((now1 + badgerTtl w nonce now0) / second) * second

/-- a time-to-live without the one-second slack (what a "simplification" of the code would ask for) -/
def noSlackExp (w nonce now0 now1 : Int) : Int := ((now1 + (nonce + w - now0)) / second) * second

end Vipnode.NonceTtl
