/-
Event-level model of one `jsonrpc2.Remote` (`remote.go`, `pending.go`,
`client.go`): the pending-reply table, id allocation, the read loop routing
replies and spawning request handlers (which may call back over the same
connection), callers taking their reply or giving up.

Every step below is one atomic region of the real code (the `r.mu` critical
section of `pendingChan` / `dropPending`, a channel send or receive, the
atomic id counter).  The peer and the scheduler are the environment: they
choose which event happens next.  Core Lean only.
-/
import Vipnode.Model.AList
namespace Vipnode

/-- a reply as the caller sees it -/
inductive RpcReply
  | result (payload : String)
  | error (code : Int)
  | empty                      -- neither result nor error
deriving Repr, DecidableEq

structure Slot where
  id : Nat
  buf : Option RpcReply := none
  waiting : Bool := false
  stamp : Nat := 0             -- creation order (the timestamp the code sorts by)
deriving Repr, DecidableEq

inductive Outgoing
  | request (id : Nat) (method arg : String)
  | response (id : Nat) (payload : String)
  | errResponse (id : Nat) (code : Int)
deriving Repr, DecidableEq

/-- a call in progress: who (token), on which id -/
structure LiveCall where
  token : String
  id : Nat
deriving Repr, DecidableEq

/-- a request handler blocked in a call-back: it answers request `reqId` with whatever call `callId` returns -/
structure Handler where
  reqId : Nat
  callId : Nat
deriving Repr, DecidableEq

inductive CallResult
  | returned (payload : String)
  | failed (code : Int)
  | emptyReply
  | ctxError
  | closed                     -- the connection's read loop ended before a reply came
deriving Repr, DecidableEq

structure Rpc where
  limit : Nat := 0
  discard : Nat := 0
  nextId : Nat := 0
  clock : Nat := 0
  pending : List Slot := []
  live : List LiveCall := []
  handlers : List Handler := []
  finished : List (String × CallResult) := []   -- results of completed calls, by token
  outbox : List Outgoing := []
  handled : Nat := 0                               -- request handlers started
  ended : Bool := false                            -- `Serve` has returned (`endServe` closed `served`)
deriving Repr

namespace Rpc

def slot? (r : Rpc) (id : Nat) : Option Slot := r.pending.find? (·.id == id)

def insertSorted (s : Slot) : List Slot → List Slot
  | [] => [s]
  | h :: t => if s.stamp ≤ h.stamp then s :: h :: t else h :: insertSorted s t

/-- the `discard` oldest entries nobody waits on -/
def evictable (r : Rpc) : List Nat :=
  (((r.pending.filter (fun s => !s.waiting)).foldr insertSorted []).take r.discard).map (·.id)

/-- `pendingChan`'s eviction step -/
def evict (r : Rpc) : Rpc :=
  if r.limit > 0 ∧ r.pending.length ≥ r.limit ∧ r.discard > 0 then
    let gone := r.evictable
    { r with pending := r.pending.filter (fun s => !gone.contains s.id) }
  else r

/-- `pendingChan(key, waiting)`: evict if the table is full, then find or create the slot -/
def pendingChan (r : Rpc) (id : Nat) (waiting : Bool) : Rpc :=
  let r := r.evict
  match r.slot? id with
  | some s =>
    if waiting && !s.waiting then
      { r with pending := r.pending.map (fun x => if x.id == id then { x with waiting := true } else x) }
    else r
  | none => { r with pending := r.pending ++ [{ id := id, waiting := waiting, stamp := r.clock }], clock := r.clock + 1 }

def dropPending (r : Rpc) (id : Nat) : Rpc := { r with pending := r.pending.filter (fun s => s.id != id) }

def resultOf : RpcReply → CallResult
  | .result p => .returned p
  | .error c => .failed c
  | .empty => .emptyReply

/-- a call starts: allocate the next id, register as waiting, send the request -/
def callBegin (r : Rpc) (token method arg : String) : Rpc × Nat :=
  let id := r.nextId + 1
  let r := { r with nextId := id }
  let r := r.pendingChan id true
  ({ r with live := r.live ++ [{ token := token, id := id }], outbox := r.outbox ++ [.request id method arg] }, id)

/-- the call on `id` receives `m`: its slot is dropped; a plain call finishes with the reply, a call made by a
request handler lets that handler answer its own request -/
def complete (r : Rpc) (id : Nat) (m : RpcReply) : Rpc :=
  let r := r.dropPending id
  match r.live.find? (·.id == id) with
  | none => r
  | some c =>
    let r := { r with live := r.live.filter (·.id != id) }
    match r.handlers.find? (·.callId == id) with
    | some h =>
      let out := match m with
        | .result p => Outgoing.response h.reqId p
        | .error _ => Outgoing.errResponse h.reqId (-32603)
        | .empty => Outgoing.errResponse h.reqId (-32603)
      { r with handlers := r.handlers.filter (·.callId != id), outbox := r.outbox ++ [out] }
    | none => { r with finished := r.finished ++ [(c.token, resultOf m)] }

/-- the read loop receives a reply carrying `id` and puts it into the id's slot (buffer of one).  Returns `none`
when the read loop would block (the slot already holds an untaken reply: a peer that answers the same id twice). -/
def deliverReply (r : Rpc) (id : Nat) (m : RpcReply) : Option Rpc :=
  let r := r.pendingChan id false
  match r.slot? id with
  | none => some r   -- unreachable: pendingChan creates it
  | some s =>
    if s.buf.isSome then none
    else some { r with pending := r.pending.map (fun x => if x.id == id then { x with buf := some m } else x) }

/-- the caller waiting on `id` takes the buffered reply (enabled only when there is one and the call is live) -/
def take (r : Rpc) (id : Nat) : Rpc :=
  match r.slot? id, r.live.find? (·.id == id) with
  | some s, some _ =>
    match s.buf with
    | some m => r.complete id m
    | none => r
  | _, _ => r

/-- the read loop receives a request: a handler is started (on its own goroutine).  `callback = none`: it answers
`arg` at once; `callback = some x`: it first calls the peer back with `x` and answers with what that call returns -/
def deliverRequest (r : Rpc) (reqId : Nat) (known : Bool) (arg : String) (callback : Option String) : Rpc :=
  let r := { r with handled := r.handled + 1 }
  if !known then { r with outbox := r.outbox ++ [.errResponse reqId (-32601)] }
  else match callback with
    | none => { r with outbox := r.outbox ++ [.response reqId arg] }
    | some x =>
      let (r, id) := r.callBegin ("handler-" ++ toString reqId) "peerEcho" x
      { r with handlers := r.handlers ++ [{ reqId := reqId, callId := id }] }

/-- the caller's context ends: it forgets its slot and returns the context's error -/
def cancel (r : Rpc) (token : String) : Rpc :=
  match r.live.find? (·.token == token) with
  | none => r
  | some c =>
    let r := r.dropPending c.id
    { r with live := r.live.filter (·.id != c.id), finished := r.finished ++ [(token, .ctxError)] }

/-- `Serve` returns (the connection failed or was closed): `endServe` closes the `served` channel -/
def serveEnd (r : Rpc) : Rpc := { r with ended := true }

/-- the call on `id` learns that no reply will ever be read: like `complete`, but there is no message - a plain call
fails with the read loop's error, a handler's call-back fails and the handler answers its request with an error -/
def abandon (r : Rpc) (id : Nat) : Rpc :=
  let r := r.dropPending id
  match r.live.find? (·.id == id) with
  | none => r
  | some c =>
    let r := { r with live := r.live.filter (·.id != id) }
    match r.handlers.find? (·.callId == id) with
    | some h => { r with handlers := r.handlers.filter (·.callId != id), outbox := r.outbox ++ [.errResponse h.reqId (-32603)] }
    | none => { r with finished := r.finished ++ [(c.token, .closed)] }

/-- the `<-r.servedChan()` arm of `receiveFrom`: enabled once the read loop has ended.  The caller drops its slot,
then looks once more at its channel - a reply that was already delivered still wins - and otherwise gives up -/
def observeEnd (r : Rpc) (id : Nat) : Rpc :=
  if !r.ended then r else
  match r.live.find? (·.id == id) with
  | none => r
  | some _ =>
    match (r.slot? id).bind (·.buf) with
    | some m => r.complete id m
    | none => r.abandon id

/-- every call in progress observes the end (in the order the scheduler picks; here: registration order) -/
def releaseAll (r : Rpc) : Rpc := (r.live.map (·.id)).foldl observeEnd r

end Rpc
end Vipnode
