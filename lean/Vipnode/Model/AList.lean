/-
Association lists keyed by `String`, the model of Go maps.

`set` replaces the first binding of the key (or appends), `get` reads the first
binding, `del` removes the first binding.  With these three choices every sum
identity used by the ledger theorems holds without a no-duplicates side
condition; `NoDupKeys` is nevertheless an invariant of every list built from
`[]` by `set`/`del` and is proved separately (Lemmas/AList.lean).
Core Lean only.
-/
namespace Vipnode

abbrev AList (α : Type) := List (String × α)

namespace AList
variable {α : Type}

def get : AList α → String → Option α
  | [], _ => none
  | (k', v) :: t, k => if k' = k then some v else get t k

def set : AList α → String → α → AList α
  | [], k, v => [(k, v)]
  | (k', v') :: t, k, v => if k' = k then (k, v) :: t else (k', v') :: set t k v

def del : AList α → String → AList α
  | [], _ => []
  | (k', v') :: t, k => if k' = k then t else (k', v') :: del t k

def has (l : AList α) (k : String) : Bool := (get l k).isSome

def keys (l : AList α) : List String := l.map (·.1)

def vals (l : AList α) : List α := l.map (·.2)

end AList

/-- insertion sort on strings (used only to canonicalise outputs) -/
def insertSorted (x : String) : List String → List String
  | [] => [x]
  | y :: t => if x ≤ y then x :: y :: t else y :: insertSorted x t

def sortStrings (l : List String) : List String := l.foldr insertSorted []

def dedupStrings : List String → List String
  | [] => []
  | x :: t => if t.contains x then dedupStrings t else x :: dedupStrings t

def sumInts (l : List Int) : Int := l.foldr (· + ·) 0

end Vipnode
