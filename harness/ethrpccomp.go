package main

import (
	"context"
	"fmt"
	"math/rand"
	"strings"
	"sync"
	"time"

	"github.com/ethereum/go-ethereum/rpc"
	"github.com/vipnode/vipnode/v2/ethnode"
)

// ethrpc: the agent's view of its Ethereum node is ethnode.EthNode; for a geth node every peer instruction goes out as
// an admin_* RPC.  What the agent asks for (connect to this URI, drop / trust / un-trust this id) is what the node's
// RPC endpoint receives: the argument unchanged, except that a bare id gets the enode:// prefix geth insists on.

func init() { components["ethrpc"] = func() Component { return &ethRPCComp{} } }

type rpcLog struct {
	mu    sync.Mutex
	calls []string
}

func (l *rpcLog) add(s string) { l.mu.Lock(); l.calls = append(l.calls, s); l.mu.Unlock() }

type fakeAdmin struct{ log *rpcLog }

func (a *fakeAdmin) AddPeer(url string) (bool, error)           { a.log.add("admin_addPeer " + Tok(url)); return true, nil }
func (a *fakeAdmin) RemovePeer(url string) (bool, error)        { a.log.add("admin_removePeer " + Tok(url)); return true, nil }
func (a *fakeAdmin) AddTrustedPeer(url string) (bool, error)    { a.log.add("admin_addTrustedPeer " + Tok(url)); return true, nil }
func (a *fakeAdmin) RemoveTrustedPeer(url string) (bool, error) { a.log.add("admin_removeTrustedPeer " + Tok(url)); return true, nil }

type fakeParity struct{ log *rpcLog }

func (a *fakeParity) AddReservedPeer(url string) (bool, error)    { a.log.add("parity_addReservedPeer " + Tok(url)); return true, nil }
func (a *fakeParity) RemoveReservedPeer(url string) (bool, error) { a.log.add("parity_removeReservedPeer " + Tok(url)); return true, nil }

func (a *fakeParity) Enode() (string, error) { return "enode://" + strings.Repeat("cd", 64) + "@127.0.0.1:30303", nil }

type fakeWeb3 struct{ version string }

func (w fakeWeb3) ClientVersion() string { return w.version }

type fakeEth struct{}

func (fakeEth) ProtocolVersion() string { return "0x3f" }

type fakeNet struct{}

func (fakeNet) Version() string { return "1" }

type ethRPCComp struct {
	srv  *rpc.Server
	node ethnode.EthNode
	log  *rpcLog
}

func (c *ethRPCComp) Close() {
	if c.srv != nil {
		c.srv.Stop()
		c.srv = nil
	}
}

func (c *ethRPCComp) Reset(opts map[string]string, base int64) { c.start("geth") }

// start: an in-process RPC server announcing itself as a geth, parity or pantheon node
func (c *ethRPCComp) start(kind string) {
	c.Close()
	c.log = &rpcLog{}
	c.srv = rpc.NewServer()
	c.srv.RegisterName("admin", &fakeAdmin{log: c.log})
	c.srv.RegisterName("parity", &fakeParity{log: c.log})
	c.srv.RegisterName("web3", fakeWeb3{version: map[string]string{"geth": "Geth/v1.8.21-stable/linux-amd64/go1.11", "parity": "Parity-Ethereum//v2.5.5-stable/x86_64-linux-gnu/rustc1.36.0",
		"pantheon": "pantheon/v1.1.3/linux-x86_64/oracle-java-1.8"}[kind]})
	c.srv.RegisterName("eth", fakeEth{})
	c.srv.RegisterName("net", fakeNet{})
	n, err := ethnode.RemoteNode(rpc.DialInProc(c.srv))
	if err != nil {
		fatal(err)
	}
	c.node = n
}

func (c *ethRPCComp) Exec(t []string) (extra []string, out string, eff bool) {
	if len(t) != 2 {
		return nil, "bad-op", false
	}
	if t[0] == "kind" {
		if t[1] != "geth" && t[1] != "parity" && t[1] != "pantheon" {
			return nil, "bad-op", false
		}
		c.start(t[1])
		return nil, "ok " + c.node.Kind().String(), true
	}
	arg := Untok(t[1])
	ctx, cancel := context.WithTimeout(context.Background(), 2*time.Second)
	defer cancel()
	c.log.mu.Lock()
	c.log.calls = nil
	c.log.mu.Unlock()
	var err error
	defer func() {
		// a panic inside the node wrapper would take the agent's process down with it
		if r := recover(); r != nil {
			extra, out, eff = nil, "panic "+strings.Replace(fmt.Sprint(r), " ", "_", -1), true
		}
	}()
	switch t[0] {
	case "connect":
		err = c.node.ConnectPeer(ctx, arg)
	case "disconnect":
		err = c.node.DisconnectPeer(ctx, arg)
	case "trust":
		err = c.node.AddTrustedPeer(ctx, arg)
	case "untrust":
		err = c.node.RemoveTrustedPeer(ctx, arg)
	default:
		return nil, "bad-op", false
	}
	if err != nil {
		return nil, "err " + strings.Replace(err.Error(), " ", "_", -1), false
	}
	c.log.mu.Lock()
	defer c.log.mu.Unlock()
	return nil, "sent " + strings.Join(c.log.calls, ";"), true
}

func (c *ethRPCComp) Gen(r *rand.Rand, idx int, emit func(string)) {
	emit("kind " + []string{"geth", "parity", "pantheon"}[idx%3])
	id := strings.Repeat("ab", 64)
	addrs := []string{"1.2.3.4:30303", "127.0.0.1:30304", "localhost:30303", "[::1]:30303", "[::]:30303", "0.0.0.0:30303", "18.179.8.14:30303?discport=30301",
		"[2001:db8::5]:30303", "host.example:30303", "10.0.0.9:1", "[fe80::1%25eth0]:30303"}
	for i := 0; i < 12; i++ {
		op := pick(r, []string{"connect", "connect", "connect", "disconnect", "trust", "untrust"})
		var arg string
		switch r.Intn(6) {
		case 0:
			arg = id // a bare id
		case 1:
			arg = "enode://" + id
		case 2:
			arg = pick(r, []string{"enode://", "enode://" + id + "@", "", "enode://@1.2.3.4:30303", "@"})
		default:
			arg = "enode://" + id + "@" + pick(r, addrs)
		}
		emit(fmt.Sprintf("%s %s", op, Tok(arg)))
	}
}
