package main

import (
	"fmt"
	"math/big"
	"math/rand"
	"strconv"
	"strings"
	"time"
)

// Generator variants for the `pool` component: each emits `pool …` op lines
// focused on one family of properties (DESIGN.md section 6).

type poolVariant struct {
	poolComp
	gen func(r *rand.Rand, idx int, emit func(string))
}

func (v *poolVariant) Prefix() string { return "pool" }
func (v *poolVariant) Gen(r *rand.Rand, idx int, emit func(string)) {
	v.gen(r, idx, emit)
}

func init() {
	for name, g := range map[string]func(*rand.Rand, int, func(string)){
		"pool-money":   genPoolMoney,
		"pool-billing": genPoolBilling,
		"pool-minbal":  genPoolMinBal,
		"pool-nonce":   genPoolNonce,
		"pool-peers":   genPoolPeers,
		"pool-expiry":  genPoolExpiry,
	} {
		g := g
		components[name] = func() Component { return &poolVariant{gen: g} }
	}
}

type pg struct {
	r          *rand.Rand
	emit       func(string)
	nonce      int64
	readFaults bool
}

func (g *pg) n() string {
	g.nonce += int64(1+g.r.Intn(3)) * int64(time.Millisecond)
	return TTok(g.nonce)
}

func (g *pg) cfg(price string, interval int64, min string, max int, wmin, wfee string, settle bool) {
	g.emit(fmt.Sprintf("cfg price=%s interval=%d min=%s max=%d nobalance=0 wmin=%s wfee=%s settle=%s", price, interval, min, max, wmin, wfee, B(settle)))
}

func (g *pg) host(name, conn, ip, kind string) {
	g.emit(fmt.Sprintf("connect %s %s %s good 1 %s uset=1 uhost=%s uport=~ uuser=%s ubad=0 src=~ payout=~", conn, name, g.n(), kind, ip, name))
}

func (g *pg) client(name, kind, sig string) {
	g.emit(fmt.Sprintf("connect ~ %s %s %s 0 %s uset=0 uhost=~ uport=~ uuser=~ ubad=0 src=~ payout=~", name, g.n(), sig, kind))
}

func (g *pg) update(name, sig string, peers []string, mnow int64) {
	rf := ""
	if g.readFaults && g.r.Intn(6) == 0 {
		rf = " readfault=1" // the deposit lookup of the balance read-back fails during this keep-alive
	}
	if rf == "" && len(peers) > 0 && g.r.Intn(7) == 0 {
		// the store fails some of the per-peer credits of this keep-alive (any error, not only `unregistered`): the
		// client pays exactly for the credits that were given out, the keep-alive itself goes through
		k := g.r.Intn(len(peers))
		rf = " failpeer=" + JoinC(append([]string{peers[k]}, peers[:g.r.Intn(k+1)]...))
	}
	g.emit(fmt.Sprintf("update %s %s %s block=%d peers=%s mnow=%s%s", name, g.n(), sig, g.r.Intn(50), JoinC(peers), TTok(mnow), rf))
}

func (g *pg) dump() { g.emit("dump") }

const minute = int64(time.Minute)

// ---------------------------------------------------------------- money: billing, linking, withdrawals (C01, C07)

func genPoolMoney(r *rand.Rand, idx int, emit func(string)) {
	g := &pg{r: r, emit: emit, readFaults: true}
	g.cfg(pick(r, []string{"1000", "7", "1000000", "18446744073709551629"}), minute, "off", 0,
		pick(r, []string{"off", "0", "500", "5000"}), pick(r, []string{"off", "0", "100", "1000"}), r.Intn(8) != 0)
	g.host("n0", "c0", "1.1.1.1", "geth")
	g.host("n1", "c1", "1.1.1.2", "geth")
	g.client("n6", "geth", "good")
	g.client("n7", "geth", "good")
	// wallets: hosts earn into w0 / w1 (sometimes shared), a client pays from w2 with a deposit
	emit(fmt.Sprintf("addnode w0 %s good n0", g.n()))
	if r.Intn(2) == 0 {
		emit(fmt.Sprintf("addnode w0 %s good n1", g.n()))
	} else if r.Intn(2) == 0 {
		emit(fmt.Sprintf("addnode w1 %s good n1", g.n()))
	}
	if r.Intn(2) == 0 {
		emit(fmt.Sprintf("addnode w2 %s good n6", g.n()))
		emit(fmt.Sprintf("deposit w2 %s", pick(r, []string{"100000", "5000", "0"})))
	}
	if r.Intn(3) == 0 {
		emit(fmt.Sprintf("deposit w0 %s", pick(r, []string{"400", "600", "10000"})))
	}
	g.dump()
	n := 6 + r.Intn(14)
	for i := 0; i < n; i++ {
		switch k := r.Intn(20); {
		case k < 8:
			c := pick(r, []string{"n6", "n7"})
			peers := [][]string{{"n0"}, {"n0", "n1"}, {"n1"}, {"n0", "n1", "n7"}, {}}[r.Intn(5)]
			g.update(c, "good", peers, []int64{minute, 2 * minute, 10 * minute, minute / 2, 1000, 86400 * int64(time.Second)}[r.Intn(6)])
		case k < 10:
			g.update(pick(r, []string{"n0", "n1"}), "good", []string{"n6", "n7"}, 5*minute)
		case k < 16:
			w := pick(r, []string{"w0", "w0", "w1", "w2"})
			if r.Intn(5) == 0 {
				// the wallet spelled in lower case in a request signed over that spelling: another account to the ledger
				w = pick(r, []string{"w0lc", "w0lc", "w1lc", "w2lc"})
			}
			during := ""
			if r.Intn(3) == 0 {
				// a host of some wallet earns while this wallet's settlement is in flight
				during = fmt.Sprintf(" during=%s:%s", pick(r, []string{"n0", "n0", "n1", "n6"}), pick(r, []string{"1000", "1", "777", "18446744073709551629"}))
			}
			emit(fmt.Sprintf("withdraw %s %s %s settle=%s%s", w, g.n(), pick(r, []string{"good", "good", "good", "good", "bad", "otherkey"}), pick(r, []string{"ok", "ok", "ok", "fail", "failonce"}), during))
			if r.Intn(4) == 0 {
				g.dump()
				// the deposit cannot be looked up while the next withdrawal is handled (timelocked, or the contract
				// RPC is down): it is refused and nothing is paid - whatever an earlier lookup returned
				emit(fmt.Sprintf("withdraw %s %s good settle=ok lookupfault=%s", w, g.n(), pick(r, []string{"rpc", "rpc", "timelock"})))
			} else if r.Intn(2) == 0 {
				g.dump()
				// an immediate repeat of the withdrawal must not pay the same earnings again
				emit(fmt.Sprintf("withdraw %s %s good settle=ok", w, g.n()))
			}
		case k < 17:
			emit(fmt.Sprintf("deposit %s %s", pick(r, []string{"w0", "w2"}), pick(r, []string{"0", "777", "5000"})))
		case k < 18:
			emit(fmt.Sprintf("addnode %s %s good %s", pick(r, []string{"w0", "w1", "w3"}), g.n(), pick(r, []string{"n0", "n1", "n7", "n5"})))
		default:
			emit(fmt.Sprintf("addnb %s %s", pick(r, []string{"n0", "n1", "n6"}), pick(r, []string{"5000", "-300", "499", "500", "501"})))
		}
		g.dump()
	}
}

// ---------------------------------------------------------------- billing arithmetic (C02)

func genPoolBilling(r *rand.Rand, idx int, emit func(string)) {
	g := &pg{r: r, emit: emit}
	interval := []int64{minute, int64(time.Second), 1, 7}[r.Intn(4)]
	price := pick(r, append(poolPrices, "1000000000", "1000000000000", "123456789", "4294967296", "9223372036854775807", "18446744073709551615"))
	g.cfg(price, interval, "off", 0, "off", "off", true)
	hosts := []string{"n0", "n1", "n2"}[:1+r.Intn(3)]
	for i, h := range hosts {
		g.host(h, "c"+strconv.Itoa(i), "2.2.2."+strconv.Itoa(i), "geth")
	}
	g.client("n6", "geth", "good")
	g.client("n7", "geth", "good")
	if r.Intn(3) == 0 {
		// a peer sharing the client's wallet
		emit(fmt.Sprintf("addnode w0 %s good n7", g.n()))
		emit(fmt.Sprintf("addnode w0 %s good %s", g.n(), hosts[0]))
	}
	// make the peers tracked, with zero elapsed (nothing billed)
	peers := append([]string{}, hosts...)
	if r.Intn(3) == 0 {
		peers = append(peers, "n6") // a non-host peer
	}
	if r.Intn(6) == 0 {
		peers = append(peers, "n7") // the client itself
	}
	g.dump()
	// a schedule slicing one span: back-date LastSeen exactly, bill exactly
	elapsedGrid := []int64{0, 1, interval - 1, interval, interval + 1, 2 * interval, 3*interval + 1, 59999999999, minute, 1<<62 + 5, -3 * interval, 1<<63 - 1}
	start := -int64(r.Intn(100)) * int64(time.Second)
	if r.Intn(6) == 0 {
		start = -(1 << 62) // far in the past: elapsed can exceed the 64-bit duration range (saturation)
	}
	n := 2 + r.Intn(6)
	for i := 0; i < n; i++ {
		el := elapsedGrid[r.Intn(len(elapsedGrid))]
		if r.Intn(3) == 0 {
			// elapsed chosen so that elapsed × price lands next to a power of two (where fixed-width arithmetic
			// would wrap or change sign): 2^31, 2^32, 2^53, 2^62 … 2^65, 2^127, 2^128
			if pr, ok := new(big.Int).SetString(price, 10); ok && pr.Sign() > 0 {
				k := []uint{31, 32, 53, 62, 63, 63, 64, 64, 65, 127, 128}[r.Intn(11)]
				q := new(big.Int).Lsh(big.NewInt(1), k)
				q.Div(q, pr)
				q.Add(q, big.NewInt(int64(r.Intn(5)-2)))
				if r.Intn(2) == 0 {
					// somewhere inside the band [2^k, 2^(k+1))
					q.Add(q, new(big.Int).Div(new(big.Int).Mul(q, big.NewInt(int64(r.Intn(100)))), big.NewInt(100)))
				}
				if q.IsInt64() && q.Sign() > 0 {
					el = q.Int64()
				}
			}
		}
		// the client's previous check-in is set to `start`, the manager's clock to start+el
		emit(fmt.Sprintf("setnode n7 %s 0 geth ~ ~ 1", TTok(start)))
		g.update("n7", "good", peers, satAdd(start, el))
		g.dump()
		if r.Intn(4) == 0 {
			// a full node's keep-alive moves nothing, whatever the clock says
			g.update(hosts[0], "good", []string{"n7"}, start+10*minute)
			g.dump()
		}
		if r.Intn(5) == 0 {
			g.update("n7", "good", []string{}, start+5*minute) // no peers reported; tracked ones still billed
			g.dump()
		}
		start = satAdd(start, el)
		if start > 1<<61 || start < -(1 << 61) {
			start = 0
		}
	}
}

// ---------------------------------------------------------------- minimum balance (C03)

func genPoolMinBal(r *rand.Rand, idx int, emit func(string)) {
	g := &pg{r: r, emit: emit}
	mins := []int64{0, 1000, -500, 100000, 1}
	min := mins[r.Intn(len(mins))]
	minS := strconv.FormatInt(min, 10)
	if r.Intn(8) == 0 {
		minS = "off"
	}
	g.cfg("1000", minute, minS, 0, "off", "off", true)
	// hosts: with a minimum configured a brand-new host has balance 0 and must still be accepted
	g.host("n0", "c0", "3.3.3.1", "geth")
	// (sometimes both hosts sit behind one connection: a cut-off still tells each of them)
	g.host("n1", pick(r, []string{"c1", "~", "c0", "c0"}), "3.3.3.2", "geth")
	// the client's balance: deposit + credit placed around the minimum
	total := min + []int64{-1, 0, 1, 1000, 999, 1001, 2000, -1000}[r.Intn(8)]
	dep := []int64{0, total, total / 2, -7, total + 5}[r.Intn(5)]
	credit := total - dep
	// register the client first (a refused connect still registers it), then give it its balance
	g.client("n7", "geth", "good")
	if r.Intn(4) != 0 {
		emit(fmt.Sprintf("addnode w2 %s good n7", g.n()))
		emit(fmt.Sprintf("deposit w2 %d", dep))
	} else {
		credit = total // trial balance: no deposit
	}
	emit(fmt.Sprintf("addnb n7 %d", credit))
	g.dump()
	g.client("n7", "geth", "good") // connect with the prepared balance: refused iff total < min
	g.dump()
	// keep-alives whose charge is smaller / larger than the minimum
	for i := 0; i < 2+r.Intn(4); i++ {
		emit(fmt.Sprintf("setnode n7 %s 0 geth ~ ~ 1", TTok(-10*minute)))
		peers := [][]string{{"n0"}, {"n0", "n1"}, {}}[r.Intn(3)]
		g.update("n7", "good", peers, -10*minute+[]int64{minute, minute / 1000, 3 * minute, 0, 200 * minute}[r.Intn(5)])
		g.dump()
		if r.Intn(3) == 0 {
			emit(fmt.Sprintf("addnb n7 %s", pick(r, []string{"1", "-1", "1000", "-1000", "5000"})))
		}
		if r.Intn(4) == 0 {
			g.update("n0", "good", []string{"n7"}, 5*minute) // hosts are never cut off
		}
		if r.Intn(5) == 0 {
			emit(fmt.Sprintf("close c%d", r.Intn(2)))
		}
	}
	// a host whose balance is below the minimum reconnects
	emit(fmt.Sprintf("addnb n0 %s", pick(r, []string{"-5000000", "0", "5"})))
	g.host("n0", "c2", "3.3.3.1", "geth")
	g.dump()
}

// ---------------------------------------------------------------- nonces and refused requests (C05, C06)

func genPoolNonce(r *rand.Rand, idx int, emit func(string)) {
	g := &pg{r: r, emit: emit}
	g.cfg("1000", minute, pick(r, []string{"off", "0"}), 0, "off", "0", true)
	g.host("n0", "c0", "4.4.4.1", "geth")
	g.client("n7", "geth", "good")
	g.client("n6", "geth", "good")
	emit(fmt.Sprintf("addnode w0 %s good n0", g.n()))
	g.dump()
	ids := []string{"n0", "n6", "n7"}
	bad := []string{"bad", "otherkey", "empty", "short", "garbage", "wrongmethod", "wrongnonce", "alteredparam", "otherident", "respell0x", "respellUP", "respell1"}
	last := map[string]int64{}
	for i := 0; i < 10+r.Intn(15); i++ {
		who := pick(r, ids)
		var nonce int64
		sig := "good"
		switch r.Intn(10) {
		case 0:
			nonce = last[who] // equal to the last accepted
		case 1:
			nonce = last[who] - int64(1+r.Intn(3))*int64(time.Millisecond) // decreasing
		case 2:
			nonce = -901 * sec // older than the freshness window
		case 3:
			nonce = -899 * sec // inside the window but (usually) below the last accepted
		case 4:
			// a forged request with a far-future nonce must not burn the identity's nonces
			nonce = g.nonce + 3600*sec
			sig = pick(r, bad)
		case 5:
			g.nonce += int64(time.Millisecond)
			nonce = g.nonce
			sig = pick(r, bad)
		default:
			g.nonce += int64(1+r.Intn(3)) * int64(time.Millisecond)
			nonce = g.nonce
		}
		nt := TTok(nonce)
		usig := sig
		if sig == "good" && nonce == g.nonce && idx%4 == 1 && i == 3 {
			// a genuine signature that looks like another encoding ("0x...") is still the node's own signature
			emit(fmt.Sprintf("update %s %s good0x block=5 peers= mnow=%s", who, nt, TTok(0)))
			g.nonce += 200 * int64(time.Microsecond) // the harness moves the nonce forward by up to 60000 ns
			last[who] = g.nonce
			g.dump()
			continue
		}
		if sig == "good" && r.Intn(3) == 0 {
			usig = "oldfmt" // an old agent signs the deprecated payload layout: same replay protection
		}
		switch r.Intn(9) {
		case 7:
			emit(fmt.Sprintf("host %s %s %s %s geth uset=1 uhost=4.4.4.8 uport=~ uuser=%s ubad=0 src=~ payout=~", pick(r, []string{"c3", "c4"}), who, nt, sig, who))
		case 8:
			emit(fmt.Sprintf("client ~ %s %s %s geth num=%d outcomes=", who, nt, sig, r.Intn(3)))
		case 0:
			emit(fmt.Sprintf("connect %s %s %s %s %s geth uset=1 uhost=4.4.4.9 uport=~ uuser=%s ubad=0 src=~ payout=~", pick(r, []string{"c3", "c4"}), who, nt, sig, B(who == "n0"), who))
		case 1, 2:
			emit(fmt.Sprintf("update %s %s %s block=3 peers=n0 mnow=%s", who, nt, usig, TTok(minute)))
		case 3:
			emit(fmt.Sprintf("peer %s %s %s num=1 kind=~ outcomes=", who, nt, sig))
		case 4:
			w := pick(r, []string{"w0", "w1"})
			emit(fmt.Sprintf("addnode %s %s %s %s", w, nt, sig, pick(r, ids)))
			who = w
		case 5:
			w := pick(r, []string{"w0", "w1"})
			emit(fmt.Sprintf("withdraw %s %s %s settle=ok", w, nt, sig))
			who = w
		default:
			emit(fmt.Sprintf("update %s %s %s block=4 peers= mnow=%s", who, nt, usig, TTok(0)))
		}
		if sig == "good" && nonce > last[who] && nonce > -900*sec {
			last[who] = nonce
		}
		g.dump()
	}
}

// ---------------------------------------------------------------- host selection and the connection registry (C08, C09)

func genPoolPeers(r *rand.Rand, idx int, emit func(string)) {
	g := &pg{r: r, emit: emit}
	max := []int{0, 0, 1, 2, 3}[r.Intn(5)]
	g.cfg("1000", minute, "off", max, "off", "off", true)
	nh := 1 + r.Intn(6)
	kinds := []string{"geth", "geth", "parity"}
	for i := 0; i < nh; i++ {
		conn := "c" + strconv.Itoa(i)
		if r.Intn(6) == 0 && i > 0 {
			conn = "c" + strconv.Itoa(r.Intn(i)) // two hosts behind one connection
		}
		g.host("n"+strconv.Itoa(i), conn, "5.5.5."+strconv.Itoa(i), pick(r, kinds))
	}
	g.client("n7", pick(r, kinds), "good")
	g.client("n6", "geth", "good")
	upHost := ""
	if idx%4 == 1 {
		// a host registered under the upper-case spelling of its id (same key; another node to the store): once the
		// client reports it as a peer it is not offered again
		upHost = pick(r, []string{"n0up", "n1up"})
		g.host(upHost, "c"+strconv.Itoa(nh+3), "5.5.5.9", "geth")
	}
	// some hosts become stale (no keep-alive within the window), some are not hosts at all
	for i := 0; i < nh; i++ {
		switch r.Intn(7) {
		case 0:
			emit(fmt.Sprintf("setnode n%d %s 1 %s enode://n%d@5.5.5.%d:30303 ~ 1", i, TTok(-130*sec), pick(r, kinds), i, i))
		case 1:
			emit(fmt.Sprintf("setnode n%d %s 0 geth ~ ~ 1", i, TTok(-10*sec))) // re-registered as a light client
		}
	}
	if r.Intn(2) == 0 {
		// already peered with some hosts: they must not be offered again
		g.update("n7", "good", []string{"n0", "n" + strconv.Itoa(r.Intn(nh))}, 0)
	}
	g.dump()
	if upHost != "" {
		emit(fmt.Sprintf("peer n7 %s good num=%d kind=~ outcomes=", g.n(), nh+2))
		g.update("n7", "good", []string{upHost, "n0"}, 0)
		g.dump()
		emit(fmt.Sprintf("peer n7 %s good num=%d kind=~ outcomes=", g.n(), nh+2))
	}
	if idx%5 == 3 {
		// a host moves to a new connection and then back to the one it used before, which never closed: the pool
		// instructs it over the connection it registered on last, and closing the other one changes nothing
		h := r.Intn(nh)
		hn, ip, kind := "n"+strconv.Itoa(h), "5.5.5."+strconv.Itoa(h), pick(r, kinds)
		x, y := "c"+strconv.Itoa(nh+2+r.Intn(2)), "c"+strconv.Itoa(nh+4)
		g.host(hn, x, ip, kind)
		g.host(hn, y, ip, kind)
		g.host(hn, x, ip, kind)
		emit(fmt.Sprintf("peer n7 %s good num=%d kind=~ outcomes=", g.n(), nh+1))
		emit("close " + pick(r, []string{y, y, x}))
		g.dump()
		emit(fmt.Sprintf("peer n6 %s good num=%d kind=~ outcomes=", g.n(), nh+1))
		g.dump()
	}
	for i := 0; i < 6+r.Intn(12); i++ {
		switch k := r.Intn(20); {
		case k < 10:
			outs := []string{}
			for ci := 0; ci < nh; ci++ {
				switch r.Intn(8) {
				case 0:
					outs = append(outs, fmt.Sprintf("c%d:err", ci))
				case 1:
					if len(outs) == 0 && r.Intn(2) == 0 {
						outs = append(outs, fmt.Sprintf("c%d:hang", ci))
					}
				}
			}
			emit(fmt.Sprintf("peer %s %s good num=%d kind=%s outcomes=%s", pick(r, []string{"n7", "n7", "n6", "n0"}), g.n(),
				[]int{-5, -1, 0, 1, 1, 2, 3, nh - 1, nh, nh + 3}[r.Intn(10)], Tok(pick(r, []string{"", "", "geth", "geth", "parity", "pantheon", "besu", "Geth", "geth-les", "unknown"})), strings.Join(outs, ",")))
		case k < 11:
			// legacy client request: no count means the documented default of three
			emit(fmt.Sprintf("client ~ %s %s good %s num=%d outcomes=", pick(r, []string{"n7", "n6"}), g.n(), pick(r, []string{"geth", "parity", "~", "~", "nethermind", "unknown"}), []int{0, 0, -2, 1, 4}[r.Intn(5)]))
		case k < 13:
			emit(fmt.Sprintf("close c%d", r.Intn(nh+1)))
		case k < 16:
			// reconnect of a host on a new (or the same) connection
			h := r.Intn(nh)
			if r.Intn(4) == 0 {
				// ... or somebody else's refused attempt to register under that host's identity: the registry must
				// not move
				if r.Intn(3) == 0 {
					// ... or the host's own, correctly signed attempt that is refused for its address (another
					// identity in the URI, an unparsable URI, no host at all): the registry must not move either
					emit(fmt.Sprintf("connect c%d n%d %s good 1 geth %s src=~ payout=~", r.Intn(nh+2), h, g.n(),
						pick(r, []string{fmt.Sprintf("uset=1 uhost=5.5.5.%d uport=~ uuser=n%d ubad=0", h, (h+1)%8), "uset=1 uhost=~ uport=~ uuser=~ ubad=1", fmt.Sprintf("uset=1 uhost=~ uport=~ uuser=n%d ubad=0", h), fmt.Sprintf("uset=1 uhost=:: uport=~ uuser=n%d ubad=0", h)})))
					emit(fmt.Sprintf("close c%d", r.Intn(nh+2)))
					break
				}
				emit(fmt.Sprintf("connect c%d n%d %s %s 1 geth uset=1 uhost=5.5.5.%d uport=~ uuser=n%d ubad=0 src=~ payout=~", r.Intn(nh+2), h, g.n(),
					pick(r, []string{"bad", "otherkey", "garbage", "wrongnonce", "otherident"}), h, h))
				break
			}
			g.host("n"+strconv.Itoa(h), "c"+strconv.Itoa(r.Intn(nh+2)), "5.5.5."+strconv.Itoa(h), pick(r, kinds))
		case k < 18:
			g.update("n7", "good", []string{"n" + strconv.Itoa(r.Intn(nh))}, 0)
		default:
			g.update("n"+strconv.Itoa(r.Intn(nh)), "good", []string{"n7"}, 0)
		}
		g.dump()
	}
}

// ---------------------------------------------------------------- inactive peers (C11)

func genPoolExpiry(r *rand.Rand, idx int, emit func(string)) {
	g := &pg{r: r, emit: emit}
	g.cfg("1000", minute, "off", 0, "off", "off", true)
	nodes := []string{"n0", "n1", "n2", "n3"}
	for i, h := range nodes[:2] {
		g.host(h, "c"+strconv.Itoa(i), "6.6.6."+strconv.Itoa(i), "geth")
	}
	g.client("n2", "geth", "good")
	g.client("n3", "geth", "good")
	g.client("n7", "geth", "good")
	g.dump()
	if idx%30 == 4 {
		// a tracked peer crosses the expiry boundary while it is not reported any more (its recorded check-in only
		// ages with real time)
		emit(fmt.Sprintf("setnode n0 %s 1 geth ~ ~ 1", TTok(-118500*int64(time.Millisecond))))
		g.update("n7", "good", []string{"n0", "n1"}, 0)
		g.dump()
		emit("sleep 1700")
		if (idx/30)%2 == 1 {
			// the host checks in again just in time and is still reported: its old record is stale, the host is live
			g.update("n0", "good", []string{"n7"}, 0)
			g.dump()
			g.update("n7", "good", [][]string{{"n0"}, {"n0", "n1"}, {"n0", "n0"}}[r.Intn(3)], 0)
		} else {
			g.update("n7", "good", [][]string{{}, {}, {"stranger0"}, {"n7"}, {"n1"}}[r.Intn(5)], 0)
		}
		g.dump()
	}
	for i := 0; i < 6+r.Intn(14); i++ {
		switch k := r.Intn(10); {
		case k < 3:
			// a peer's own last check-in moves around the 120 s expiry window (10 s margins, plus far values)
			p := pick(r, nodes)
			emit(fmt.Sprintf("setnode %s %s %s geth ~ ~ 1", p, TTok([]int64{-130, -110, -125, -60, -1, -600, -121 - 9}[r.Intn(7)]*sec), B(p == "n0" || p == "n1")))
		case k < 8:
			np := r.Intn(5)
			ps := []string{}
			for j := 0; j < np; j++ {
				switch r.Intn(8) {
				case 0:
					ps = append(ps, "stranger"+strconv.Itoa(r.Intn(2))) // unknown to the pool
				case 1:
					ps = append(ps, "n7") // itself
				default:
					ps = append(ps, pick(r, nodes))
				}
			}
			if r.Intn(4) == 0 && len(ps) > 0 {
				ps = append(ps, ps[0]) // duplicate
			}
			g.update("n7", "good", ps, 0)
		default:
			// the peer checks in itself: LastSeen becomes "now"
			g.update(pick(r, nodes), "good", []string{"n7"}, 0)
		}
		g.dump()
	}
}
