package main

import (
	"encoding/hex"
	"fmt"
	"math/rand"
	"net"
	"net/url"
	"strings"

	"github.com/vipnode/vipnode/v2/ethnode"
	"github.com/vipnode/vipnode/v2/pool"
)

func init() { components["uri"] = func() Component { return &uriComp{} } }

type uriComp struct{}

func (c *uriComp) Close()                                  {}
func (c *uriComp) Reset(opts map[string]string, base int64) {}

func (c *uriComp) Exec(t []string) (extra []string, out string, eff bool) {
	if t[0] != "norm" {
		return nil, "bad-op", false
	}
	idName, _ := FindStr("id", t)
	src, _ := FindStr("src", t)
	rawHex, _ := FindStr("raw", t)
	rawB, _ := hex.DecodeString(rawHex)
	raw := realReplacer2(string(rawB))
	id := realID(idName)
	// what net/url makes of the override (the model works on this structured view)
	x := []string{}
	if raw == "" {
		x = append(x, "uset=0", "ubad=0", "uhost=~", "uport=~", "uuser=~")
	} else if u, err := url.Parse(raw); err != nil {
		x = append(x, "uset=1", "ubad=1", "uhost=~", "uport=~", "uuser=~")
	} else {
		x = append(x, "uset=1", "ubad=0", "uhost="+Tok(u.Hostname()), "uport="+Tok(u.Port()), "uuser="+Tok(canon(u.User.Username())))
	}
	got, err := pool.VerifNormalizeNodeURI(raw, id, src, "30303")
	if err != nil {
		return x, poolErrClass(err), false
	}
	parsed, err := ethnode.ParseNodeURI(got)
	if err != nil {
		return x, "ok-unparsable", true
	}
	host, port, err := net.SplitHostPort((*url.URL)(parsed).Host)
	if err != nil {
		return x, "ok-unparsable", true
	}
	return x, canon(fmt.Sprintf("ok id=%s host=%s port=%s", Tok(parsed.ID()), Tok(host), Tok(port))), true
}

// realReplacer2 expands node names (n0…) inside an override string to real ids.
func realReplacer2(s string) string {
	for _, id := range nodeIdents {
		s = strings.Replace(s, "<"+id.name+">", id.id, -1)
	}
	return s
}

func (c *uriComp) Gen(r *rand.Rand, idx int, emit func(string)) {
	hosts := []string{"1.2.3.4", "203.0.113.9", "host.example.org", "localhost", "[::1]", "[2001:db8::7]", "[::]", "0.0.0.0", "[fe80::1%25eth0]", "", "EXAMPLE.com", "[::ffff:1.2.3.4]"}
	ports := []string{"", ":30303", ":1", ":65535", ":30304", ":0"}
	users := []string{"<n0>@", "<n1>@", "@", "", "<n0>:secret@", "someoneelse@", "<n0>%41@"}
	tails := []string{"", "?discport=0", "/path", "/path?x=1#frag", "?discport=30301"}
	schemes := []string{"enode://", "enode://", "enode://", "http://", "", "//", "ENODE://"}
	srcs := []string{"", "10.0.0.1", "::1", "::", "2001:db8::1", "client.example", "fe80::1%eth0", "0.0.0.0"}
	for i := 0; i < 30; i++ {
		raw := ""
		switch r.Intn(12) {
		case 0: // no override
		case 1:
			raw = pick(r, []string{"%zz", "enode://[::1", "enode://<n0>@1.2.3.4:port", "enode://<n0>@[::1]x:30303", "::1", "enode:// <n0>@1.2.3.4"})
		default:
			raw = pick(r, schemes) + pick(r, users) + pick(r, hosts) + pick(r, ports) + pick(r, tails)
		}
		emit(fmt.Sprintf("norm id=n0 src=%s raw=%s", Tok(pick(r, srcs)), hex.EncodeToString([]byte(raw))))
	}
}
