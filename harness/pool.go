package main

import (
	"context"
	"encoding/base64"
	"encoding/hex"
	"errors"
	"fmt"
	"math/big"
	"math/rand"
	"net"
	"sort"
	"strconv"
	"strings"
	"sync"
	"time"

	"github.com/vipnode/vipnode/v2/ethnode"
	"github.com/vipnode/vipnode/v2/jsonrpc2"
	"github.com/vipnode/vipnode/v2/pool"
	"github.com/vipnode/vipnode/v2/pool/balance"
	"github.com/vipnode/vipnode/v2/pool/payment"
	"github.com/vipnode/vipnode/v2/pool/store"
	"github.com/vipnode/vipnode/v2/request"
)

func init() { components["pool"] = func() Component { return &poolComp{} } }

// ---------------------------------------------------------------- recording / fault-injecting store

type recStore struct {
	store.Store
	mu         sync.Mutex
	lastActive []string // ids returned by the last ActiveHosts call
	activeSeen bool
	lastLimit  int
	creditIdx  int          // index of the next AddNodeBalance call within the current op
	failAt     map[int]bool // credit calls to fail (fault injection)
	failIDs    map[string]bool // peers whose credit fails (fault injection)
	creditSign int
}

var errInjected = errors.New("injected store fault")
var errLookupRPC = errors.New("contract rpc unreachable")

func (r *recStore) ActiveHosts(kind string, limit int) ([]store.Node, error) {
	ns, err := r.Store.ActiveHosts(kind, limit)
	r.mu.Lock()
	r.lastActive = nodeIDs(ns)
	r.activeSeen = true
	r.lastLimit = limit
	r.mu.Unlock()
	return ns, err
}

// balStore is the BalanceStore view handed to the manager through the contract proxy.
type faultBalanceStore struct {
	store.AccountStore
	rec *recStore
}

func (f *faultBalanceStore) AddNodeBalance(id store.NodeID, credit *big.Int) error {
	f.rec.mu.Lock()
	// faults are injected into the per-peer credits of a keep-alive, never into the client's own debit: the credits
	// all carry the same non-zero amount, the debit that follows them the opposite sign (or zero)
	if f.rec.creditIdx == 0 {
		f.rec.creditSign = credit.Sign()
	}
	if credit.Sign() == 0 || credit.Sign() != f.rec.creditSign {
		f.rec.mu.Unlock()
		return f.AccountStore.AddNodeBalance(id, credit)
	}
	k := f.rec.creditIdx
	f.rec.creditIdx++
	fail := f.rec.failAt[k] || f.rec.failIDs[string(id)]
	f.rec.mu.Unlock()
	if fail {
		return errInjected
	}
	return f.AccountStore.AddNodeBalance(id, credit)
}

// ---------------------------------------------------------------- fake host connection

type hostCall struct{ method, arg string }

type fakeConn struct {
	name  string
	addr  string
	comp  *poolComp
	mu    sync.Mutex
	calls []hostCall
}

func (c *fakeConn) RemoteAddr() string { return c.addr }

func (c *fakeConn) Call(ctx context.Context, result interface{}, method string, params ...interface{}) error {
	arg := ""
	if len(params) > 0 {
		arg = fmt.Sprint(params[0])
	}
	c.mu.Lock()
	c.calls = append(c.calls, hostCall{method, arg})
	c.mu.Unlock()
	switch c.comp.outcomeFor(c) {
	case "err":
		return errors.New("host refused")
	case "hang":
		<-ctx.Done()
		return ctx.Err()
	}
	return nil
}

func (c *fakeConn) take() []hostCall {
	c.mu.Lock()
	defer c.mu.Unlock()
	r := c.calls
	c.calls = nil
	return r
}

// ---------------------------------------------------------------- component

type poolComp struct {
	base     int64
	st       store.Store
	rec      *recStore
	p        *pool.VipnodePool
	pay      *payment.PaymentService
	mgrNow   int64
	deposits map[string]*big.Int
	paid     map[string]*big.Int
	settleOK bool
	readFault bool // every deposit lookup fails while set (one op)
	lookupErr error // as readFault, with this error
	settleFailOnce bool // the settlement fails at its first attempt within an operation and would succeed afterwards
	settleCalls    int
	duringNode string
	duringAmt  *big.Int
	conns    map[string]*fakeConn
	outcomes map[string]string // host name -> ack|err|hang for the current peer request
	driver   string
	poisoned bool
	times    []int64
}

func (c *poolComp) Close() {
	if c.st != nil {
		c.st.Close()
		c.st = nil
	}
}

func (c *poolComp) Reset(opts map[string]string, base int64) {
	c.Close()
	c.base = base
	c.driver = opts["driver"]
	c.p = nil
	c.poisoned = false
	c.times = nil
}

func (c *poolComp) outcomeFor(conn *fakeConn) string {
	// outcomes are scripted per connection (a whitelist call carries the requester's id, not the host's)
	if o, ok := c.outcomes[conn.name]; ok {
		return o
	}
	return "ack"
}

func (c *poolComp) conn(name string) *fakeConn {
	if fc, ok := c.conns[name]; ok {
		return fc
	}
	fc := &fakeConn{name: name, comp: c}
	c.conns[name] = fc
	return fc
}

func parseOpt(s string) *big.Int {
	if s == "off" {
		return nil
	}
	return mustBig(s)
}

func (c *poolComp) setup(t []string) string {
	get := func(k string) string { v, _ := FindStr(k, t); return v }
	c.st = openStore(c.driver)
	c.rec = &recStore{Store: c.st, failAt: map[int]bool{}}
	c.deposits = map[string]*big.Int{}
	c.paid = map[string]*big.Int{}
	c.conns = map[string]*fakeConn{}
	c.outcomes = map[string]string{}
	getter := func(account store.Account) (*big.Int, error) {
		if c.readFault {
			// the on-chain lookup fails (the wallet owner has started a withdrawal: deposit timelocked)
			return nil, payment.ErrDepositTimelocked
		}
		if c.lookupErr != nil {
			// ... or for any other reason (the contract RPC is unreachable)
			return nil, c.lookupErr
		}
		if d, ok := c.deposits[string(account)]; ok {
			return new(big.Int).Set(d), nil
		}
		return new(big.Int), nil
	}
	proxy := payment.VerifContractPayment(&faultBalanceStore{AccountStore: c.rec, rec: c.rec}, getter)
	var mgr balance.Manager
	if get("nobalance") != "1" {
		interval, _ := strconv.ParseInt(get("interval"), 10, 64)
		m := balance.PayPerInterval(proxy, time.Duration(interval), mustBig(get("price")))
		m.MinBalance = parseOpt(get("min"))
		m.VerifSetNow(func() time.Time { return time.Unix(0, c.mgrNow) })
		mgr = m
	}
	c.p = pool.New(c.rec, mgr)
	c.p.MaxRequestHosts, _ = strconv.Atoi(get("max"))
	c.pay = &payment.PaymentService{NonceStore: c.rec, AccountStore: c.rec, BalanceStore: proxy}
	c.pay.WithdrawMin = parseOpt(get("wmin"))
	if fee := parseOpt(get("wfee")); fee != nil {
		c.pay.WithdrawFee = func(a *big.Int) *big.Int { return a.Sub(a, fee) }
	}
	if get("settle") == "1" {
		c.pay.Settle = func(account store.Account, amount *big.Int, newBalance *big.Int) (string, error) {
			// another request's credit lands while this settlement is in flight
			if c.duringNode != "" {
				c.st.AddNodeBalance(store.NodeID(c.duringNode), c.duringAmt)
			}
			c.settleCalls++
			if !c.settleOK && !(c.settleFailOnce && c.settleCalls > 1) {
				return "", errors.New("settlement failed")
			}
			c.deposits[string(account)] = new(big.Int).Set(newBalance)
			p := c.paid[string(account)]
			if p == nil {
				p = new(big.Int)
			}
			c.paid[string(account)] = p.Add(p, amount)
			return "tx", nil
		}
	}
	return "ok"
}

func poolErrClass(err error) string {
	switch e := err.(type) {
	case pool.VerifyFailedError:
		return "err VerifyFailed"
	case balance.LowBalanceError:
		return fmt.Sprintf("err LowBalance %s %s", e.CurrentBalance, e.MinBalance)
	case pool.NoHostNodesError:
		return fmt.Sprintf("err NoHosts %d", e.NumTried)
	case pool.RemoteHostErrors:
		return fmt.Sprintf("err RemoteErrors %d", len(e.Errors))
	case payment.WithdrawBalanceMinimumError:
		return fmt.Sprintf("err WithdrawMin %s %s", e.Balance, e.Minimum)
	case jsonrpc2.ContextMissingValueError:
		return "err NoService"
	}
	if err == payment.ErrWithdrawDisabled {
		return "err WithdrawDisabled"
	}
	msg := err.Error()
	switch {
	case strings.Contains(msg, "settlement failed"):
		return "err SettleFailed"
	case err == payment.ErrDepositTimelocked || err == errLookupRPC:
		return "err DepositLookup"
	case strings.Contains(msg, "does not match nodeURI"):
		return "err UriIdMismatch"
	case strings.Contains(msg, "NodeURI is missing host"):
		return "err UriMissingHost"
	case strings.HasPrefix(msg, "parse "):
		return "err UriParse"
	case strings.Contains(msg, "Invalid interval settings"):
		return "err InvalidSettings"
	}
	return storeErrClass(err)
}

// alteredArgs, when set by the caller, is what sig kind "alteredparam" signs instead of the real arguments
// (one parameter field changed after signing).
var alteredArgs []interface{}

// sign produces the signature token's real signature string.
func signKind(kind string, who *identity, method string, nonce int64, args ...interface{}) string {
	defer func() { alteredArgs = nil }()
	good := func(k *identity) string {
		s, err := request.Sign(k.key, method, who.id, nonce, args...)
		if err != nil {
			fatal(err)
		}
		return s
	}
	isWallet := len(who.id) <= 42
	enc := func(b []byte) string {
		if isWallet {
			return hex.EncodeToString(b)
		}
		return base64.StdEncoding.EncodeToString(b)
	}
	dec := func(s string) []byte {
		var b []byte
		if isWallet {
			b, _ = hex.DecodeString(s)
		} else {
			b, _ = base64.StdEncoding.DecodeString(s)
		}
		return b
	}
	switch kind {
	case "good", "oldfmt", "respell0x", "respellUP", "respell1":
		// (respell*: a genuine signature over the canonical spelling; the op sends another spelling of the id)
		return good(who)
	case "bad":
		b := dec(good(who))
		b[7] ^= 0x40
		return enc(b)
	case "otherkey":
		s, _ := request.Sign(strangerKey, method, who.id, nonce, args...)
		return s
	case "empty":
		return ""
	case "short":
		return enc(dec(good(who))[:10])
	case "garbage":
		return "!!not-a-signature!!"
	case "wrongmethod":
		s, _ := request.Sign(who.key, method+"x", who.id, nonce, args...)
		return s
	case "wrongnonce":
		s, _ := request.Sign(who.key, method, who.id, nonce+1, args...)
		return s
	case "alteredparam":
		if alteredArgs == nil {
			s, _ := request.Sign(who.key, method, who.id, nonce+7, args...)
			return s
		}
		s, _ := request.Sign(who.key, method, who.id, nonce, alteredArgs...)
		return s
	case "otherident":
		// a genuine signature of another registered identity over the same request
		other := nodeIdents[0]
		if other == who {
			other = nodeIdents[1]
		}
		s, _ := request.Sign(other.key, method, other.id, nonce, args...)
		return s
	}
	fatal("unknown sig kind " + kind)
	return ""
}

// find0x: the signature kind `good0x` asks for a genuine signature whose text happens to begin with "0x" (one in
// 4096 base64 signatures does): the nonce is moved forward until the node's own signature has that form.
// respell: another spelling of the same node id (hex is case-insensitive and may carry a 0x prefix for lenient
// parsers): a request that names the identity this way, with a signature made over the canonical spelling - a captured
// request replayed under a "different" identity - is signed for another identity string and must be refused.
func respell(id, kind string) string {
	switch kind {
	case "respell0x":
		return "0x" + id
	case "respellUP":
		return strings.ToUpper(id)
	case "respell1":
		for i, ch := range id {
			if ch >= 'a' && ch <= 'f' {
				return id[:i] + strings.ToUpper(string(ch)) + id[i+1:]
			}
		}
	}
	return id
}

// sentID: the identity string put on the wire for this op
func sentID(who *identity, kind string) string {
	if strings.HasPrefix(kind, "respell") {
		return respell(who.id, kind)
	}
	return who.id
}

var searchNs int64

func find0x(who *identity, method string, nonce int64, args ...interface{}) int64 {
	start := time.Now()
	defer func() { searchNs += int64(time.Since(start)) }()
	for k := int64(0); k < 60000; k++ {
		s, err := request.Sign(who.key, method, who.id, nonce+k, args...)
		if err == nil && strings.HasPrefix(s, "0x") {
			return nonce + k
		}
	}
	return nonce
}

func (c *poolComp) sensitive(t0, t1, window int64) bool {
	for _, ts := range c.times {
		d := satAdd(ts, window)
		if d >= t0-int64(time.Millisecond) && d <= t1+int64(time.Millisecond) {
			return true
		}
	}
	return false
}

func (c *poolComp) Exec(t []string) (extra []string, out string, eff bool) {
	if c.poisoned {
		return []string{"#skipped"}, "noop", false
	}
	if t[0] == "cfg" {
		return nil, c.setup(t), false
	}
	if c.p == nil {
		return nil, "bad-op", false
	}
	t0 := time.Now().UnixNano()
	extra, out, eff = c.exec(t)
	t1 := time.Now().UnixNano()
	t0 += searchNs // time spent looking for a signature of a particular form, before the pool was called
	searchNs = 0
	if t[0] != "sleep" && (c.sensitive(t0, t1, int64(store.ExpireInterval)) || c.sensitive(t0, t1, int64(store.ExpireNonce))) {
		c.poisoned = true
		return []string{"#skipped"}, "noop", false
	}
	return extra, canon(out), eff
}

func (c *poolComp) lastSeen(id string) (int64, bool) {
	n, err := c.st.GetNode(store.NodeID(id))
	if err != nil {
		return 0, false
	}
	return n.LastSeen.UnixNano(), true
}

// observedNow: the clock reading the operation stored as LastSeen, if it got that far
func (c *poolComp) observedNow(id string, before int64, had bool, t0 int64) int64 {
	after, ok := c.lastSeen(id)
	if ok && (!had || after != before) {
		c.times = append(c.times, after)
		return after
	}
	return t0
}

func nodeKindOf(s string) ethnode.NodeKind { return ethnode.ParseNodeKind(s) }

func renderOverride(t []string, id string) string {
	uset, _ := FindStr("uset", t)
	if uset != "1" {
		return ""
	}
	if bad, _ := FindStr("ubad", t); bad == "1" {
		return "enode://%zz@:bad"
	}
	user, _ := FindStr("uuser", t)
	host, _ := FindStr("uhost", t)
	port, _ := FindStr("uport", t)
	s := "enode://"
	if user != "" {
		s += realID(user) + "@"
	}
	if strings.Contains(host, ":") {
		s += "[" + host + "]"
	} else {
		s += host
	}
	if port != "" {
		s += ":" + port
	}
	return s
}

func (c *poolComp) hostCalls(method string) []string {
	var r []string
	for _, fc := range c.conns {
		for _, call := range fc.take() {
			if call.method == method {
				// which host does this connection currently stand for (harness view)?
				r = append(r, fc.name)
			}
		}
	}
	sort.Strings(r)
	return r
}

// callsByHost: the connections that received `method`, sorted, with multiplicity.
func (c *poolComp) callsByHost(method string) string {
	return JoinC(c.hostCalls(method))
}

func (c *poolComp) exec(t []string) (extra []string, out string, eff bool) {
	get := func(k string) string { v, _ := FindStr(k, t); return v }
	ctxBG := context.Background()
	switch t[0] {
	case "deposit":
		c.deposits[realID(Untok(t[1]))] = mustBig(t[2])
		return nil, "ok", true
	case "setnode":
		ls, _ := parseT(t[2])
		blk, _ := strconv.ParseUint(t[7], 10, 64)
		c.times = append(c.times, ls)
		err := c.st.SetNode(store.Node{ID: store.NodeID(realID(Untok(t[1]))), LastSeen: time.Unix(0, ls), IsHost: t[3] == "1", Kind: Untok(t[4]), URI: Untok(t[5]), Payout: store.Account(Untok(t[6])), BlockNumber: blk})
		if err != nil {
			return nil, storeErrClass(err), false
		}
		return nil, "ok", true
	case "addnb":
		if err := c.st.AddNodeBalance(store.NodeID(realID(Untok(t[1]))), mustBig(t[2])); err != nil {
			return nil, storeErrClass(err), false
		}
		return nil, "ok", true
	case "connect":
		connName, who := Untok(t[1]), identByName[t[2]]
		nonce, _ := parseT(t[3])
		c.times = append(c.times, nonce)
		req := pool.ConnectRequest{
			NodeInfo: ethnode.UserAgent{Kind: nodeKindOf(Untok(t[6])), IsFullNode: t[5] == "1"},
			Payout:   realID(get("payout")),
			NodeURI:  renderOverride(t, who.id),
		}
		altReq := req
		altReq.Payout = req.Payout + "x"
		alteredArgs = []interface{}{altReq}
		sig := signKind(t[4], who, "vipnode_connect", nonce, req)
		ctx := ctxBG
		if connName != "" {
			fc := c.conn(connName)
			if src := get("src"); src != "" {
				fc.addr = net.JoinHostPort(src, "51234")
			} else {
				fc.addr = ""
			}
			ctx = jsonrpc2.VerifWithService(ctx, fc)
		}
		before, had := c.lastSeen(who.id)
		t0 := time.Now().UnixNano()
		_, err := c.p.Connect(ctx, sig, sentID(who, t[4]), nonce, req)
		now := c.observedNow(who.id, before, had, t0)
		x := []string{"now=" + TTok(now)}
		if err != nil {
			return x, poolErrClass(err), false
		}
		return x, "ok", true
	case "update":
		who := identByName[t[1]]
		nonce, _ := parseT(t[2])
		c.times = append(c.times, nonce)
		blk, _ := strconv.ParseUint(get("block"), 10, 64)
		peers, _ := FindArg("peers", t)
		req := pool.UpdateRequest{BlockNumber: blk, PeerInfo: []ethnode.PeerInfo{}}
		for i, pn := range peers {
			id := realID(pn)
			pi := ethnode.PeerInfo{ID: id}
			if i%2 == 1 && len(id) == 128 {
				// the other documented way a peer names itself: by enode URI
				// (whatever follows the key - any address form a node's RPC reports, parsable as a URL or not - plays
				// no role in who the peer is)
				addr := []string{"10.0.0.9:30303", "[::1]:30303", "[fe80::1%eth0]:30303", "10.0.0.9:30303?discport=30301", "[::]:30303", "my host:30303", "%zz:1"}[(i/2+len(peers)+int(nonce%7))%7]
				pi = ethnode.PeerInfo{ID: "hash-of-" + pn, Enode: "enode://" + id + "@" + addr}
			}
			req.PeerInfo = append(req.PeerInfo, pi)
		}
		if t[3] == "good0x" {
			nonce = find0x(who, "vipnode_update", nonce, req)
			t[2], t[3] = TTok(nonce), "good"
		}
		var sig string
		if t[3] == "oldfmt" {
			sig = signKind("good", who, "vipnode_update", nonce, struct {
				Peers       []string `json:"peers"`
				BlockNumber uint64   `json:"block_number"`
			}{req.Peers, req.BlockNumber})
		} else {
			altReq := req
			altReq.BlockNumber = req.BlockNumber + 1
			alteredArgs = []interface{}{altReq}
			sig = signKind(t[3], who, "vipnode_update", nonce, req)
		}
		c.mgrNow, _ = parseT(get("mnow"))
		c.rec.mu.Lock()
		c.rec.creditIdx = 0
		c.rec.failAt = map[int]bool{}
		if fl, ok := FindArg("fail", t); ok {
			for _, f := range fl {
				k, _ := strconv.Atoi(f)
				c.rec.failAt[k] = true
			}
		}
		c.rec.failIDs = map[string]bool{}
		if fl, ok := FindArg("failpeer", t); ok {
			for _, f := range fl {
				c.rec.failIDs[realID(f)] = true
			}
		}
		c.rec.mu.Unlock()
		for k := range c.outcomes {
			delete(c.outcomes, k)
		}
		before, had := c.lastSeen(who.id)
		t0 := time.Now().UnixNano()
		c.readFault = get("readfault") == "1"
		resp, err := c.p.Update(ctxBG, sig, sentID(who, t[3]), nonce, req)
		c.readFault = false
		now := c.observedNow(who.id, before, had, t0)
		c.rec.mu.Lock()
		c.rec.failAt = map[int]bool{}
		c.rec.failIDs = map[string]bool{}
		c.rec.mu.Unlock()
		x := []string{"now=" + TTok(now)}
		disc := c.callsByHost("vipnode_disconnect")
		if err != nil {
			o := poolErrClass(err)
			if isLowBalance(err) {
				o += " disconnect=" + disc
			} else if disc != "" {
				o += " unexpected-disconnect=" + disc
			}
			return x, o, isLowBalance(err)
		}
		o := fmt.Sprintf("ok invalid=%s active=%s bal=%s", JoinC(canonList(resp.InvalidPeers)), JoinC(canonList(resp.ActivePeers)), canon(balStr(*resp.Balance)))
		if disc != "" {
			o += " unexpected-disconnect=" + disc
		}
		return x, o, true
	case "peer":
		who := identByName[t[1]]
		nonce, _ := parseT(t[2])
		c.times = append(c.times, nonce)
		num, _ := strconv.Atoi(get("num"))
		req := pool.PeerRequest{Num: num, Kind: get("kind")}
		if t[3] == "good0x" {
			nonce = find0x(who, "vipnode_peer", nonce, req)
			t[2], t[3] = TTok(nonce), "good"
		}
		alteredArgs = []interface{}{pool.PeerRequest{Num: num + 1, Kind: req.Kind}}
		sig := signKind(t[3], who, "vipnode_peer", nonce, req)
		for k := range c.outcomes {
			delete(c.outcomes, k)
		}
		hang := false
		if ol, ok := FindArg("outcomes", t); ok {
			for _, o := range ol {
				kv := strings.SplitN(o, ":", 2)
				if len(kv) == 2 {
					c.outcomes[kv[0]] = kv[1]
					hang = hang || kv[1] == "hang"
				}
			}
		}
		ctx := ctxBG
		if hang {
			var cancel context.CancelFunc
			ctx, cancel = context.WithTimeout(ctxBG, 150*time.Millisecond)
			defer cancel()
		}
		c.rec.mu.Lock()
		c.rec.activeSeen, c.rec.lastActive = false, nil
		c.rec.mu.Unlock()
		t0 := time.Now().UnixNano()
		resp, err := c.p.Peer(ctx, sig, sentID(who, t[3]), nonce, req)
		c.rec.mu.Lock()
		choice := canonSlice(c.rec.lastActive)
		c.rec.mu.Unlock()
		x := []string{"now=" + TTok(t0), "choice=" + JoinC(choice)}
		wl := c.callsByHost("vipnode_whitelist")
		if err != nil {
			o := poolErrClass(err)
			if o != "err VerifyFailed" {
				o += " wl=" + wl
			} else if wl != "" {
				o += " unexpected-wl=" + wl
			}
			return x, o, false
		}
		return x, fmt.Sprintf("ok hosts=%s wl=%s", JoinC(canonList(nodeIDs(resp.Peers))), wl), true
	case "host":
		connName, who := Untok(t[1]), identByName[t[2]]
		nonce, _ := parseT(t[3])
		c.times = append(c.times, nonce)
		req := pool.HostRequest{Kind: Untok(t[5]), Payout: realID(get("payout")), NodeURI: renderOverride(t, who.id)}
		alteredArgs = []interface{}{pool.HostRequest{Kind: req.Kind, Payout: req.Payout, NodeURI: req.NodeURI + "?x=1"}}
		sig := signKind(t[4], who, "vipnode_host", nonce, req)
		ctx := ctxBG
		if connName != "" {
			fc := c.conn(connName)
			if src := get("src"); src != "" {
				fc.addr = net.JoinHostPort(src, "51234")
			} else {
				fc.addr = ""
			}
			ctx = jsonrpc2.VerifWithService(ctx, fc)
		}
		before, had := c.lastSeen(who.id)
		t0 := time.Now().UnixNano()
		_, err := c.p.Host(ctx, sig, sentID(who, t[4]), nonce, req)
		x := []string{"now=" + TTok(c.observedNow(who.id, before, had, t0))}
		if err != nil {
			return x, poolErrClass(err), false
		}
		return x, "ok", true
	case "client":
		connName, who := Untok(t[1]), identByName[t[2]]
		nonce, _ := parseT(t[3])
		c.times = append(c.times, nonce)
		num, _ := strconv.Atoi(get("num"))
		req := pool.ClientRequest{Kind: Untok(t[5]), NumHosts: num}
		alteredArgs = []interface{}{pool.ClientRequest{Kind: req.Kind, NumHosts: num + 1}}
		sig := signKind(t[4], who, "vipnode_client", nonce, req)
		ctx := ctxBG
		if connName != "" {
			ctx = jsonrpc2.VerifWithService(ctx, c.conn(connName))
		}
		for k := range c.outcomes {
			delete(c.outcomes, k)
		}
		if ol, ok := FindArg("outcomes", t); ok {
			for _, o := range ol {
				kv := strings.SplitN(o, ":", 2)
				if len(kv) == 2 && kv[1] != "hang" {
					c.outcomes[kv[0]] = kv[1]
				}
			}
		}
		c.rec.mu.Lock()
		c.rec.activeSeen, c.rec.lastActive = false, nil
		c.rec.mu.Unlock()
		before, had := c.lastSeen(who.id)
		t0 := time.Now().UnixNano()
		resp, err := c.p.Client(ctx, sig, sentID(who, t[4]), nonce, req)
		now := c.observedNow(who.id, before, had, t0)
		c.rec.mu.Lock()
		choice := canonSlice(c.rec.lastActive)
		c.rec.mu.Unlock()
		x := []string{"now=" + TTok(now), "choice=" + JoinC(choice)}
		wl := c.callsByHost("vipnode_whitelist")
		if err != nil {
			o := poolErrClass(err)
			if strings.HasPrefix(o, "err NoHosts") || strings.HasPrefix(o, "err RemoteErrors") {
				o += " wl=" + wl
			} else if wl != "" {
				o += " unexpected-wl=" + wl
			}
			return x, o, false
		}
		return x, fmt.Sprintf("ok hosts=%s wl=%s", JoinC(canonList(nodeIDs(resp.Hosts))), wl), true
	case "close":
		fc := c.conn(Untok(t[1]))
		c.p.CloseRemote(fc)
		return nil, "ok", true
	case "addnode":
		who := identByName[t[1]]
		nonce, _ := parseT(t[2])
		c.times = append(c.times, nonce)
		nodeID := realID(Untok(t[4]))
		alteredArgs = []interface{}{nodeID + "0"}
		sig := signKind(t[3], who, "pool_addNode", nonce, nodeID)
		t0 := time.Now().UnixNano()
		err := c.pay.AddNode(ctxBG, sig, sentID(who, t[3]), nonce, nodeID)
		x := []string{"now=" + TTok(t0)}
		if err != nil {
			return x, poolErrClass(err), false
		}
		return x, "ok", true
	case "withdraw":
		who := identByName[t[1]]
		nonce, _ := parseT(t[2])
		c.times = append(c.times, nonce)
		sig := signKind(t[3], who, "pool_withdraw", nonce)
		c.settleOK = get("settle") == "ok"
		c.settleFailOnce, c.settleCalls = get("settle") == "failonce", 0
		c.duringNode, c.duringAmt = "", nil
		if d := get("during"); d != "" {
			f := strings.SplitN(d, ":", 2)
			c.duringNode, c.duringAmt = realID(f[0]), mustBig(f[1])
		}
		defer func() { c.duringNode = "" }()
		before := new(big.Int)
		if p := c.paid[who.id]; p != nil {
			before.Set(p)
		}
		t0 := time.Now().UnixNano()
		switch get("lookupfault") {
		case "timelock":
			c.readFault = true
		case "rpc":
			c.lookupErr = errLookupRPC
		}
		err := c.pay.Withdraw(ctxBG, sig, sentID(who, t[3]), nonce)
		c.readFault, c.lookupErr = false, nil
		x := []string{"now=" + TTok(t0)}
		if err != nil {
			return x, poolErrClass(err), false
		}
		after := new(big.Int)
		if p := c.paid[who.id]; p != nil {
			after.Set(p)
		}
		return x, "ok paid=" + after.Sub(after, before).String(), true
	case "sleep":
		ms, _ := strconv.Atoi(t[1])
		time.Sleep(time.Duration(ms) * time.Millisecond)
		return nil, "ok", false
	case "dump":
		t0 := time.Now().UnixNano()
		return []string{"now=" + TTok(t0)}, c.dump(), false
	}
	return nil, "bad-op", false
}

func isLowBalance(err error) bool {
	_, ok := err.(balance.LowBalanceError)
	return ok
}

func canonSlice(l []string) []string {
	r := make([]string, len(l))
	for i, s := range l {
		r[i] = canon(s)
	}
	return r
}

func (c *poolComp) dump() string {
	var nodes, peers, nb, ab, paid, dep []string
	for _, id := range append(append([]*identity{}, nodeIdents...), upNodeIdents...) {
		n, err := c.st.GetNode(store.NodeID(id.id))
		if err != nil {
			continue
		}
		nodes = append(nodes, fmt.Sprintf("%s:%s:%s:%s:%s:%s:%d", id.name, TTok(n.LastSeen.UnixNano()), Tok(n.Kind), B(n.IsHost), Tok(n.URI), Tok(string(n.Payout)), n.BlockNumber))
		ps, err := c.st.NodePeers(store.NodeID(id.id))
		if err == nil {
			l := canonList(nodeIDs(ps))
			peers = append(peers, id.name+">"+strings.Join(l, "+"))
		}
		b, err := c.st.GetNodeBalance(store.NodeID(id.id))
		if err == nil {
			nb = append(nb, fmt.Sprintf("%s=%s/%s", id.name, Tok(string(b.Account)), b.Credit.String()))
		}
	}
	for _, w := range append(append([]*identity{}, walletIdents...), lcWalletIdents...) {
		b, _ := c.st.GetAccountBalance(store.Account(w.id))
		ab = append(ab, fmt.Sprintf("%s=%s/%s", w.name, Tok(string(b.Account)), b.Credit.String()))
		p := c.paid[w.id]
		if p == nil {
			p = new(big.Int)
		}
		paid = append(paid, w.name+"="+p.String())
		d := c.deposits[w.id]
		if d == nil {
			d = new(big.Int)
		}
		dep = append(dep, w.name+"="+d.String())
	}
	st, err := c.st.Stats()
	if err != nil {
		return "err Other:stats"
	}
	return fmt.Sprintf("ok nodes=%s peers=%s nb=%s ab=%s stats=%d/%d/%d/%d/%d/%s/%d remotes=%d paid=%s dep=%s",
		strings.Join(nodes, ","), strings.Join(peers, ","), strings.Join(nb, ","), strings.Join(ab, ","),
		st.NumActiveHosts, st.NumTotalHosts, st.NumActiveClients, st.NumTotalClients, st.LatestBlockNumber, st.TotalCredit.String(), st.NumTrialBalances,
		c.p.NumRemotes(), strings.Join(paid, ","), strings.Join(dep, ","))
}

// ---------------------------------------------------------------- generator

var poolPrices = []string{"1000", "1", "60000000000", "18446744073709551629", "1000000000000000000000000000000", "7"}

func (c *poolComp) Gen(r *rand.Rand, idx int, emit func(string)) {
	genPoolMixed(r, idx, emit)
}

type poolGenState struct {
	r       *rand.Rand
	emit    func(string)
	nonce   int64 // case-relative, strictly increasing by default
	hosts   []string
	clients []string
	conns   int
}

func (g *poolGenState) nextNonce() string {
	g.nonce += int64(1+g.r.Intn(5)) * int64(time.Millisecond)
	return TTok(g.nonce)
}

func (g *poolGenState) sig() string {
	if g.r.Intn(12) == 0 {
		return pick(g.r, []string{"bad", "otherkey", "empty", "garbage", "wrongmethod", "wrongnonce", "short", "alteredparam", "otherident"})
	}
	return "good"
}

func genPoolMixed(r *rand.Rand, idx int, emit func(string)) {
	g := &poolGenState{r: r, emit: emit}
	min := "off"
	switch r.Intn(4) {
	case 0:
		min = "0"
	case 1:
		min = pick(r, []string{"1000", "-500", "100000", "1"})
	}
	price := pick(r, poolPrices)
	emit(fmt.Sprintf("cfg price=%s interval=%d min=%s max=%d nobalance=%s wmin=%s wfee=%s settle=%s", price,
		[]int64{60000000000, 1000000000, 1}[r.Intn(3)], min, []int{0, 0, 1, 2, 5}[r.Intn(5)], B01(r.Intn(10) == 0),
		pick(r, []string{"off", "0", "500", "5000"}), pick(r, []string{"off", "0", "100", "1000"}), B01(r.Intn(6) != 0)))
	nodes := []string{"n0", "n1", "n2", "n3", "n4", "n5", "n6", "n7"}
	kinds := []string{"geth", "parity", "unknown"}
	n := 8 + r.Intn(30)
	connectOp := func(name string, full bool) {
		conn := "~"
		if full || r.Intn(3) == 0 {
			conn = fmt.Sprintf("c%d", r.Intn(5))
		}
		uset, uhost, uport, uuser, src := 0, "", "", "", ""
		if full {
			switch r.Intn(6) {
			case 0: // nothing supplied: refused (no host can be determined) unless the connection has a source address
				src = pick(r, []string{"", "10.1.2.3", "2001:db8::7"})
			case 1:
				uset, uhost, uuser = 1, "1.2.3."+strconv.Itoa(r.Intn(4)), name
			case 2:
				uset, uhost, uport, uuser = 1, "host"+strconv.Itoa(r.Intn(3))+".example.org", "30304", name
			case 3:
				uset, uhost, uuser = 1, pick(r, []string{"2001:db8::1", "::", ""}), pick(r, []string{name, ""})
				src = pick(r, []string{"", "10.9.9.9"})
			case 4:
				uset, uhost, uuser = 1, "1.2.3.4", pick(r, nodes) // possibly another node's id
			default:
				uset, uhost, uport, uuser = 1, "5.6.7."+strconv.Itoa(r.Intn(4)), pick(r, []string{"", "30303", "1"}), name
			}
		}
		emit(fmt.Sprintf("connect %s %s %s %s %s %s uset=%d uhost=%s uport=%s uuser=%s ubad=%s src=%s payout=%s", conn, name, g.nextNonce(), g.sig(), B01(full),
			pick(r, kinds), uset, Tok(uhost), Tok(uport), Tok(uuser), B01(uset == 1 && r.Intn(25) == 0), Tok(src), Tok(pick(r, []string{"", "w0", "w1"}))))
	}
	// opening: a few hosts and clients
	nh, nc := 1+r.Intn(4), 1+r.Intn(3)
	for i := 0; i < nh; i++ {
		connectOp(nodes[i], true)
	}
	for i := 0; i < nc; i++ {
		connectOp(nodes[7-i], false)
	}
	for i := 0; i < n; i++ {
		switch k := r.Intn(100); {
		case k < 8:
			connectOp(pick(r, nodes), r.Intn(2) == 0)
		case k < 38:
			who := pick(r, nodes)
			np := r.Intn(4)
			ps := make([]string, np)
			for j := range ps {
				ps[j] = pick(r, nodes)
				if r.Intn(12) == 0 {
					ps[j] = "stranger" + strconv.Itoa(r.Intn(2))
				}
			}
			// manager clock: elapsed since the recorded LastSeen is (mnow - lastSeen); lastSeen is "about now" unless back-dated
			el := []int64{0, 1, 1000, 59999999999, 60000000000, 60000000001, 300000000000, 86400000000000, -5000000000}[r.Intn(9)]
			sig := g.sig()
			if sig == "good" && r.Intn(8) == 0 {
				sig = "oldfmt"
			}
			ff := ""
			if len(ps) > 0 && r.Intn(8) == 0 {
				ff = " failpeer=" + JoinC(ps[:1+r.Intn(len(ps))])
			}
			emit(fmt.Sprintf("update %s %s %s block=%d peers=%s mnow=%s%s", who, g.nextNonce(), sig, r.Intn(100), JoinC(ps), TTok(el), ff))
		case k < 50:
			outs := []string{}
			for ci := 0; ci < 5; ci++ {
				h := "c" + strconv.Itoa(ci)
				switch r.Intn(9) {
				case 0:
					outs = append(outs, h+":err")
				case 1:
					if len(outs) == 0 && r.Intn(3) == 0 {
						outs = append(outs, h+":hang")
					}
				}
			}
			emit(fmt.Sprintf("peer %s %s %s num=%d kind=%s outcomes=%s", pick(r, nodes), g.nextNonce(), g.sig(), []int{-3, -1, 0, 1, 1, 2, 3, 8}[r.Intn(8)], Tok(pick(r, []string{"", "", "geth", "parity"})), strings.Join(outs, ",")))
		case k < 54:
			emit(fmt.Sprintf("close c%d", r.Intn(5)))
		case k < 55:
			emit(fmt.Sprintf("client ~ %s %s %s %s num=%d outcomes=", pick(r, nodes), g.nextNonce(), g.sig(), pick(r, []string{"geth", "parity", "~"}), []int{0, 0, -1, 1, 2, 5}[r.Intn(6)]))
		case k < 56:
			hn := pick(r, nodes)
			emit(fmt.Sprintf("host c%d %s %s %s %s uset=1 uhost=7.7.7.%d uport=~ uuser=%s ubad=0 src=~ payout=%s", r.Intn(5), hn, g.nextNonce(), g.sig(), pick(r, []string{"geth", "parity", "~"}), r.Intn(3), hn, Tok(pick(r, []string{"", "w1"}))))
		case k < 62:
			emit(fmt.Sprintf("addnode %s %s %s %s", pick(r, []string{"w0", "w1", "w2"}), g.nextNonce(), g.sig(), pick(r, nodes)))
		case k < 68:
			emit(fmt.Sprintf("withdraw %s %s %s settle=%s", pick(r, []string{"w0", "w1", "w2"}), g.nextNonce(), g.sig(), pick(r, []string{"ok", "ok", "fail"})))
		case k < 72:
			emit(fmt.Sprintf("deposit %s %s", pick(r, []string{"w0", "w1"}), pick(r, []string{"0", "1000", "999", "1001", "100000", "18446744073709551629"})))
		case k < 78:
			// back-date a node through the public store API (stale or fresh relative to the 120 s window, 10 s margins)
			emit(fmt.Sprintf("setnode %s %s %s %s %s %s %d", pick(r, nodes), TTok([]int64{-130, -110, -60, -300, -10}[r.Intn(5)]*sec), B01(r.Intn(2) == 0), pick(r, []string{"geth", "parity", "~"}),
				pick(r, []string{"~", "enode://x@9.9.9.9:30303"}), pick(r, []string{"~", "w0"}), r.Intn(50)))
		case k < 82:
			emit(fmt.Sprintf("addnb %s %s", pick(r, nodes), pick(r, amounts)))
		case k < 86:
			// replayed / stale nonces
			g2 := pick(r, nodes)
			old := TTok(g.nonce - int64(r.Intn(3))*int64(time.Millisecond))
			if r.Intn(3) == 0 {
				old = TTok(-901 * sec)
			}
			emit(fmt.Sprintf("update %s %s good block=1 peers= mnow=%s", g2, old, TTok(60000000000)))
		default:
			emit("dump")
		}
		if r.Intn(3) == 0 {
			emit("dump")
		}
	}
	emit("dump")
}

func B01(b bool) string { return B(b) }
