package main

import (
	"sort"
	"net/http/httptest"
	"context"
	"encoding/json"
	"fmt"
	"io"
	"math/rand"
	"strconv"
	"strings"
	"sync"
	"time"

	"github.com/vipnode/vipnode/v2/jsonrpc2"
)

func init() { components["rpc"] = func() Component { return &rpcComp{} } }

// schedCodec is the connection of the Remote under test: the harness plays the peer and the network, deciding
// which message the read loop sees next and observing everything the Remote writes.
type schedCodec struct {
	in      chan *jsonrpc2.Message
	mu      sync.Mutex
	out     []*jsonrpc2.Message
	entered int // number of times ReadMessage was entered
	onWrite func(*jsonrpc2.Message)
	closed  chan struct{}
}

func (c *schedCodec) ReadMessage() (*jsonrpc2.Message, error) {
	c.mu.Lock()
	c.entered++
	c.mu.Unlock()
	select {
	case m := <-c.in:
		return m, nil
	case <-c.closed:
		return nil, io.EOF
	}
}

func (c *schedCodec) WriteMessage(m *jsonrpc2.Message) error {
	// keep a private copy: the Remote may reuse nothing, but be safe
	b, _ := json.Marshal(m)
	var cp jsonrpc2.Message
	json.Unmarshal(b, &cp)
	c.mu.Lock()
	c.out = append(c.out, &cp)
	hook := c.onWrite
	c.mu.Unlock()
	if hook != nil {
		hook(&cp)
	}
	return nil
}
func (c *schedCodec) Close() error       { return nil }
func (c *schedCodec) RemoteAddr() string { return "peer" }

func (c *schedCodec) enteredCount() int {
	c.mu.Lock()
	defer c.mu.Unlock()
	return c.entered
}

func (c *schedCodec) outLen() int {
	c.mu.Lock()
	defer c.mu.Unlock()
	return len(c.out)
}

type RpcRecv struct {
	comp *rpcComp
}

func (x *RpcRecv) Echo(ctx context.Context, s string) (string, error) {
	x.comp.noteHandler(ctx)
	return s, nil
}

func (x *RpcRecv) Callback(ctx context.Context, s string, arg string) (string, error) {
	x.comp.noteHandler(ctx)
	svc, err := jsonrpc2.CtxService(ctx)
	if err != nil {
		return "", err
	}
	var res string
	if err := svc.Call(ctx, &res, "peerEcho", arg); err != nil {
		return "", err
	}
	return res, nil
}

type liveCall struct {
	cancel context.CancelFunc
	done   chan string
}

type rpcComp struct {
	codec    *schedCodec
	remote   *jsonrpc2.Remote
	calls    map[string]*liveCall
	idToken  map[int]string
	mu       sync.Mutex
	handlers int
	wrongSvc bool
	notFound int
	ended    bool
}

func (c *rpcComp) noteHandler(ctx context.Context) {
	svc, err := jsonrpc2.CtxService(ctx)
	c.mu.Lock()
	c.handlers++
	if err != nil || svc != jsonrpc2.Service(c.remote) {
		c.wrongSvc = true
	}
	c.mu.Unlock()
}

func (c *rpcComp) Close() {
	if c.codec != nil {
		if !c.ended {
			close(c.codec.closed)
		}
		c.ended = false
		for _, lc := range c.calls {
			lc.cancel()
		}
		c.codec = nil
	}
}

func (c *rpcComp) Reset(opts map[string]string, base int64) { c.Close() }

func (c *rpcComp) setup(limit, discard int, nilClient bool) {
	c.Close()
	c.codec = &schedCodec{in: make(chan *jsonrpc2.Message), closed: make(chan struct{})}
	srv := &jsonrpc2.Server{}
	if err := srv.Register("", &RpcRecv{comp: c}); err != nil {
		fatal(err)
	}
	c.remote = &jsonrpc2.Remote{Codec: c.codec, Client: &jsonrpc2.Client{}, Server: srv, PendingLimit: limit, PendingDiscard: discard}
	if nilClient {
		// the way the root package's client.go builds its connection to the pool: no Client given
		c.remote = &jsonrpc2.Remote{Codec: c.codec, Server: srv, PendingLimit: limit, PendingDiscard: discard}
	}
	c.calls = map[string]*liveCall{}
	c.idToken = map[int]string{}
	c.handlers, c.wrongSvc, c.notFound = 0, false, 0
	go c.remote.Serve()
	c.waitIdle(0)
}

// waitIdle waits until the read loop has entered ReadMessage more than `since` times (i.e. it is back waiting).
func (c *rpcComp) waitIdle(since int) bool {
	for i := 0; i < 400; i++ {
		if c.codec.enteredCount() > since {
			return true
		}
		time.Sleep(500 * time.Microsecond)
	}
	return false
}

func (c *rpcComp) waitOut(n int) bool {
	for i := 0; i < 600; i++ {
		if c.codec.outLen() >= n {
			return true
		}
		time.Sleep(500 * time.Microsecond)
	}
	return false
}

// inject hands a message to the read loop and waits until the loop has dealt with it.
func (c *rpcComp) inject(m *jsonrpc2.Message) bool {
	e0 := c.codec.enteredCount()
	select {
	case c.codec.in <- m:
	case <-time.After(300 * time.Millisecond):
		return false
	}
	return c.waitIdle(e0)
}

func replyMessage(id int, kind, payload string) *jsonrpc2.Message {
	rid, _ := json.Marshal(id)
	m := &jsonrpc2.Message{ID: rid, Version: "2.0"}
	switch kind {
	case "result":
		b, _ := json.Marshal(payload)
		m.Response = &jsonrpc2.Response{Result: b}
	case "error":
		code, _ := strconv.Atoi(payload)
		m.Response = &jsonrpc2.Response{Error: &jsonrpc2.ErrResponse{Code: code, Message: "scripted"}}
	}
	return m
}

func callOutcome(res string, err error) string {
	if err == nil {
		return "returned " + Tok(res)
	}
	if err == context.Canceled || err == context.DeadlineExceeded {
		return "err ctx"
	}
	if err == io.EOF {
		return "err closed"
	}
	if e, ok := err.(interface{ ErrorCode() int }); ok {
		return fmt.Sprintf("err code %d", e.ErrorCode())
	}
	if strings.Contains(err.Error(), "neither result nor error") {
		return "err empty-reply"
	}
	return "err other:" + strings.Replace(err.Error(), " ", "_", -1)
}

func (c *rpcComp) renderOut(m *jsonrpc2.Message) string {
	var id int
	json.Unmarshal(m.ID, &id)
	if m.Request != nil {
		var params []interface{}
		json.Unmarshal(m.Request.Params, &params)
		arg := ""
		if len(params) > 0 {
			arg = fmt.Sprint(params[0])
		}
		return fmt.Sprintf("req:%d:%s:%s", id, m.Request.Method, Tok(arg))
	}
	if m.Response != nil && m.Response.Error != nil {
		return fmt.Sprintf("err:%d:%d", id, m.Response.Error.Code)
	}
	var s string
	if m.Response != nil {
		json.Unmarshal(m.Response.Result, &s)
	}
	return fmt.Sprintf("res:%d:%s", id, Tok(s))
}

func (c *rpcComp) Exec(t []string) (extra []string, out string, eff bool) {
	get := func(k string) string { v, _ := FindStr(k, t); return v }
	if t[0] == "cfg" {
		l, _ := strconv.Atoi(get("limit"))
		d, _ := strconv.Atoi(get("discard"))
		c.setup(l, d, get("client") == "nil")
		return nil, "ok", false
	}
	if t[0] == "localrelay" {
		return nil, localRelay(get("outer")), true
	}
	if t[0] == "storm" {
		n, _ := strconv.Atoi(get("callers"))
		l, _ := strconv.Atoi(get("limit"))
		d, _ := strconv.Atoi(get("discard"))
		method := "echo"
		if get("relay") == "1" {
			method = "relay"
		}
		depth, _ := strconv.Atoi(get("descend"))
		if tr := get("transport"); tr == "local" || tr == "http" {
			return nil, stormOver(tr, n, method), true
		}
		return nil, rpcStorm(n, l, d, method, depth), true
	}
	if c.codec == nil {
		return nil, "bad-op", false
	}
	switch t[0] {
	case "call":
		token := t[1]
		ctx, cancel := context.WithCancel(context.Background())
		lc := &liveCall{cancel: cancel, done: make(chan string, 1)}
		c.calls[token] = lc
		n0 := c.codec.outLen()
		early, hasEarly := FindStr("early", t)
		if hasEarly {
			c.codec.mu.Lock()
			c.codec.onWrite = func(m *jsonrpc2.Message) {
				if m.Request != nil && m.Request.Method == "echo" {
					var id int
					json.Unmarshal(m.ID, &id)
					c.codec.mu.Lock()
					c.codec.onWrite = nil
					c.codec.mu.Unlock()
					// the reply reaches the read loop before the caller has started to wait
					c.inject(replyMessage(id, "result", early))
					if _, both := FindStr("cancelearly", t); both {
						// ... and the caller's context ends at the same moment: the call may return either
						cancel()
					}
				}
			}
			c.codec.mu.Unlock()
		}
		go func() {
			var res string
			err := c.remote.Call(ctx, &res, "echo", token)
			lc.done <- callOutcome(res, err)
		}()
		if !c.waitOut(n0 + 1) {
			return nil, "err no-request-written", false
		}
		c.codec.mu.Lock()
		var id int
		for _, m := range c.codec.out[n0:] {
			if m.Request != nil && m.Request.Method == "echo" {
				json.Unmarshal(m.ID, &id)
			}
		}
		c.codec.mu.Unlock()
		c.idToken[id] = token
		if hasEarly {
			// the call completes on its own
			select {
			case o := <-lc.done:
				lc.done <- o
			case <-time.After(400 * time.Millisecond):
			}
		}
		return nil, fmt.Sprintf("ok id=%d", id), true
	case "reply":
		id, _ := strconv.Atoi(t[1])
		payload := ""
		if len(t) > 3 {
			payload = Untok(t[3])
		}
		nOut := c.codec.outLen()
		if !c.inject(replyMessage(id, t[2], payload)) {
			return nil, "wedged", false
		}
		// if a plain call was waiting on this id, let it finish; if a handler was, let it answer its request
		if token, ok := c.idToken[id]; ok {
			if lc, ok := c.calls[token]; ok {
				select {
				case o := <-lc.done:
					lc.done <- o
				case <-time.After(300 * time.Millisecond):
				}
			}
		} else if id > 0 {
			// possibly a handler's call-back: its response follows
			c.waitOutBrief(nOut + 1)
		}
		return nil, "ok", true
	case "await":
		lc, ok := c.calls[t[1]]
		if !ok {
			return nil, "pending", false
		}
		select {
		case o := <-lc.done:
			delete(c.calls, t[1])
			if want, racy := FindStr("race", t); racy {
				// reply and cancellation were both there when the caller looked: its own reply or the context's
				// error are both right, anything else is not
				if o == "err ctx" || o == "returned "+Tok(want) {
					return nil, "settled", false
				}
				return nil, "wrong " + o, false
			}
			return nil, o, false
		case <-time.After(150 * time.Millisecond):
			return nil, "pending", false
		}
	case "cancel":
		lc, ok := c.calls[t[1]]
		if ok {
			lc.cancel()
			select {
			case o := <-lc.done:
				lc.done <- o
			case <-time.After(300 * time.Millisecond):
			}
		}
		return nil, "ok", true
	case "request":
		q, _ := strconv.Atoi(t[1])
		rid, _ := json.Marshal(q)
		method, params := "echo", []interface{}{Untok(t[3])}
		cb, hasCb := FindStr("callback", t)
		if t[2] != "known" {
			method = "nosuch"
		} else if hasCb {
			method, params = "callback", []interface{}{Untok(t[3]), cb}
		}
		pb, _ := json.Marshal(params)
		n0 := c.codec.outLen()
		if !c.inject(&jsonrpc2.Message{ID: rid, Version: "2.0", Request: &jsonrpc2.Request{Method: method, Params: pb}}) {
			return nil, "wedged", false
		}
		// the handler runs on its own goroutine: wait for what it writes (its response, or its call-back request)
		if !c.waitOut(n0 + 1) {
			return nil, "err handler-silent", false
		}
		if t[2] != "known" {
			c.notFound++
		}
		c.mu.Lock()
		h, wrong := c.handlers+c.notFound, c.wrongSvc
		c.mu.Unlock()
		o := fmt.Sprintf("ok handled=%d", h)
		if wrong {
			o += " wrong-service-in-context"
		}
		return nil, o, true
	case "endserve":
		// the connection fails: the read loop returns; every call in progress has to return by itself
		if !c.ended {
			c.ended = true
			close(c.codec.closed)
		}
		live := 0
		for _, lc := range c.calls {
			select {
			case o := <-lc.done:
				lc.done <- o
			case <-time.After(2 * time.Second):
				live++
			}
		}
		// handlers blocked in a call-back answer their request once their call has failed
		for i := 0; i < 200 && c.remote.VerifPendingLen() > 0 && i < 40; i++ {
			time.Sleep(500 * time.Microsecond)
		}
		time.Sleep(5 * time.Millisecond)
		return nil, fmt.Sprintf("ok live=%d", live), true
	case "outbox":
		c.codec.mu.Lock()
		var items []string
		for _, m := range c.codec.out {
			items = append(items, c.renderOut(m))
		}
		if len(t) > 1 && t[1] == "sorted" {
			sort.Strings(items)
		}
		c.codec.out = nil
		c.codec.mu.Unlock()
		return nil, "ok " + strings.Join(items, ","), false
	case "pendinglen":
		return nil, fmt.Sprintf("ok %d", c.remote.VerifPendingLen()), false
	}
	return nil, "bad-op", false
}

func (c *rpcComp) waitOutBrief(n int) {
	for i := 0; i < 100; i++ {
		if c.codec.outLen() >= n {
			return
		}
		time.Sleep(500 * time.Microsecond)
	}
}

func (c *rpcComp) Gen(r *rand.Rand, idx int, emit func(string)) {
	limit := []int{0, 0, 3, 5, 8}[r.Intn(5)]
	discard := 1 + r.Intn(3)
	if idx%4 == 2 {
		emit(fmt.Sprintf("cfg limit=%d discard=%d client=nil", limit, discard))
	} else {
		emit(fmt.Sprintf("cfg limit=%d discard=%d", limit, discard))
	}
	// the generator plays an honest peer: it answers only ids that were issued, each at most once
	nextID := 0
	var liveIDs []int            // ids of plain calls in progress
	liveTok := map[int]string{}  // id -> token
	var handlerIDs []int         // ids of call-backs in progress
	var late []int               // ids of cancelled calls, not yet answered
	tok := 0
	reqID := 100
	n := 10 + r.Intn(30)
	for i := 0; i < n; i++ {
		switch k := r.Intn(20); {
		case k < 7:
			token := fmt.Sprintf("t%d", tok)
			tok++
			nextID++
			if k8 := r.Intn(8); k8 == 0 {
				emit(fmt.Sprintf("call %s early=%s", token, "e"+token))
				emit("await " + token)
			} else if k8 == 1 {
				emit(fmt.Sprintf("call %s early=%s cancelearly=1", token, "e"+token))
				emit(fmt.Sprintf("await %s race=%s", token, "e"+token))
			} else {
				emit("call " + token)
				liveIDs = append(liveIDs, nextID)
				liveTok[nextID] = token
			}
		case k < 12:
			if len(liveIDs) > 0 {
				j := r.Intn(len(liveIDs))
				id := liveIDs[j]
				liveIDs = append(liveIDs[:j], liveIDs[j+1:]...)
				switch r.Intn(6) {
				case 0:
					emit(fmt.Sprintf("reply %d error %d", id, -32000-r.Intn(5)))
				case 1:
					emit(fmt.Sprintf("reply %d empty", id))
				default:
					emit(fmt.Sprintf("reply %d result p%d", id, id))
				}
				emit("await " + liveTok[id])
			}
		case k < 14:
			if len(liveIDs) > 0 {
				j := r.Intn(len(liveIDs))
				id := liveIDs[j]
				liveIDs = append(liveIDs[:j], liveIDs[j+1:]...)
				emit("cancel " + liveTok[id])
				emit("await " + liveTok[id])
				late = append(late, id)
			}
		case k < 15:
			if len(late) > 0 {
				id := late[0]
				late = late[1:]
				emit(fmt.Sprintf("reply %d result late%d", id, id)) // the late reply of a call that gave up
			}
		case k < 17:
			reqID++
			switch r.Intn(4) {
			case 0:
				emit(fmt.Sprintf("request %d unknown x", reqID))
			case 1, 2:
				nextID++
				handlerIDs = append(handlerIDs, nextID)
				emit(fmt.Sprintf("request %d known a%d callback=cb%d", reqID, reqID, reqID))
			default:
				emit(fmt.Sprintf("request %d known a%d", reqID, reqID))
			}
		case k < 18:
			if len(handlerIDs) > 0 {
				j := r.Intn(len(handlerIDs))
				id := handlerIDs[j]
				handlerIDs = append(handlerIDs[:j], handlerIDs[j+1:]...)
				if r.Intn(5) == 0 {
					emit(fmt.Sprintf("reply %d error -32001", id))
				} else {
					emit(fmt.Sprintf("reply %d result h%d", id, id))
				}
			}
		case k < 19:
			emit("outbox")
		default:
			emit("pendinglen")
		}
	}
	if idx%3 == 1 {
		// the connection ends with calls in progress (some already answered but not yet awaited is impossible here:
		// the harness lets a caller take its reply at once; a reply delivered before the caller waits is `early`)
		emit("endserve")
		for _, id := range liveIDs {
			emit("await " + liveTok[id])
		}
		for _, id := range late {
			_ = id
		}
		// a call started on the dead connection fails at once
		emit(fmt.Sprintf("call t%d", tok))
		emit(fmt.Sprintf("await t%d", tok))
		emit("outbox sorted")
		return
	}
	// drain: answer everything still outstanding, in a shuffled order
	r.Shuffle(len(liveIDs), func(i, j int) { liveIDs[i], liveIDs[j] = liveIDs[j], liveIDs[i] })
	for _, id := range liveIDs {
		emit(fmt.Sprintf("reply %d result p%d", id, id))
		emit("await " + liveTok[id])
	}
	for _, id := range handlerIDs {
		emit(fmt.Sprintf("reply %d result h%d", id, id))
	}
	emit("outbox")
	emit("pendinglen")
}


// StormRecv answers after a short random delay so that many calls are in flight at once.
type StormRecv struct{}

func (StormRecv) Echo(ctx context.Context, s string) (string, error) {
	time.Sleep(time.Duration(len(s)%7) * time.Millisecond)
	return s, nil
}

// rpcStorm: two Remotes connected by a pipe, both with the given pending limit, n concurrent callers on each
// side; every call must return its own token.
// Relay: the handler calls back over the connection its request arrived on before it answers
func (StormRecv) Relay(ctx context.Context, s string) (string, error) {
	svc, err := jsonrpc2.CtxService(ctx)
	if err != nil {
		return "", err
	}
	var res string
	if err := svc.Call(ctx, &res, "echo", s); err != nil {
		return "", err
	}
	return res, nil
}

// Descend: ping-pong recursion over one connection, n levels deep
func (StormRecv) Descend(ctx context.Context, n int) (int, error) {
	if n <= 0 {
		return 0, nil
	}
	svc, err := jsonrpc2.CtxService(ctx)
	if err != nil {
		return 0, err
	}
	var res int
	if err := svc.Call(ctx, &res, "descend", n-1); err != nil {
		return 0, err
	}
	return res + 1, nil
}

// stormOver: the same storm over the two other transports of the library: Local (in-process, the service in the
// handler's context is the Local itself) and HTTPService -> HTTPServer (one request per call, no call-backs).
func stormOver(transport string, n int, method string) string {
	var svc jsonrpc2.Service
	switch transport {
	case "local":
		loc := &jsonrpc2.Local{}
		loc.Server.Register("", StormRecv{})
		svc = loc
	case "http":
		h := &jsonrpc2.HTTPServer{}
		h.Server.Register("", StormRecv{})
		hs := httptest.NewServer(h)
		defer hs.Close()
		svc = &jsonrpc2.HTTPService{Endpoint: hs.URL}
		method = "echo"
	}
	var wg sync.WaitGroup
	var mu sync.Mutex
	returned, own := 0, 0
	for i := 0; i < 2*n; i++ {
		wg.Add(1)
		go func(i int) {
			defer wg.Done()
			tok := fmt.Sprintf("t%d-%s", i, strings.Repeat("y", i%13))
			ctx, cancel := context.WithTimeout(context.Background(), 5*time.Second)
			defer cancel()
			var res string
			err := svc.Call(ctx, &res, method, tok)
			mu.Lock()
			if err == nil {
				returned++
				if res == tok {
					own++
				}
			}
			mu.Unlock()
		}(i)
	}
	done := make(chan struct{})
	go func() { wg.Wait(); close(done) }()
	select {
	case <-done:
	case <-time.After(12 * time.Second):
		mu.Lock()
		defer mu.Unlock()
		return fmt.Sprintf("wedged returned=%d own=%d", returned, own)
	}
	return fmt.Sprintf("ok returned=%d own=%d", returned, own)
}

func rpcStorm(n, limit, discard int, method string, depth int) string {
	a, b := jsonrpc2.ServePipe()
	a.PendingLimit, a.PendingDiscard = limit, discard
	b.PendingLimit, b.PendingDiscard = limit, discard
	a.Server.Register("", StormRecv{})
	b.Server.Register("", StormRecv{})
	var wg sync.WaitGroup
	var mu sync.Mutex
	returned, own := 0, 0
	for side, r := range []*jsonrpc2.Remote{a, b} {
		for i := 0; i < n; i++ {
			wg.Add(1)
			go func(side, i int, r *jsonrpc2.Remote) {
				defer wg.Done()
				tok := fmt.Sprintf("s%d-%d-%s", side, i, strings.Repeat("x", i%11))
				ctx, cancel := context.WithTimeout(context.Background(), 5*time.Second)
				defer cancel()
				var res string
				err := r.Call(ctx, &res, method, tok)
				mu.Lock()
				if err == nil {
					returned++
					if res == tok {
						own++
					}
				}
				mu.Unlock()
			}(side, i, r)
		}
	}
	deep := "-"
	if depth > 0 {
		wg.Add(1)
		go func() {
			defer wg.Done()
			ctx, cancel := context.WithTimeout(context.Background(), 5*time.Second)
			defer cancel()
			var res int
			if err := a.Call(ctx, &res, "descend", depth); err == nil {
				mu.Lock()
				deep = strconv.Itoa(res)
				mu.Unlock()
			}
		}()
	}
	done := make(chan struct{})
	go func() { wg.Wait(); close(done) }()
	select {
	case <-done:
	case <-time.After(12 * time.Second):
		// callers that do not even come back with their context's error: the connection is wedged
		mu.Lock()
		defer mu.Unlock()
		return fmt.Sprintf("wedged returned=%d own=%d descend=%s", returned, own, deep)
	}
	a.Close()
	b.Close()
	mu.Lock()
	defer mu.Unlock()
	if depth > 0 {
		return fmt.Sprintf("ok returned=%d own=%d descend=%s", returned, own, deep)
	}
	return fmt.Sprintf("ok returned=%d own=%d", returned, own)
}

// generator variant: concurrent storms (the server's production setting is limit 50, discard 10)
type rpcStormVariant struct{ rpcComp }

func (v *rpcStormVariant) Prefix() string { return "rpc" }
func (v *rpcStormVariant) Gen(r *rand.Rand, idx int, emit func(string)) {
	if idx%9 == 4 {
		emit("localrelay outer=" + []string{"remote", "local"}[(idx/9)%2])
		return
	}
	cfgs := [][3]int{{70, 50, 10}, {20, 5, 2}, {100, 50, 10}, {30, 0, 0}, {64, 8, 8}}
	c := cfgs[idx%len(cfgs)]
	if idx%9 == 6 || idx%9 == 8 {
		emit(fmt.Sprintf("storm callers=%d limit=0 discard=0 transport=%s%s", 30+10*(idx%4), []string{"local", "http"}[(idx/9+idx)%2], []string{"", " relay=1"}[idx%2]))
		return
	}
	switch idx % 3 {
	case 1:
		// every handler calls back over the connection before answering
		emit(fmt.Sprintf("storm callers=%d limit=%d discard=%d relay=1", []int{17, 40, 64}[(idx/3)%3], c[1], c[2]))
	case 2:
		emit(fmt.Sprintf("storm callers=%d limit=%d discard=%d descend=%d", 8, c[1], c[2], []int{20, 45, 80}[(idx/3)%3]))
	default:
		emit(fmt.Sprintf("storm callers=%d limit=%d discard=%d", c[0], c[1], c[2]))
	}
}

func init() { components["rpc-storm"] = func() Component { return &rpcStormVariant{} } }
