package main

import (
	"bytes"
	"encoding/json"
	"fmt"
	"io/ioutil"
	"math/rand"
	"net"
	"net/http"
	"os"
	"os/exec"
	"sort"
	"strings"
	"sync"
	"time"

	"github.com/gorilla/websocket"
	"github.com/vipnode/vipnode/v2/ethnode"
	"github.com/vipnode/vipnode/v2/pool"
	"github.com/vipnode/vipnode/v2/request"
)

// Component `poolbin` (C09, the glue of server.go): the *built pool binary* (`vipnode pool --store=memory`, one fresh
// process per case) with hosts registering over real WebSocket connections that then end in every way a socket can
// end - dropped TCP connection, close frames with various codes, a protocol error - and a light client asking for
// peers over HTTP.  What is observed is which connections the pool calls (`vipnode_whitelist`) and what the client is
// told; the model is the registry of Model/Pool.lean (register / closeRemote).
func init() { components["poolbin"] = func() Component { return &poolBinComp{} } }

type binConn struct {
	ws    *websocket.Conn
	mu    sync.Mutex
	calls []string // reverse requests received (method names)
	repl  chan string
	mode  string // how this host answers what the pool asks for: "" = acknowledge, "refuse" = JSON-RPC error
}

type poolBinComp struct {
	proc  *exec.Cmd
	addr  string
	conns map[string]*binConn
	nonce int64
}

func (c *poolBinComp) Close() {
	for _, bc := range c.conns {
		bc.ws.Close()
	}
	c.conns = nil
	if c.proc != nil {
		c.proc.Process.Kill()
		c.proc.Wait()
		c.proc = nil
	}
}

func (c *poolBinComp) Reset(opts map[string]string, base int64) {
	c.Close()
	bin := os.Getenv("VERIF_POOL_BINARY")
	if bin == "" {
		fatal("poolbin: VERIF_POOL_BINARY (the built vipnode binary) is required")
	}
	l, err := net.Listen("tcp", "127.0.0.1:0")
	if err != nil {
		fatal(err)
	}
	c.addr = l.Addr().String()
	l.Close()
	c.proc = exec.Command(bin, "pool", "--store=memory", "--bind", c.addr)
	c.proc.Dir = os.Getenv("VERIF_SCRATCH")
	if err := c.proc.Start(); err != nil {
		fatal(err)
	}
	for i := 0; i < 200; i++ {
		if cn, err := net.DialTimeout("tcp", c.addr, 100*time.Millisecond); err == nil {
			cn.Close()
			break
		}
		time.Sleep(20 * time.Millisecond)
	}
	c.conns = map[string]*binConn{}
	c.nonce = time.Now().UnixNano()
}

func (c *poolBinComp) nextNonce() int64 { c.nonce += 1000; return c.nonce }

func (c *poolBinComp) dial(name string) *binConn {
	ws, _, err := websocket.DefaultDialer.Dial("ws://"+c.addr+"/", nil)
	if err != nil {
		fatal(err)
	}
	bc := &binConn{ws: ws, repl: make(chan string, 16)}
	go func() {
		for {
			_, data, err := ws.ReadMessage()
			if err != nil {
				close(bc.repl)
				return
			}
			var m map[string]json.RawMessage
			if json.Unmarshal(data, &m) != nil {
				continue
			}
			if meth, isReq := m["method"]; isReq {
				// a well-behaved host: acknowledge what the pool asks for
				bc.mu.Lock()
				bc.calls = append(bc.calls, strings.Trim(string(meth), `"`))
				mode := bc.mode
				bc.mu.Unlock()
				if id, ok := m["id"]; ok {
					if mode == "refuse" {
						// the host's node refused the instruction: an RPC error reply, the connection stays up
						ws.WriteMessage(websocket.TextMessage, []byte(`{"jsonrpc":"2.0","id":`+string(id)+`,"error":{"code":-32000,"message":"admin_addTrustedPeer refused"}}`))
					} else {
						ws.WriteMessage(websocket.TextMessage, []byte(`{"jsonrpc":"2.0","id":`+string(id)+`,"result":null}`))
					}
				}
				continue
			}
			bc.repl <- string(data)
		}
	}()
	c.conns[name] = bc
	return bc
}

func (c *poolBinComp) signed(who *identity, id int, method string, req interface{}) []byte {
	nonce := c.nextNonce()
	sig, _ := request.Sign(who.key, method, who.id, nonce, req)
	b, _ := json.Marshal(map[string]interface{}{"jsonrpc": "2.0", "id": id, "method": method, "params": []interface{}{sig, who.id, nonce, req}})
	return b
}

func (c *poolBinComp) post(body []byte) (map[string]json.RawMessage, error) {
	resp, err := http.Post("http://"+c.addr+"/", "application/json", bytes.NewReader(body))
	if err != nil {
		return nil, err
	}
	raw, _ := ioutil.ReadAll(resp.Body)
	resp.Body.Close()
	var m map[string]json.RawMessage
	if err := json.Unmarshal(raw, &m); err != nil {
		return nil, fmt.Errorf("unparsable reply %q", raw)
	}
	return m, nil
}

func (c *poolBinComp) Exec(t []string) (extra []string, out string, eff bool) {
	switch t[0] {
	case "hostconn":
		// hostconn <conn> <host>: the host registers over a (new or existing) WebSocket connection
		bc := c.conns[t[1]]
		if bc == nil {
			bc = c.dial(t[1])
		}
		who := identByName[t[2]]
		msg := c.signed(who, 1, "vipnode_connect", pool.ConnectRequest{NodeInfo: ethnode.UserAgent{Kind: ethnode.Geth, IsFullNode: true},
			NodeURI: "enode://" + who.id + "@1.2.3.4:30303"})
		if err := bc.ws.WriteMessage(websocket.TextMessage, msg); err != nil {
			return nil, "err write", false
		}
		select {
		case l, ok := <-bc.repl:
			if !ok {
				return nil, "err closed", false
			}
			if strings.Contains(l, `"error"`) {
				return nil, "err " + strings.Replace(canon(l), " ", "_", -1), false
			}
			return nil, "ok", true
		case <-time.After(3 * time.Second):
			return nil, "err timeout", false
		}
	case "hostmode":
		// hostmode <conn> ack|refuse
		if bc := c.conns[t[1]]; bc != nil {
			bc.mu.Lock()
			bc.mode = map[string]string{"ack": "", "refuse": "refuse"}[t[2]]
			bc.mu.Unlock()
		}
		return nil, "ok", false
	case "closeconn":
		// closeconn <conn> <how>
		bc := c.conns[t[1]]
		if bc == nil {
			return nil, "ok", false
		}
		switch t[2] {
		case "tcp":
			bc.ws.UnderlyingConn().Close()
		case "garbage":
			bc.ws.WriteMessage(websocket.TextMessage, []byte(`{"jsonrpc": nonsense`))
			bc.ws.WriteControl(websocket.CloseMessage, websocket.FormatCloseMessage(websocket.CloseNormalClosure, ""), time.Now().Add(time.Second))
		default:
			code := map[string]int{"frame1000": websocket.CloseNormalClosure, "frame1001": websocket.CloseGoingAway, "frame1002": websocket.CloseProtocolError,
				"frame1009": websocket.CloseMessageTooBig, "frame1011": websocket.CloseInternalServerErr, "frame4000": 4000}[t[2]]
			if code == 0 {
				return nil, "bad-op", false
			}
			bc.ws.WriteControl(websocket.CloseMessage, websocket.FormatCloseMessage(code, "bye"), time.Now().Add(time.Second))
		}
		// wait for the server side to notice
		select {
		case _, ok := <-bc.repl:
			_ = ok
		case <-time.After(500 * time.Millisecond):
		}
		bc.ws.Close()
		delete(c.conns, t[1])
		time.Sleep(60 * time.Millisecond)
		return nil, "ok", true
	case "peer":
		// a light client (n7) registers and asks for more hosts than exist: every host with a live connection must be
		// asked and returned, no closed connection may be called
		who := nodeIdents[7]
		for _, bc := range c.conns {
			bc.mu.Lock()
			bc.calls = nil
			bc.mu.Unlock()
		}
		if m, err := c.post(c.signed(who, 2, "vipnode_connect", pool.ConnectRequest{NodeInfo: ethnode.UserAgent{Kind: ethnode.Geth}})); err != nil || m["error"] != nil {
			return nil, "err client-connect " + strings.Replace(canon(string(m["error"])), " ", "_", -1), false
		}
		m, err := c.post(c.signed(who, 3, "vipnode_peer", pool.PeerRequest{Num: 8}))
		if err != nil {
			return nil, "err transport", false
		}
		var wl []string
		for name, bc := range c.conns {
			bc.mu.Lock()
			for _, meth := range bc.calls {
				if meth == "vipnode_whitelist" {
					wl = append(wl, name)
				}
			}
			bc.mu.Unlock()
		}
		sort.Strings(wl)
		if e := m["error"]; e != nil {
			msg := string(e)
			switch {
			case strings.Contains(msg, "no available host"):
				return nil, "err NoHosts wl=" + strings.Join(wl, ","), false
			case strings.Contains(msg, "failed to call"):
				return nil, "err HostsFailed wl=" + strings.Join(wl, ","), false
			}
			return nil, "err " + strings.Replace(canon(msg), " ", "_", -1), false
		}
		var resp pool.PeerResponse
		json.Unmarshal(m["result"], &resp)
		var hosts []string
		for _, p := range resp.Peers {
			hosts = append(hosts, canon(string(p.ID)))
		}
		sort.Strings(hosts)
		return nil, "ok hosts=" + strings.Join(hosts, ",") + " wl=" + strings.Join(wl, ","), true
	}
	return nil, "bad-op", false
}

func (c *poolBinComp) Gen(r *rand.Rand, idx int, emit func(string)) {
	hows := []string{"tcp", "frame1000", "frame1001", "frame1002", "frame1009", "frame1011", "frame4000", "garbage"}
	nh := 1 + r.Intn(3)
	for i := 0; i < nh; i++ {
		emit(fmt.Sprintf("hostconn c%d n%d", i, i))
	}
	emit("peer")
	for i := 0; i < 2+r.Intn(4); i++ {
		switch r.Intn(6) {
		case 5:
			emit(fmt.Sprintf("hostmode c%d %s", r.Intn(nh), pick(r, []string{"refuse", "refuse", "ack"})))
		case 0, 1:
			emit(fmt.Sprintf("closeconn c%d %s", r.Intn(nh+1), hows[(idx+i)%len(hows)]))
		case 2:
			// a host comes back on a new connection (or moves while the old one is still open)
			emit(fmt.Sprintf("hostconn c%d n%d", nh+1+r.Intn(2), r.Intn(nh)))
		default:
			emit("peer")
		}
	}
	emit(fmt.Sprintf("closeconn c%d %s", r.Intn(nh), hows[idx%len(hows)]))
	emit("peer")
}
