package main

import (
	"bytes"
	"encoding/json"
	"fmt"
	"io/ioutil"
	"math/rand"
	"net"
	"net/http"
	"os"
	"os/exec"
	"sort"
	"strings"
	"sync"
	"time"

	"github.com/gorilla/websocket"
	"github.com/vipnode/vipnode/v2/ethnode"
	"github.com/vipnode/vipnode/v2/pool"
	"github.com/vipnode/vipnode/v2/request"
)

// Component `poolbin` (C09, the glue of server.go): the *built pool binary* (`vipnode pool --store=memory`, one fresh
// process per case) with hosts registering over real WebSocket connections that then end in every way a socket can
// end - dropped TCP connection, close frames with various codes, a protocol error - and a light client asking for
// peers over HTTP.  What is observed is which connections the pool calls (`vipnode_whitelist`) and what the client is
// told; the model is the registry of Model/Pool.lean (register / closeRemote).
func init() { components["poolbin"] = func() Component { return &poolBinComp{} } }

type binConn struct {
	ws    *websocket.Conn
	mu    sync.Mutex
	calls []string // reverse requests received (method names)
	repl  chan string
	mode  string // how this host answers what the pool asks for: "" = acknowledge, "refuse" = JSON-RPC error
}

type poolBinComp struct {
	strayID int
	refused map[string]bool
	proc  *exec.Cmd
	addr  string
	conns map[string]*binConn
	nonce int64
}

func (c *poolBinComp) Close() {
	for _, bc := range c.conns {
		bc.ws.Close()
	}
	c.conns = nil
	if c.proc != nil {
		c.proc.Process.Kill()
		time.Sleep(10 * time.Millisecond)
		c.proc = nil
	}
}

func (c *poolBinComp) Reset(opts map[string]string, base int64) {
	c.Close()
	c.startBinary(nil)
	c.nonce = time.Now().UnixNano()
}

// startBinary (re)starts `vipnode pool --store=memory` with extra flags; false if the process exits instead of serving
func (c *poolBinComp) startBinary(flags []string) bool {
	c.Close()
	bin := os.Getenv("VERIF_POOL_BINARY")
	if bin == "" {
		fatal("poolbin: VERIF_POOL_BINARY (the built vipnode binary) is required")
	}
	l, err := net.Listen("tcp", "127.0.0.1:0")
	if err != nil {
		fatal(err)
	}
	c.addr = l.Addr().String()
	l.Close()
	c.proc = exec.Command(bin, append([]string{"pool", "--store=memory", "--bind", c.addr}, flags...)...)
	c.proc.Dir = os.Getenv("VERIF_SCRATCH")
	if err := c.proc.Start(); err != nil {
		fatal(err)
	}
	exited := make(chan struct{})
	proc := c.proc
	go func() { proc.Wait(); close(exited) }()
	c.conns = map[string]*binConn{}
	c.refused = map[string]bool{}
	for i := 0; i < 200; i++ {
		if cn, err := net.DialTimeout("tcp", c.addr, 100*time.Millisecond); err == nil {
			cn.Close()
			return true
		}
		select {
		case <-exited:
			c.proc = nil
			return false
		case <-time.After(20 * time.Millisecond):
		}
	}
	return false
}

func (c *poolBinComp) nextNonce() int64 { c.nonce += 1000; return c.nonce }

func (c *poolBinComp) dial(name string) *binConn {
	ws, _, err := websocket.DefaultDialer.Dial("ws://"+c.addr+"/", nil)
	if err != nil {
		fatal(err)
	}
	bc := &binConn{ws: ws, repl: make(chan string, 16)}
	go func() {
		for {
			_, data, err := ws.ReadMessage()
			if err != nil {
				close(bc.repl)
				return
			}
			var m map[string]json.RawMessage
			if json.Unmarshal(data, &m) != nil {
				continue
			}
			if meth, isReq := m["method"]; isReq {
				// a well-behaved host: acknowledge what the pool asks for
				bc.mu.Lock()
				bc.calls = append(bc.calls, strings.Trim(string(meth), `"`))
				mode := bc.mode
				bc.mu.Unlock()
				if id, ok := m["id"]; ok {
					if mode == "refuse" {
						// the host's node refused the instruction: an RPC error reply, the connection stays up
						ws.WriteMessage(websocket.TextMessage, []byte(`{"jsonrpc":"2.0","id":`+string(id)+`,"error":{"code":-32000,"message":"admin_addTrustedPeer refused"}}`))
					} else {
						ws.WriteMessage(websocket.TextMessage, []byte(`{"jsonrpc":"2.0","id":`+string(id)+`,"result":null}`))
					}
				}
				continue
			}
			bc.repl <- string(data)
		}
	}()
	c.conns[name] = bc
	return bc
}

func (c *poolBinComp) signed(who *identity, id int, method string, req interface{}) []byte {
	nonce := c.nextNonce()
	sig, _ := request.Sign(who.key, method, who.id, nonce, req)
	b, _ := json.Marshal(map[string]interface{}{"jsonrpc": "2.0", "id": id, "method": method, "params": []interface{}{sig, who.id, nonce, req}})
	return b
}

func (c *poolBinComp) post(body []byte) (map[string]json.RawMessage, error) {
	resp, err := (&http.Client{Timeout: 12 * time.Second}).Post("http://"+c.addr+"/", "application/json", bytes.NewReader(body))
	if err != nil {
		return nil, err
	}
	raw, _ := ioutil.ReadAll(resp.Body)
	resp.Body.Close()
	var m map[string]json.RawMessage
	if err := json.Unmarshal(raw, &m); err != nil {
		return nil, fmt.Errorf("unparsable reply %q", raw)
	}
	return m, nil
}

func (c *poolBinComp) Exec(t []string) (extra []string, out string, eff bool) {
	if c.proc == nil && t[0] != "start" {
		return nil, "err not-running", false
	}
	switch t[0] {
	case "hostconn":
		// hostconn <conn> <host>: the host registers over a (new or existing) WebSocket connection
		bc := c.conns[t[1]]
		if bc == nil {
			bc = c.dial(t[1])
		}
		who := identByName[t[2]]
		msg := c.signed(who, 1, "vipnode_connect", pool.ConnectRequest{NodeInfo: ethnode.UserAgent{Kind: ethnode.Geth, IsFullNode: true},
			NodeURI: "enode://" + who.id + "@1.2.3.4:30303"})
		if err := bc.ws.WriteMessage(websocket.TextMessage, msg); err != nil {
			return nil, "err write", false
		}
		select {
		case l, ok := <-bc.repl:
			if !ok {
				return nil, "err closed", false
			}
			if strings.Contains(l, `"error"`) {
				return nil, "err " + strings.Replace(canon(l), " ", "_", -1), false
			}
			return nil, "ok", true
		case <-time.After(3 * time.Second):
			return nil, "err timeout", false
		}
	case "start":
		// start min=<ether|off> price=<ether> max=<n>: the operator's flags (`_` stands for a space)
		get := func(k string) string { v, _ := FindStr(k, t); return strings.Replace(v, "_", " ", -1) }
		flags := []string{"--contract.min-balance=" + get("min"), "--contract.price=" + get("price"), "--max-request-hosts=" + get("max")}
		if !c.startBinary(flags) {
			return nil, "err start-failed", false
		}
		return nil, "ok", true
	case "client", "kalive":
		// a light client (n6 / n7) registers / sends a keep-alive without peers over HTTP
		if c.proc == nil {
			return nil, "err not-running", false
		}
		who := identByName[t[1]]
		if t[0] == "kalive" && c.refused[t[1]] {
			// a client refused at registration has no business sending keep-alives (whether the pool would bill one
			// depends on the wall clock)
			return nil, "skipped-refused", false
		}
		var body []byte
		if t[0] == "client" {
			body = c.signed(who, 5, "vipnode_connect", pool.ConnectRequest{NodeInfo: ethnode.UserAgent{Kind: ethnode.Geth}})
		} else {
			time.Sleep(3 * time.Millisecond)
			body = c.signed(who, 6, "vipnode_update", pool.UpdateRequest{BlockNumber: 1, PeerInfo: []ethnode.PeerInfo{}})
		}
		m, err := c.post(body)
		if err != nil {
			return nil, "err transport", false
		}
		if e := m["error"]; e != nil {
			msg := string(e)
			if i := strings.Index(msg, "Current balance ("); i >= 0 {
				var cur, min string
				fmt.Sscanf(msg[i:], "Current balance (%s", &cur)
				cur = strings.TrimRight(cur, ")")
				if j := strings.Index(msg, "required minimum ("); j >= 0 {
					min = msg[j+len("required minimum ("):]
					min = min[:strings.IndexAny(min, ")")]
				}
				if t[0] == "client" {
					c.refused[t[1]] = true
				}
				return nil, "err LowBalance " + cur + " " + min, false
			}
			if strings.Contains(msg, "Invalid interval settings") {
				return nil, "err InvalidSettings", false
			}
			return nil, "err " + strings.Replace(canon(msg), " ", "_", -1), false
		}
		return nil, "ok", true
	case "kbillhangup":
		// kbillhangup <client> <host>: the billable keep-alive as in kbill, but the client closes its connection as
		// soon as the request is out and never reads the reply.  The pool handles the request all the same: a client
		// cut off for its balance is reported to the hosts peering with it.
		who, host := identByName[t[1]], identByName[t[2]]
		for _, bc := range c.conns {
			bc.mu.Lock()
			bc.calls = nil
			bc.mu.Unlock()
		}
		time.Sleep(25 * time.Millisecond)
		body := c.signed(who, 9, "vipnode_update", pool.UpdateRequest{BlockNumber: 1, PeerInfo: []ethnode.PeerInfo{{ID: host.id}}})
		conn, err := net.Dial("tcp", c.addr)
		if err != nil {
			return nil, "err transport", false
		}
		fmt.Fprintf(conn, "POST / HTTP/1.1\r\nHost: %s\r\nContent-Type: application/json\r\nContent-Length: %d\r\n\r\n%s", c.addr, len(body), body)
		conn.Close()
		// give the pool the time to handle the request and make its calls
		var disc []string
		for i := 0; i < 40; i++ {
			time.Sleep(25 * time.Millisecond)
			disc = disc[:0]
			for name, bc := range c.conns {
				bc.mu.Lock()
				for _, meth := range bc.calls {
					if meth == "vipnode_disconnect" {
						disc = append(disc, name)
					}
				}
				bc.mu.Unlock()
			}
			if len(disc) > 0 && i >= 4 {
				break
			}
		}
		sort.Strings(disc)
		return nil, "sent disc=" + strings.Join(disc, ","), true
	case "hoststray":
		// hoststray <conn>: the host sends a reply nobody asked for (a late or duplicated answer): it changes nothing,
		// in particular the pool still notices when this connection ends
		if bc := c.conns[t[1]]; bc != nil {
			// (its own id each time: two unsolicited replies under one id are the flood C15 sets aside)
			c.strayID++
			bc.ws.WriteMessage(websocket.TextMessage, []byte(fmt.Sprintf(`{"jsonrpc":"2.0","id":%d,"result":null}`, 987654+c.strayID)))
			time.Sleep(20 * time.Millisecond)
		}
		return nil, "ok", false
	case "hosthttp":
		// hosthttp <host>: a full node tries to register over plain HTTP (no connection the pool could call it back
		// on): it gets an error reply, and the pool goes on serving everybody else
		who := identByName[t[1]]
		m, err := c.post(c.signed(who, 8, "vipnode_connect", pool.ConnectRequest{NodeInfo: ethnode.UserAgent{Kind: ethnode.Geth, IsFullNode: true},
			NodeURI: "enode://" + who.id + "@1.2.3.9:30303"}))
		if err != nil {
			return nil, "no-reply", true
		}
		if m["error"] != nil {
			return nil, "err refused", false
		}
		return nil, "ok", true
	case "kbill":
		// kbill <client> <host>: a billable keep-alive - the client reports the host as its peer a moment after
		// registering, so it is charged elapsed*price/minute (some wei at the prices the generator uses)
		who, host := identByName[t[1]], identByName[t[2]]
		if c.refused[t[1]] {
			return nil, "skipped-refused", false
		}
		time.Sleep(25 * time.Millisecond)
		m, err := c.post(c.signed(who, 7, "vipnode_update", pool.UpdateRequest{BlockNumber: 1, PeerInfo: []ethnode.PeerInfo{{ID: host.id}}}))
		if err != nil {
			return nil, "err transport", false
		}
		if e := m["error"]; e != nil {
			msg := string(e)
			if i := strings.Index(msg, "Current balance ("); i >= 0 {
				var cur, min string
				fmt.Sscanf(msg[i:], "Current balance (%s", &cur)
				cur = strings.TrimRight(cur, ")")
				if j := strings.Index(msg, "required minimum ("); j >= 0 {
					min = msg[j+len("required minimum ("):]
					min = min[:strings.IndexAny(min, ")")]
				}
				return []string{"cur=" + cur}, "err LowBalance " + cur + " " + min, true
			}
			if strings.Contains(msg, "Invalid interval settings") {
				return nil, "err InvalidSettings", false
			}
			return nil, "err " + strings.Replace(canon(msg), " ", "_", -1), false
		}
		var resp pool.UpdateResponse
		if err := json.Unmarshal(m["result"], &resp); err != nil || resp.Balance == nil {
			return nil, "err no-balance-in-reply", false
		}
		return []string{"cur=" + resp.Balance.Credit.String()}, "ok", true
	case "hostmode":
		// hostmode <conn> ack|refuse
		if bc := c.conns[t[1]]; bc != nil {
			bc.mu.Lock()
			bc.mode = map[string]string{"ack": "", "refuse": "refuse"}[t[2]]
			bc.mu.Unlock()
		}
		return nil, "ok", false
	case "closeconn":
		// closeconn <conn> <how>
		bc := c.conns[t[1]]
		if bc == nil {
			return nil, "ok", false
		}
		switch t[2] {
		case "tcp":
			bc.ws.UnderlyingConn().Close()
		case "garbage":
			bc.ws.WriteMessage(websocket.TextMessage, []byte(`{"jsonrpc": nonsense`))
			bc.ws.WriteControl(websocket.CloseMessage, websocket.FormatCloseMessage(websocket.CloseNormalClosure, ""), time.Now().Add(time.Second))
		default:
			code := map[string]int{"frame1000": websocket.CloseNormalClosure, "frame1001": websocket.CloseGoingAway, "frame1002": websocket.CloseProtocolError,
				"frame1009": websocket.CloseMessageTooBig, "frame1011": websocket.CloseInternalServerErr, "frame4000": 4000}[t[2]]
			if code == 0 {
				return nil, "bad-op", false
			}
			bc.ws.WriteControl(websocket.CloseMessage, websocket.FormatCloseMessage(code, "bye"), time.Now().Add(time.Second))
		}
		// wait for the server side to notice
		select {
		case _, ok := <-bc.repl:
			_ = ok
		case <-time.After(500 * time.Millisecond):
		}
		bc.ws.Close()
		delete(c.conns, t[1])
		time.Sleep(60 * time.Millisecond)
		return nil, "ok", true
	case "peer":
		// a light client (n7) registers and asks for more hosts than exist: every host with a live connection must be
		// asked and returned, no closed connection may be called
		who := nodeIdents[7]
		for _, bc := range c.conns {
			bc.mu.Lock()
			bc.calls = nil
			bc.mu.Unlock()
		}
		if m, err := c.post(c.signed(who, 2, "vipnode_connect", pool.ConnectRequest{NodeInfo: ethnode.UserAgent{Kind: ethnode.Geth}})); err != nil || m["error"] != nil {
			return nil, "err client-refused", false
		}
		num := 8
		if v, ok := FindStr("num", t); ok {
			fmt.Sscan(v, &num)
		}
		m, err := c.post(c.signed(who, 3, "vipnode_peer", pool.PeerRequest{Num: num}))
		if err != nil {
			return nil, "err transport", false
		}
		var wl []string
		for name, bc := range c.conns {
			bc.mu.Lock()
			for _, meth := range bc.calls {
				if meth == "vipnode_whitelist" {
					wl = append(wl, name)
				}
			}
			bc.mu.Unlock()
		}
		sort.Strings(wl)
		if e := m["error"]; e != nil {
			msg := string(e)
			switch {
			case strings.Contains(msg, "no available host"), strings.Contains(msg, "no host nodes available"):
				return nil, "err NoHosts wl=" + strings.Join(wl, ","), false
			case strings.Contains(msg, "failed to call"):
				return nil, "err HostsFailed wl=" + strings.Join(wl, ","), false
			}
			return nil, "err " + strings.Replace(canon(msg), " ", "_", -1), false
		}
		var resp pool.PeerResponse
		json.Unmarshal(m["result"], &resp)
		var hosts []string
		for _, p := range resp.Peers {
			hosts = append(hosts, canon(string(p.ID)))
		}
		sort.Strings(hosts)
		if _, counted := FindStr("num", t); counted {
			// with a request count the pool picks among the hosts: which ones is its choice, how many is prescribed
			return nil, fmt.Sprintf("ok nhosts=%d nwl=%d", len(hosts), len(wl)), true
		}
		return nil, "ok hosts=" + strings.Join(hosts, ",") + " wl=" + strings.Join(wl, ","), true
	}
	return nil, "bad-op", false
}

// genConfig: the operator's flags decide who is admitted, whether keep-alives are billable and how many hosts a request
// may name - through pool.go's flag parsing and wiring
func (c *poolBinComp) genConfig(r *rand.Rand, idx int, emit func(string)) {
	mins := []string{"off", "0", "1", "1_wei", "5_gwei", "-1", "-1_wei", "0.5_kwei", "0.000000001_gwei", "100", "2_ether", "1.5_parsec", "1.", "wei"}
	prices := []string{"100_gwei", "1000", "1_wei", "250_wei", "0", "0_wei", "0.0000001_gwei", "3_kwei", "1_babbage", "-5", "12_furlongs"}
	max := r.Intn(4)
	emit(fmt.Sprintf("start min=%s price=%s max=%d", mins[(idx/2)%len(mins)], prices[(idx/2+idx%2*5)%len(prices)], max))
	nh := 1 + r.Intn(3)
	for i := 0; i < nh; i++ {
		emit(fmt.Sprintf("hostconn c%d n%d", i, i))
	}
	emit("client n6")
	emit("kalive n6")
	emit(fmt.Sprintf("peer num=%d", []int{1, 2, 3, 8}[r.Intn(4)]))
	emit("client n7")
	emit("kalive n7")
}

// genOverdraw: a client that has been billed below zero against every kind of configured minimum (zero in several
// spellings, just below zero, far below zero, none)
func (c *poolBinComp) genOverdraw(r *rand.Rand, idx int, emit func(string)) {
	mins := []string{"0", "0_wei", "0.0", "0_ether", "-1", "-1_wei", "off", "-1_ether", "0"}
	emit(fmt.Sprintf("start min=%s price=%s max=0", mins[(idx/6)%len(mins)], pick(r, []string{"100_gwei", "1_ether", "3_gwei"})))
	emit("hostconn c0 n0")
	emit("client n6")
	emit("kbill n6 n0")
	emit("client n6")
	emit("kalive n6")
	emit("client n7")
	if r.Intn(2) == 0 {
		emit("kbill n7 n0")
		emit("client n7")
	}
}

// genHangup: a client that is cut off by a keep-alive whose reply it does not wait for
func (c *poolBinComp) genHangup(r *rand.Rand, idx int, emit func(string)) {
	emit(fmt.Sprintf("start min=%s price=%s max=0", []string{"0", "0_wei", "off", "0"}[(idx/12)%4], pick(r, []string{"100_gwei", "1_ether"})))
	emit("hostconn c0 n0")
	if r.Intn(2) == 0 {
		emit("hostconn c1 n1")
	}
	emit("client n6")
	emit("kbillhangup n6 n0")
}

func (c *poolBinComp) Gen(r *rand.Rand, idx int, emit func(string)) {
	if idx%12 == 9 {
		c.genHangup(r, idx, emit)
		return
	}
	if idx%6 == 5 {
		c.genOverdraw(r, idx, emit)
		return
	}
	if idx%2 == 1 {
		c.genConfig(r, idx, emit)
		return
	}
	hows := []string{"tcp", "frame1000", "frame1001", "frame1002", "frame1009", "frame1011", "frame4000", "garbage"}
	nh := 1 + r.Intn(3)
	for i := 0; i < nh; i++ {
		emit(fmt.Sprintf("hostconn c%d n%d", i, i))
	}
	emit("peer")
	for i := 0; i < 2+r.Intn(4); i++ {
		switch r.Intn(6) {
		case 5:
			emit(fmt.Sprintf("hostmode c%d %s", r.Intn(nh), pick(r, []string{"refuse", "refuse", "ack"})))
		case 0, 1:
			if r.Intn(3) == 0 {
				emit(fmt.Sprintf("hoststray c%d", r.Intn(nh)))
			}
			emit(fmt.Sprintf("closeconn c%d %s", r.Intn(nh+1), hows[(idx+i)%len(hows)]))
		case 2:
			// a host comes back on a new connection (or moves while the old one is still open)
			emit(fmt.Sprintf("hostconn c%d n%d", nh+1+r.Intn(2), r.Intn(nh)))
		default:
			emit("peer")
		}
	}
	if idx%4 == 2 {
		emit(fmt.Sprintf("hosthttp n%d", nh+1))
	}
	last := r.Intn(nh)
	if idx%3 == 1 {
		emit(fmt.Sprintf("hoststray c%d", last))
	}
	emit(fmt.Sprintf("closeconn c%d %s", last, hows[idx%len(hows)]))
	emit("peer")
}
