package main

import (
	"context"
	"fmt"
	"time"

	"github.com/vipnode/vipnode/v2/jsonrpc2"
)

// nested services: a request arrives over a connection (a Remote, or a Local), its handler forwards it to an
// in-process Local passing its own context down, and the Local's handler calls back over "the connection the request
// arrived on" - which for that handler is the Local, not the outer connection.

type WhoRecv struct{ name string }

func (w WhoRecv) Name(ctx context.Context) (string, error) { return w.name, nil }

// WhoAmI asks the service found in the context for its name
func (w WhoRecv) WhoAmI(ctx context.Context) (string, error) {
	svc, err := jsonrpc2.CtxService(ctx)
	if err != nil {
		return "", err
	}
	var res string
	if err := svc.Call(ctx, &res, "name"); err != nil {
		return "", err
	}
	return res, nil
}

type RelayRecv struct {
	name  string
	inner jsonrpc2.Service
}

func (r RelayRecv) Name(ctx context.Context) (string, error) { return r.name, nil }
func (r RelayRecv) Relay(ctx context.Context) (string, error) {
	var res string
	err := r.inner.Call(ctx, &res, "whoAmI")
	return res, err
}

// localRelay outer=remote|local: who answers the innermost call-back
func localRelay(outer string) string {
	inner := &jsonrpc2.Local{}
	inner.Server.Register("", WhoRecv{name: "inner"})
	done := make(chan string, 1)
	go func() {
		var res string
		var err error
		switch outer {
		case "remote":
			front, peer := jsonrpc2.ServePipe()
			if e := front.Server.(*jsonrpc2.Server).Register("", RelayRecv{name: "front", inner: inner}); e != nil {
				done <- "err register " + e.Error()
				return
			}
			peer.Server.(*jsonrpc2.Server).Register("", WhoRecv{name: "peer"})
			ctx, cancel := context.WithTimeout(context.Background(), 3*time.Second)
			defer cancel()
			err = peer.Call(ctx, &res, "relay")
		case "local":
			out := &jsonrpc2.Local{}
			out.Server.Register("", RelayRecv{name: "outer", inner: inner})
			err = out.Call(context.Background(), &res, "relay")
		default:
			done <- "bad-op"
			return
		}
		if err != nil {
			done <- "err " + fmt.Sprint(err)
			return
		}
		done <- "ok answered=" + res
	}()
	select {
	case o := <-done:
		return o
	case <-time.After(5 * time.Second):
		return "wedged"
	}
}
