module verifharness

go 1.12

require (
	github.com/dgraph-io/badger/v2 v2.0.3
	github.com/ethereum/go-ethereum v1.9.15
	github.com/gorilla/websocket v1.4.2
	github.com/vipnode/vipnode/v2 v2.0.0
)

replace github.com/vipnode/vipnode/v2 => /repo
