package main

import (
	"crypto/ecdsa"
	"crypto/sha256"
	"fmt"
	"sort"
	"strings"

	"github.com/ethereum/go-ethereum/crypto"
	"github.com/ethereum/go-ethereum/p2p/discv5"
)

// Deterministic identities: node names n0..n7 and wallet names w0..w3 stand for
// real secp256k1 keys; ops and canonical outputs use the names, the real code
// sees the real 128-hex node ids / 0x addresses and real signatures.
type identity struct {
	name string
	key  *ecdsa.PrivateKey
	id   string // node id (128 hex) or wallet address (0x…)
}

var nodeIdents, walletIdents, lcWalletIdents, upNodeIdents []*identity
var identByName = map[string]*identity{}
var nameByReal = map[string]string{}
var realReplacer *strings.Replacer
var strangerKey *ecdsa.PrivateKey

func detKey(label string) *ecdsa.PrivateKey {
	for i := 0; ; i++ {
		h := sha256.Sum256([]byte(fmt.Sprintf("verif-key-%s-%d", label, i)))
		k, err := crypto.ToECDSA(h[:])
		if err == nil {
			return k
		}
	}
}

func init() {
	var pairs []string
	for i := 0; i < 8; i++ {
		k := detKey(fmt.Sprintf("node%d", i))
		id := &identity{name: fmt.Sprintf("n%d", i), key: k, id: discv5.PubkeyID(&k.PublicKey).String()}
		nodeIdents = append(nodeIdents, id)
	}
	for i := 0; i < 4; i++ {
		k := detKey(fmt.Sprintf("wallet%d", i))
		id := &identity{name: fmt.Sprintf("w%d", i), key: k, id: crypto.PubkeyToAddress(k.PublicKey).Hex()}
		walletIdents = append(walletIdents, id)
	}
	// w0lc..w3lc: the same wallets (same keys) spelled in lower case - to the pool's ledger, whose accounts are
	// keyed by the string, these are other accounts, while signatures made over that spelling verify
	var lc []*identity
	for _, w := range walletIdents {
		lc = append(lc, &identity{name: w.name + "lc", key: w.key, id: strings.ToLower(w.id)})
	}
	lcWalletIdents = lc
	// n0up, n1up: the keys of n0 / n1 under the upper-case spelling of the node id - other nodes to the pool's store
	// (ids are opaque strings), and signatures made over that spelling verify
	for _, n := range nodeIdents[:2] {
		upNodeIdents = append(upNodeIdents, &identity{name: n.name + "up", key: n.key, id: strings.ToUpper(n.id)})
	}
	lc = append(lc, upNodeIdents...)
	for _, id := range append(append(append([]*identity{}, nodeIdents...), walletIdents...), lc...) {
		identByName[id.name] = id
		nameByReal[id.id] = id.name
		pairs = append(pairs, id.id, id.name)
	}
	realReplacer = strings.NewReplacer(pairs...)
	strangerKey = detKey("stranger")
}

// realID maps a name to the real identity string (unknown names pass through).
func realID(name string) string {
	if id, ok := identByName[name]; ok {
		return id.id
	}
	return name
}

// canon replaces every real identity in s by its name.
func canon(s string) string { return realReplacer.Replace(s) }

func canonList(l []string) []string {
	r := make([]string, len(l))
	for i, s := range l {
		r[i] = canon(s)
	}
	sort.Strings(r)
	return r
}
