package main

import (
	"fmt"
	"math/big"
	"math/rand"
	"strconv"
	"strings"
	"time"

	"github.com/dgraph-io/badger/v2"
	"github.com/vipnode/vipnode/v2/pool/store"
	badgerstore "github.com/vipnode/vipnode/v2/pool/store/badger"
	"github.com/vipnode/vipnode/v2/pool/store/memory"
)

func init() { components["store"] = func() Component { return &storeComp{} } }

const sec = int64(time.Second)

func storeErrClass(err error) string {
	switch err {
	case store.ErrUnregisteredNode:
		return "err Unregistered"
	case store.ErrMalformedNode:
		return "err Malformed"
	case store.ErrInvalidNonce:
		return "err InvalidNonce"
	case store.ErrNotAuthorized:
		return "err NotAuthorized"
	}
	if err == badger.ErrConflict {
		return "err Conflict"
	}
	return "err Other:" + strings.Replace(err.Error(), " ", "_", -1)
}

func openStore(driver string) store.Store {
	switch driver {
	case "", "memory":
		return memory.New()
	case "badger":
		s, err := badgerstore.Open(badger.DefaultOptions("").WithInMemory(true).WithLogger(nil))
		if err != nil {
			fatal(err)
		}
		return s
	}
	fatal("unknown driver " + driver)
	return nil
}

// handed is a value the store handed out, with what it was worth at the time
type handed struct {
	bal  *store.Balance
	node *store.Node
	was  string
}

type storeComp struct {
	s        store.Store
	poisoned bool
	snaps    []handed // every balance / node record handed out so far in this case (C10: snapshots never change)
	// every timestamp fed to the store; used to detect (and skip) the rare op
	// whose outcome depends on which instant inside the call the driver read
	// the clock
	times []int64
}

func (c *storeComp) Close() {
	if c.s != nil {
		c.s.Close()
		c.s = nil
	}
}

func (c *storeComp) Reset(opts map[string]string, base int64) {
	c.Close()
	c.s = openStore(opts["driver"])
	c.poisoned = false
	c.times = c.times[:0]
	c.snaps = nil
}

// keepBal / keepNode remember a value the store returned; checkSnaps re-reads all of them later.
func (c *storeComp) keepBal(b store.Balance) {
	cp := b
	c.snaps = append(c.snaps, handed{bal: &cp, was: balStr(b)})
}

func (c *storeComp) keepNode(n *store.Node) {
	c.snaps = append(c.snaps, handed{node: n, was: nodeStr(n)})
}

func (c *storeComp) checkSnaps() string {
	for _, h := range c.snaps {
		now := ""
		if h.bal != nil {
			now = balStr(*h.bal)
		} else {
			now = nodeStr(h.node)
		}
		if now != h.was {
			return fmt.Sprintf("snapshot-mutated was=%s now=%s", strings.Replace(h.was, " ", "/", -1), strings.Replace(now, " ", "/", -1))
		}
	}
	return ""
}

// sensitive reports whether some known timestamp + window falls inside [t0,t1]
func (c *storeComp) sensitive(t0, t1, window int64) bool {
	for _, ts := range c.times {
		d := satAdd(ts, window)
		if d >= t0-int64(time.Millisecond) && d <= t1+int64(time.Millisecond) {
			return true
		}
	}
	return false
}

// (ids are opaque strings to the store: other spellings of "the same" hex id are different nodes)
var storeIDs = []string{"a", "b", "c", "d", "e", "", "AB", "0xab", "ab"}
var storeAccts = []string{"X", "Y", "Z", ""}
var storeKinds = []string{"geth", "parity", ""}
var amounts = []string{"0", "1", "-1", "7", "1000", "-1000", "18446744073709551619", "-18446744073709551619",
	"340282366920938463463374607431768211459", "1000000000000000000000000000000"}

// time offsets (seconds, relative to case start) around the 120 s window
var lastSeenOffsets = []int64{0, -1, -30, -60, -118, -119, -121, -122, -180, -600, 60, 3600}

func pick(r *rand.Rand, l []string) string { return l[r.Intn(len(l))] }

func (c *storeComp) Gen(r *rand.Rand, idx int, emit func(string)) {
	n := 5 + r.Intn(36)
	// a case-specific bias so that some cases are dominated by registered ids
	ids := storeIDs
	if r.Intn(3) > 0 {
		ids = storeIDs[:3+r.Intn(3)]
	} else if r.Intn(2) == 0 {
		ids = []string{"a", "AB", "0xab", "ab", "b"}
	}
	id := func() string { return Tok(pick(r, ids)) }
	acct := func() string { return Tok(pick(r, storeAccts[:2+r.Intn(3)])) }
	if idx%9 == 4 {
		// an accepted nonce that has aged (but is still inside the 15-minute window) stays remembered across every
		// other store operation - keep-alives of any node, registrations, balance updates: its replay and anything
		// older stay refused, other identities are unaffected
		who := pick(r, []string{"a", "X", "b"})
		age := int64(125+r.Intn(760)) * sec
		emit("setnode a t:0 1 geth ~ ~ 1")
		emit("setnode b t:0 0 geth ~ ~ 1")
		emit(fmt.Sprintf("nonce %s %s", who, TTok(-age)))
		emit(fmt.Sprintf("nonce %s %s", who, TTok(-age)))
		switch r.Intn(4) {
		case 0:
			emit("unp a 3 peers=")
		case 1:
			emit("unp b 2 peers=a")
		case 2:
			emit("setnode b t:0 0 geth ~ ~ 2")
			emit("unp b 4 peers=a,a")
		default:
			emit("addnb a 7")
			emit("unp a 1 peers=b")
		}
		emit(fmt.Sprintf("nonce %s %s", who, TTok(-age)))
		emit(fmt.Sprintf("nonce %s %s", who, TTok(-age-int64(1+r.Intn(9))*sec)))
		emit(fmt.Sprintf("nonce %s %s", pick(r, []string{"c", "Y"}), TTok(-age)))
		emit(fmt.Sprintf("nonce %s %s", who, TTok(-age+int64(1+r.Intn(100))*sec)))
	}
	if idx%100 == 11 {
		// a peer that is tracked while live, stops checking in, and crosses the expiry boundary while it is no
		// longer reported (real time has to pass: the recorded check-in only ages)
		emit(fmt.Sprintf("setnode a %s 1 geth ~ ~ 1", TTok(-118500*int64(time.Millisecond))))
		emit("setnode b t:0 0 geth ~ ~ 1")
		emit("unp b 1 peers=a")
		emit("peers b")
		emit("sleep 1700")
		if (idx/100)%2 == 1 {
			// ... or it checks in again just in time and is still reported: the old record is stale, the peer is live
			emit("unp a 7 peers=")
			emit("unp b 2 peers=" + pick(r, []string{"a", "a,zz", "a,a"}))
		} else {
			emit("unp b 2 peers=" + pick(r, []string{"", "", "zz", "b"}))
		}
		emit("peers b")
	}
	for i := 0; i < n; i++ {
		k := r.Intn(100)
		if i < 2+idx%3 {
			k = 0 // open every case with a few registrations so later ops mostly hit registered ids
		}
		switch {
		case k < 18:
			emit(fmt.Sprintf("setnode %s %s %s %s %s %s %d", id(), TTok(lastSeenOffsets[r.Intn(len(lastSeenOffsets))]*sec),
				B(r.Intn(2) == 0), Tok(pick(r, storeKinds)), Tok(pick(r, []string{"", "enode://x@1.2.3.4:30303"})), Tok(pick(r, []string{"", "X", "Y"})), r.Intn(5)))
		case k < 24:
			emit("getnode " + id())
		case k < 40:
			np := r.Intn(4)
			ps := make([]string, np)
			for j := range ps {
				ps[j] = pick(r, storeIDs)
				if r.Intn(10) == 0 {
					ps[j] = "zz" // never registered
				}
			}
			emit(fmt.Sprintf("unp %s %d peers=%s", id(), r.Intn(6), JoinC(ps)))
		case k < 46:
			emit("peers " + id())
		case k < 54:
			emit(fmt.Sprintf("active %s %d", Tok(pick(r, storeKinds)), r.Intn(5)))
		case k < 60:
			emit("getnb " + id())
		case k < 70:
			emit(fmt.Sprintf("addnb %s %s", id(), pick(r, amounts)))
		case k < 74:
			emit("getab " + acct())
		case k < 79:
			emit(fmt.Sprintf("addab %s %s", acct(), pick(r, amounts)))
		case k < 86:
			emit(fmt.Sprintf("link %s %s", acct(), id()))
		case k < 89:
			emit(fmt.Sprintf("isan %s %s", acct(), id()))
		case k < 92:
			emit("nodes " + acct())
		case k < 97:
			// nonces: around the freshness boundary (-900 s), equal, decreasing, extremes
			var off int64
			switch r.Intn(8) {
			case 0:
				off = -901 * sec
			case 1:
				off = -899 * sec
			case 2:
				off = int64(r.Intn(3)) * sec
			case 3:
				off = -int64(r.Intn(800)) * sec
			case 4:
				off = 1<<62 - 1 // far future (saturates)
			case 5:
				off = -1 << 62
			default:
				off = int64(r.Intn(5)-2) * sec
			}
			emit(fmt.Sprintf("nonce %s %s", Tok(pick(r, []string{"a", "b", "X", ""})), TTok(off)))
		default:
			emit("stats")
		}
	}
}

func balStr(b store.Balance) string {
	return fmt.Sprintf("%s %s %s", Tok(string(b.Account)), b.Deposit.String(), b.Credit.String())
}

func nodeStr(n *store.Node) string {
	return fmt.Sprintf("%s %s %s %s %s %s %d", Tok(string(n.ID)), Tok(n.URI), TTok(n.LastSeen.UnixNano()), Tok(n.Kind), B(n.IsHost), Tok(string(n.Payout)), n.BlockNumber)
}

func nodeIDs(ns []store.Node) []string {
	r := make([]string, len(ns))
	for i, n := range ns {
		r[i] = string(n.ID)
	}
	return r
}

func (c *storeComp) Exec(t []string) (extra []string, out string, eff bool) {
	if c.poisoned {
		return []string{"#skipped"}, "noop", false
	}
	extra, out, eff = c.exec(t)
	if c.poisoned {
		// the op ran but its outcome is clock-sensitive: blank it and the rest of the case
		return []string{"#skipped"}, "noop", false
	}
	if v := c.checkSnaps(); v != "" {
		// a value handed out earlier has changed under the caller's feet
		out = v
		c.snaps = nil
	}
	return
}

func mustBig(s string) *big.Int {
	v, ok := new(big.Int).SetString(s, 10)
	if !ok {
		fatal("bad int " + s)
	}
	return v
}

func (c *storeComp) exec(t []string) (extra []string, out string, eff bool) {
	s := c.s
	e := func(err error) (x []string, o string, f bool) { return nil, storeErrClass(err), false }
	switch t[0] {
	case "setnode":
		ls, _ := parseT(t[2])
		blk, _ := strconv.ParseUint(t[7], 10, 64)
		c.times = append(c.times, ls)
		err := s.SetNode(store.Node{ID: store.NodeID(Untok(t[1])), LastSeen: time.Unix(0, ls), IsHost: t[3] == "1", Kind: Untok(t[4]), URI: Untok(t[5]), Payout: store.Account(Untok(t[6])), BlockNumber: blk})
		if err != nil {
			return e(err)
		}
		return nil, "ok", true
	case "getnode":
		n, err := s.GetNode(store.NodeID(Untok(t[1])))
		if err != nil {
			return e(err)
		}
		c.keepNode(n)
		return nil, "ok " + nodeStr(n), false
	case "sleep":
		ms, _ := strconv.Atoi(t[1])
		time.Sleep(time.Duration(ms) * time.Millisecond)
		return nil, "ok", false
	case "unp":
		id := store.NodeID(Untok(t[1]))
		blk, _ := strconv.ParseUint(t[2], 10, 64)
		peers, _ := FindArg("peers", t)
		inactive, err := s.UpdateNodePeers(id, peers, blk)
		if err != nil {
			return e(err)
		}
		n, err := s.GetNode(id)
		if err != nil {
			return nil, "err Other:getnode-after-unp", false
		}
		now := n.LastSeen.UnixNano()
		c.times = append(c.times, now)
		ids := make([]string, len(inactive))
		for i, x := range inactive {
			ids[i] = string(x)
		}
		return []string{"now=" + TTok(now)}, "ok inactive=" + SortedC(ids), true
	case "peers":
		ns, err := s.NodePeers(store.NodeID(Untok(t[1])))
		if err != nil {
			return e(err)
		}
		return nil, "ok peers=" + SortedC(nodeIDs(ns)), false
	case "active":
		limit, _ := strconv.Atoi(t[2])
		t0 := time.Now().UnixNano()
		ns, err := s.ActiveHosts(Untok(t[1]), limit)
		t1 := time.Now().UnixNano()
		if c.sensitive(t0, t1, int64(store.ExpireInterval)) {
			c.poisoned = true
			return
		}
		if err != nil {
			return e(err)
		}
		ids := nodeIDs(ns)
		return []string{"now=" + TTok(t0), "choice=" + JoinC(ids)}, "ok " + SortedC(ids), false
	case "getnb":
		b, err := s.GetNodeBalance(store.NodeID(Untok(t[1])))
		if err != nil {
			return e(err)
		}
		c.keepBal(b)
		return nil, "ok " + balStr(b), false
	case "addnb":
		if err := s.AddNodeBalance(store.NodeID(Untok(t[1])), mustBig(t[2])); err != nil {
			return e(err)
		}
		return nil, "ok", true
	case "getab":
		b, err := s.GetAccountBalance(store.Account(Untok(t[1])))
		if err != nil {
			return e(err)
		}
		c.keepBal(b)
		return nil, "ok " + balStr(b), false
	case "addab":
		if err := s.AddAccountBalance(store.Account(Untok(t[1])), mustBig(t[2])); err != nil {
			return e(err)
		}
		return nil, "ok", true
	case "link":
		if err := s.AddAccountNode(store.Account(Untok(t[1])), store.NodeID(Untok(t[2]))); err != nil {
			return e(err)
		}
		return nil, "ok", true
	case "isan":
		if err := s.IsAccountNode(store.Account(Untok(t[1])), store.NodeID(Untok(t[2]))); err != nil {
			return e(err)
		}
		return nil, "ok", false
	case "nodes":
		ids, err := s.GetAccountNodes(store.Account(Untok(t[1])))
		if err != nil {
			return e(err)
		}
		l := make([]string, len(ids))
		for i, x := range ids {
			l[i] = string(x)
		}
		return nil, "ok nodes=" + SortedC(l), false
	case "nonce":
		nonce, _ := parseT(t[2])
		t0 := time.Now().UnixNano()
		err := s.CheckAndSaveNonce(Untok(t[1]), nonce)
		t1 := time.Now().UnixNano()
		c.times = append(c.times, nonce)
		if c.sensitive(t0, t1, int64(store.ExpireNonce)) {
			c.poisoned = true
			return
		}
		x := []string{"now=" + TTok(t0)}
		if err != nil {
			return x, storeErrClass(err), false
		}
		return x, "ok", true
	case "stats":
		t0 := time.Now().UnixNano()
		st, err := s.Stats()
		t1 := time.Now().UnixNano()
		if c.sensitive(t0, t1, int64(store.ExpireInterval)) {
			c.poisoned = true
			return
		}
		if err != nil {
			return e(err)
		}
		return []string{"now=" + TTok(t0)}, fmt.Sprintf("ok %d %d %d %d %d %s %s %d", st.NumActiveHosts, st.NumTotalHosts, st.NumActiveClients, st.NumTotalClients,
			st.LatestBlockNumber, st.TotalCredit.String(), st.TotalDeposit.String(), st.NumTrialBalances), false
	}
	return nil, "bad-op", false
}
