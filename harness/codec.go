package main

import (
	"bytes"
	"context"
	"encoding/hex"
	"encoding/json"
	"fmt"
	"io"
	"math/rand"
	"net/http"
	"net/http/httptest"
	"sort"
	"strconv"
	"strings"
	"sync"
	"time"

	"github.com/vipnode/vipnode/v2/jsonrpc2"
	"github.com/vipnode/vipnode/v2/jsonrpc2/ws/gobwas"
	"github.com/vipnode/vipnode/v2/jsonrpc2/ws/gorilla"
)

func init() { components["codec"] = func() Component { return &codecComp{} } }

type codecComp struct{}

func (c *codecComp) Close()                                  {}
func (c *codecComp) Reset(opts map[string]string, base int64) {}

// chunkReader returns the stream cut at the given positions, one chunk per Read.
type chunkReader struct {
	chunks [][]byte
}

func (r *chunkReader) Read(p []byte) (int, error) {
	for len(r.chunks) > 0 && len(r.chunks[0]) == 0 {
		r.chunks = r.chunks[1:]
	}
	if len(r.chunks) == 0 {
		return 0, io.EOF
	}
	n := copy(p, r.chunks[0])
	r.chunks[0] = r.chunks[0][n:]
	return n, nil
}
func (r *chunkReader) Write(p []byte) (int, error) { return len(p), nil }
func (r *chunkReader) Close() error                { return nil }

// message built from a spec token: kind:size:flavour
func buildMessage(spec string, i int) *jsonrpc2.Message {
	f := strings.Split(spec, ":")
	size, _ := strconv.Atoi(f[1])
	var filler string
	switch f[2] {
	case "braces":
		filler = strings.Repeat("}{\"", size/3+1)
	case "escapes":
		filler = strings.Repeat("\\\"\\", size/3+1)
	case "unicode":
		filler = strings.Repeat("é✓𝄞", size/9+1)
	case "html":
		filler = strings.Repeat("<a&b>", size/5+1)
	default:
		filler = strings.Repeat("x", size)
	}
	id, _ := json.Marshal(i + 1)
	switch f[0] {
	case "req":
		params, _ := json.Marshal([]interface{}{filler, i, map[string]interface{}{"nested": map[string]interface{}{"deep": []interface{}{1, "}", filler}}}})
		return &jsonrpc2.Message{ID: id, Version: "2.0", Request: &jsonrpc2.Request{Method: "m_" + f[2], Params: params}}
	case "resp":
		res, _ := json.Marshal(map[string]interface{}{"value": filler, "n": i})
		return &jsonrpc2.Message{ID: id, Version: "2.0", Response: &jsonrpc2.Response{Result: res}}
	default:
		return &jsonrpc2.Message{ID: id, Version: "2.0", Response: &jsonrpc2.Response{Result: json.RawMessage("null"), Error: &jsonrpc2.ErrResponse{Code: -32000, Message: filler}}}
	}
}

type captureRWC struct{ bytes.Buffer }

func (c *captureRWC) Close() error { return nil }

func (c *codecComp) Exec(t []string) (extra []string, out string, eff bool) {
	switch t[0] {
	case "stream":
		specs, _ := FindArg("msgs", t)
		cutsS, _ := FindArg("cuts", t)
		// the byte stream is what the real codec writes
		var sink captureRWC
		w := jsonrpc2.IOCodec(&sink)
		for i, sp := range specs {
			if err := w.WriteMessage(buildMessage(sp, i)); err != nil {
				return nil, "err write", false
			}
		}
		stream := sink.Bytes()
		// cuts are given in per-mille of the stream length (generator does not know the length) or absolute with '@'
		var cuts []int
		for _, cs := range cutsS {
			if strings.HasPrefix(cs, "@") {
				v, _ := strconv.Atoi(cs[1:])
				cuts = append(cuts, v)
			} else {
				v, _ := strconv.Atoi(cs)
				cuts = append(cuts, v*len(stream)/1000)
			}
		}
		sort.Ints(cuts)
		var norm []int
		for _, c := range cuts {
			if c > 0 && c < len(stream) && (len(norm) == 0 || norm[len(norm)-1] != c) {
				norm = append(norm, c)
			}
		}
		var chunks [][]byte
		prev := 0
		for _, c := range norm {
			chunks = append(chunks, append([]byte{}, stream[prev:c]...))
			prev = c
		}
		chunks = append(chunks, append([]byte{}, stream[prev:]...))
		rd := jsonrpc2.IOCodec(&chunkReader{chunks: chunks})
		var got []string
		for {
			msg, err := rd.ReadMessage()
			if err != nil {
				break
			}
			b, _ := json.Marshal(msg)
			got = append(got, hex.EncodeToString(b))
			if len(got) > len(specs)+5 {
				break
			}
		}
		ns := make([]string, len(norm))
		for i, c := range norm {
			ns[i] = strconv.Itoa(c)
		}
		// the resolved op carries the real bytes and the absolute cut positions
		t2 := []string{"hex=" + hex.EncodeToString(stream), "cuts=" + strings.Join(ns, ",")}
		return append([]string{"#resolved"}, t2...), "ok " + strings.Join(got, ","), true
	case "http":
		x, o := httpExchange(t)
		return x, o, true
	case "ws":
		lib, _ := FindStr("lib", t)
		writers, _ := strconv.Atoi(mustStr(FindStr("writers", t)))
		each, _ := strconv.Atoi(mustStr(FindStr("each", t)))
		size, _ := strconv.Atoi(mustStr(FindStr("size", t)))
		sweepFrom = 0
		if sw, ok := FindStr("sweep", t); ok {
			sweepFrom, _ = strconv.Atoi(sw)
		}
		return nil, wsRun(lib, writers, each, size), true
	}
	return nil, "bad-op", false
}

func mustStr(s string, ok bool) string { return s }

// sweepFrom > 0: message k of the run has a JSON text of exactly sweepFrom+k bytes, so that a run walks the encoded
// length across the sizes at which a streaming decoder's read ends exactly on the closing brace
var sweepFrom int

func wsMessage(size int, flavours []string, wi, k, id int) *jsonrpc2.Message {
	if sweepFrom <= 0 {
		return buildMessage(fmt.Sprintf("req:%d:%s", size*(1+k%3), flavours[(wi+k)%4]), id)
	}
	mk := func(pad int) *jsonrpc2.Message {
		idb, _ := json.Marshal(id + 1)
		params, _ := json.Marshal([]interface{}{strings.Repeat("p", pad), id})
		return &jsonrpc2.Message{ID: idb, Version: "2.0", Request: &jsonrpc2.Request{Method: "m_sweep", Params: params}}
	}
	b, _ := json.Marshal(mk(0))
	pad := sweepFrom + k - len(b)
	if pad < 0 {
		pad = 0
	}
	return mk(pad)
}

// wsRun: `writers` goroutines write `each` messages through one codec; the other end reads them all.
func wsRun(lib string, writers, each, size int) string {
	// "a>b": the writing end uses library a, the reading end library b (the two codecs frame differently: text vs
	// binary messages, one frame vs fragments)
	wlib, rlib := lib, lib
	if i := strings.Index(lib, ">"); i > 0 {
		wlib, rlib = lib[:i], lib[i+1:]
	}
	var serverCodec jsonrpc2.Codec
	ready := make(chan struct{})
	done := make(chan struct{})
	srv := httptest.NewServer(http.HandlerFunc(func(w http.ResponseWriter, r *http.Request) {
		var err error
		if wlib == "gorilla" {
			serverCodec, err = (&gorilla.Upgrader{}).Upgrade(r, w, nil)
		} else {
			serverCodec, err = (&gobwas.Upgrader{}).Upgrade(r, w, nil)
		}
		if err != nil {
			close(ready)
			return
		}
		close(ready)
		<-done
	}))
	defer srv.Close()
	defer close(done)
	url := "ws" + strings.TrimPrefix(srv.URL, "http")
	var client jsonrpc2.Codec
	var err error
	if rlib == "gorilla" {
		client, err = gorilla.WebSocketDial(context.Background(), url)
	} else {
		client, err = gobwas.WebSocketDial(context.Background(), url)
	}
	if err != nil {
		return "err dial"
	}
	defer client.Close()
	<-ready
	if serverCodec == nil {
		return "err upgrade"
	}
	total := writers * each
	var wg sync.WaitGroup
	flavours := []string{"plain", "braces", "escapes", "unicode"}
	for wi := 0; wi < writers; wi++ {
		wg.Add(1)
		go func(wi int) {
			defer wg.Done()
			for k := 0; k < each; k++ {
				m := wsMessage(size, flavours, wi, k, wi*1000000+k)
				serverCodec.WriteMessage(m)
			}
		}(wi)
	}
	received, intact := 0, 0
	last := map[int]int{}
	order := "ok"
	deadline := time.After(20 * time.Second)
	resc := make(chan *jsonrpc2.Message, total)
	go func() {
		for i := 0; i < total; i++ {
			m, err := client.ReadMessage()
			if err != nil {
				close(resc)
				return
			}
			resc <- m
		}
		close(resc)
	}()
loop:
	for {
		select {
		case m, ok := <-resc:
			if !ok {
				break loop
			}
			received++
			var id int
			if m == nil || m.Request == nil || json.Unmarshal(m.ID, &id) != nil {
				continue
			}
			id-- // buildMessage uses i+1
			wi, k := id/1000000, id%1000000
			want := wsMessage(size, flavours, wi, k, id)
			if m.Request.Method == want.Request.Method && bytes.Equal(m.Request.Params, want.Request.Params) {
				intact++
			}
			if prev, seen := last[wi]; seen && k != prev+1 {
				order = "broken"
			} else if !seen && k != 0 {
				order = "broken"
			}
			last[wi] = k
		case <-deadline:
			break loop
		}
	}
	wg.Wait()
	return fmt.Sprintf("ok received=%d intact=%d order=%s", received, intact, order)
}

func (c *codecComp) Gen(r *rand.Rand, idx int, emit func(string)) {
	if idx%5 == 3 {
		genHTTP(r, idx, emit)
		return
	}
	kinds := []string{"req", "resp", "err"}
	flav := []string{"plain", "braces", "escapes", "unicode", "html"}
	sizes := []int{0, 1, 7, 60, 300, 511, 512, 513, 700, 1500, 5000}
	for k := 0; k < 3; k++ {
		n := 1 + r.Intn(6)
		specs := make([]string, n)
		for i := range specs {
			specs[i] = fmt.Sprintf("%s:%d:%s", pick(r, kinds), sizes[r.Intn(len(sizes))], pick(r, flav))
		}
		var cuts []string
		switch r.Intn(5) {
		case 0: // one read: everything coalesced
		case 1: // byte by byte at the start
			for i := 1; i < 40; i++ {
				cuts = append(cuts, "@"+strconv.Itoa(i))
			}
		default:
			for i := 0; i < r.Intn(12); i++ {
				cuts = append(cuts, strconv.Itoa(r.Intn(1000)))
			}
		}
		emit(fmt.Sprintf("stream msgs=%s cuts=%s", strings.Join(specs, ","), strings.Join(cuts, ",")))
	}
}

// generator variant: WebSocket runs (concurrent writers on gorilla, sequential on gobwas)
type codecWSVariant struct{ codecComp }

func (v *codecWSVariant) Prefix() string { return "codec" }
func (v *codecWSVariant) Gen(r *rand.Rand, idx int, emit func(string)) {
	if idx%3 == 2 {
		emit(fmt.Sprintf("ws lib=gobwas writers=1 each=%d size=%d", 5+r.Intn(30), []int{10, 200, 600, 3000}[r.Intn(4)]))
		return
	}
	if idx%3 == 1 {
		// encoded lengths walking across 512, 1024, 1536, 2048, 3584, 4096 (decoder buffer refills, frame buffer)
		from := []int{500, 1015, 1525, 2040, 3575, 4085}[(idx/3)%6]
		emit(fmt.Sprintf("ws lib=%s writers=1 each=30 size=0 sweep=%d", []string{"gobwas", "gorilla"}[(idx/18)%2], from))
		return
	}
	if idx%6 == 0 {
		// the two libraries talking to each other
		emit(fmt.Sprintf("ws lib=%s writers=1 each=%d size=%d", []string{"gobwas>gorilla", "gorilla>gobwas"}[(idx/6)%2], 5+r.Intn(30), []int{10, 200, 600, 3000}[r.Intn(4)]))
		return
	}
	emit(fmt.Sprintf("ws lib=gorilla writers=%d each=%d size=%d", 1+r.Intn(8), 5+r.Intn(40), []int{10, 200, 600, 3000}[r.Intn(4)]))
}

func init() { components["codec-ws"] = func() Component { return &codecWSVariant{} } }
