package main

import (
	"bufio"
	"bytes"
	"encoding/gob"
	"fmt"
	"io/ioutil"
	"math/big"
	"math/rand"
	"os"
	"os/exec"
	"path/filepath"
	"sort"
	"strconv"
	"strings"
	"sync"
	"sync/atomic"
	"time"

	"github.com/dgraph-io/badger/v2"
	"github.com/vipnode/vipnode/v2/pool/store"
	badgerstore "github.com/vipnode/vipnode/v2/pool/store/badger"
)

// Component `persist` (C13): the badger driver on disk — close/reopen, kill -9 of a child process in the middle of
// operations, databases prepared at other format versions, readers observing the trial-balance migration.
func init() {
	components["persist"] = func() Component { return &persistComp{} }
	extraCommands["crashchild"] = crashChild
	extraCommands["tryopen"] = func(args []string) {
		// open (and migrate) in a process of its own: a refused open must not keep the directory locked for the parent
		s, err := badgerstore.Open(diskOpts(args[0]))
		if err != nil {
			fmt.Println("OPENERR " + err.Error())
			return
		}
		s.Close()
		fmt.Println("OPENOK")
	}
}

func diskOpts(dir string) badger.Options {
	return badger.DefaultOptions(dir).WithLogger(nil).WithValueLogFileSize(1 << 20).WithNumMemtables(1).WithNumLevelZeroTables(1).WithNumLevelZeroTablesStall(2)
}

type persistComp struct {
	storeComp
	root     string
	dir      string
	n        int
	base     int64
	prepared int // format version the directory was prepared at
}

func (c *persistComp) Close() {
	c.storeComp.Close()
	if c.dir != "" {
		os.RemoveAll(c.dir)
		c.dir = ""
	}
}

func (c *persistComp) Reset(opts map[string]string, base int64) {
	c.Close()
	c.root = os.Getenv("VERIF_SCRATCH")
	if c.root == "" {
		c.root = os.TempDir()
	}
	c.n++
	c.dir = filepath.Join(c.root, fmt.Sprintf("badger-%d-%d", os.Getpid(), c.n))
	os.RemoveAll(c.dir)
	c.base = base
	c.poisoned = false
	c.times = nil
}

func (c *persistComp) open() string {
	if c.prepared > 2 {
		self, _ := os.Executable()
		out, _ := exec.Command(self, "tryopen", c.dir).CombinedOutput()
		if strings.Contains(string(out), "newer than the supported version") {
			return "err MigrationNewer"
		}
		if !strings.Contains(string(out), "OPENOK") {
			return "err Other:" + strings.Replace(strings.TrimSpace(string(out)), " ", "_", -1)
		}
	}
	s, err := badgerstore.Open(diskOpts(c.dir))
	if err != nil {
		if strings.Contains(err.Error(), "newer than the supported version") {
			return "err MigrationNewer"
		}
		return "err Other:" + strings.Replace(err.Error(), " ", "_", -1)
	}
	c.s = s
	return "ok"
}

func decodeEnc(op string) []string { return strings.Split(op, "+") }

func (c *persistComp) dump() string {
	s := c.s
	var nodes, peers, nb, ab, links []string
	for _, id := range []string{"a", "b", "c", "d", "e"} {
		n, err := s.GetNode(store.NodeID(id))
		if err != nil {
			continue
		}
		nodes = append(nodes, fmt.Sprintf("%s:%d:%s:%s:%s:%d", id, n.LastSeen.UnixNano(), Tok(n.Kind), B(n.IsHost), Tok(string(n.Payout)), n.BlockNumber))
		if ps, err := s.NodePeers(store.NodeID(id)); err == nil {
			l := nodeIDs(ps)
			sort.Strings(l)
			peers = append(peers, id+">"+strings.Join(l, "+"))
		}
		if b, err := s.GetNodeBalance(store.NodeID(id)); err == nil {
			nb = append(nb, fmt.Sprintf("%s=%s/%s", id, Tok(string(b.Account)), b.Credit.String()))
		}
	}
	for _, a := range []string{"X", "Y", "Z"} {
		b, _ := s.GetAccountBalance(store.Account(a))
		ab = append(ab, fmt.Sprintf("%s=%s/%s", a, Tok(string(b.Account)), b.Credit.String()))
		ids, _ := s.GetAccountNodes(store.Account(a))
		var l []string
		for _, x := range ids {
			l = append(l, string(x))
		}
		sort.Strings(l)
		links = append(links, a+"<"+strings.Join(l, "+"))
	}
	return "N[" + strings.Join(nodes, ",") + "]P[" + strings.Join(peers, ",") + "]B[" + strings.Join(nb, ",") + "]A[" + strings.Join(ab, ",") + "]L[" + strings.Join(links, ",") + "]"
}

func rawSet(db *badger.DB, key string, val interface{}) error {
	var buf bytes.Buffer
	if err := gob.NewEncoder(&buf).Encode(val); err != nil {
		return err
	}
	return db.Update(func(txn *badger.Txn) error { return txn.Set([]byte(key), buf.Bytes()) })
}

func (c *persistComp) Exec(t []string) (extra []string, out string, eff bool) {
	get := func(k string) string { v, _ := FindStr(k, t); return v }
	switch t[0] {
	case "prepare":
		// build the content through the driver, then rewrite the format version key with raw badger
		c.storeComp.Close()
		os.RemoveAll(c.dir)
		c.prepared = 2
		if o := c.open(); o != "ok" {
			return nil, o, false
		}
		var resolved []string
		if enc := get("ops"); enc != "" {
			for _, e := range strings.Split(enc, ";") {
				toks := resolveTimes(decodeEnc(e), c.base)
				x, o, _ := c.storeComp.exec(toks)
				if strings.HasPrefix(o, "err") && toks[0] != "nonce" {
					return nil, "err prepare:" + o, false
				}
				resolved = append(resolved, strings.Join(append(toks, x...), "+"))
			}
		}
		content := c.dump() // what the store holds before its format is rewound
		c.storeComp.Close()
		v, _ := strconv.Atoi(get("version"))
		db, err := badger.Open(diskOpts(c.dir))
		if err != nil {
			return nil, "err raw-open", false
		}
		if v == 0 {
			err = db.Update(func(txn *badger.Txn) error { return txn.Delete([]byte("vip:version")) })
		} else {
			err = rawSet(db, "vip:version", &v)
		}
		db.Close()
		if err != nil {
			return nil, "err raw-write", false
		}
		c.prepared = v
		for i := range t {
			if strings.HasPrefix(t[i], "ops=") {
				t[i] = "ops=" + strings.Join(resolved, ";")
			}
		}
		return []string{"content=" + content}, "ok", true
	case "golden":
		// golden k=<0..2>: a directory holding the current on-disk format as every build so far has written it, laid
		// down key by key with raw badger (not through the driver under test): nodes, a wallet link, balances, a trial
		// balance.  Opening it changes nothing and everything is read back - an existing pool's data survive an upgrade.
		k, _ := strconv.Atoi(get("k"))
		c.storeComp.Close()
		os.RemoveAll(c.dir)
		db, err := badger.Open(diskOpts(c.dir))
		if err != nil {
			return nil, "err raw-open", false
		}
		two := 2
		seen := time.Unix(0, 1000)
		put := func(key string, v interface{}) {
			if err == nil {
				err = rawSet(db, key, v)
			}
		}
		put("vip:version", &two)
		put("vip:node:a", &store.Node{ID: "a", Kind: "geth", IsHost: true, LastSeen: seen})
		put("vip:node:b", &store.Node{ID: "b", Kind: "geth", IsHost: true, LastSeen: seen})
		acctX, acctY := store.Account("X"), store.Account("Y")
		put("vip:account:a", &acctX)
		put("vip:balance:X", &store.Balance{Account: "X", Credit: *big.NewInt(7)})
		switch k {
		case 0:
			put("vip:trial:b", &store.Balance{Credit: *big.NewInt(3)})
		case 1:
			put("vip:account:b", &acctX)
		default:
			put("vip:account:b", &acctY)
			put("vip:balance:Y", &store.Balance{Account: "Y", Credit: *big.NewInt(-2)})
		}
		db.Close()
		if err != nil {
			return nil, "err raw-write", false
		}
		c.prepared = 2
		if o := c.open(); o != "ok" {
			return nil, o, false
		}
		d := c.dump()
		// the balances and links sections of the dump
		i, j := strings.Index(d, "]B["), strings.Index(d, "]L[")
		if i < 0 || j < 0 {
			return nil, "err dump", false
		}
		st, _ := c.s.Stats()
		trials := -1
		if st != nil {
			trials = st.NumTrialBalances
		}
		return nil, fmt.Sprintf("ok B[%s] L[%s trials=%d", d[i+3:strings.Index(d, "]A[")], d[j+3:], trials), true
	case "open":
		return nil, c.open(), true
	case "reopen":
		c.storeComp.Close()
		return nil, c.open(), true
	case "torn":
		// what a kill (or power loss) in the middle of an append leaves: a partial entry at the end of the newest
		// value-log file.  It belongs to a write that was never acknowledged; the store must open and hold exactly
		// what it held.
		c.storeComp.Close()
		n, _ := strconv.Atoi(t[1])
		files, _ := filepath.Glob(filepath.Join(c.dir, "*.vlog"))
		sort.Strings(files)
		if len(files) > 0 {
			if f, err := os.OpenFile(files[len(files)-1], os.O_APPEND|os.O_WRONLY, 0600); err == nil {
				junk := make([]byte, n)
				for i := range junk {
					junk[i] = byte(17*i + 1)
				}
				f.Write(junk)
				f.Close()
			}
		}
		return nil, c.open(), true
	case "op":
		if c.s == nil {
			return nil, "bad-op", false
		}
		x, o, e := c.storeComp.Exec(t[1:])
		return x, o, e
	case "dump":
		if c.s == nil {
			return nil, "bad-op", false
		}
		return nil, "ok " + c.dump(), false
	case "version":
		c.storeComp.Close()
		db, err := badger.Open(diskOpts(c.dir))
		if err != nil {
			return nil, "err raw-open", false
		}
		var v int
		db.View(func(txn *badger.Txn) error {
			item, err := txn.Get([]byte("vip:version"))
			if err != nil {
				return nil
			}
			return item.Value(func(val []byte) error { return gob.NewDecoder(bytes.NewReader(val)).Decode(&v) })
		})
		db.Close()
		if c.prepared <= 2 {
			c.open()
		}
		return nil, fmt.Sprintf("ok %d", v), false
	case "crash":
		// a child process applies the operations; it is killed with SIGKILL somewhere along the way
		c.storeComp.Close()
		enc := get("ops")
		var lines []string
		for _, e := range strings.Split(enc, ";") {
			lines = append(lines, strings.Join(resolveTimes(decodeEnc(e), c.base), " "))
		}
		killAt, _ := strconv.Atoi(get("killat"))
		jitter, _ := strconv.Atoi(get("jitterus"))
		self, _ := os.Executable()
		cmd := exec.Command(self, "crashchild", c.dir)
		cmd.Stdin = strings.NewReader(strings.Join(lines, "\n") + "\n")
		stdout, _ := cmd.StdoutPipe()
		cmd.Stderr = ioutil.Discard
		if err := cmd.Start(); err != nil {
			return nil, "err child-start", false
		}
		acks := int32(0)
		done := make(chan struct{})
		go func() {
			sc := bufio.NewScanner(stdout)
			for sc.Scan() {
				if strings.HasPrefix(sc.Text(), "ACK") {
					if int(atomic.AddInt32(&acks, 1)) == killAt {
						time.Sleep(time.Duration(jitter) * time.Microsecond)
						cmd.Process.Kill()
					}
				}
			}
			close(done)
		}()
		waited := make(chan struct{})
		go func() { cmd.Wait(); close(waited) }()
		select {
		case <-waited:
		case <-time.After(20 * time.Second):
			cmd.Process.Kill()
			<-waited
		}
		<-done
		if o := c.open(); o != "ok" {
			return nil, "err reopen-after-crash:" + o, false
		}
		got := c.dump()
		for i := range t {
			if strings.HasPrefix(t[i], "ops=") {
				var rs []string
				for _, l := range lines {
					rs = append(rs, strings.Replace(l, " ", "+", -1))
				}
				t[i] = "ops=" + strings.Join(rs, ";")
			}
		}
		return []string{fmt.Sprintf("acked=%d", atomic.LoadInt32(&acks)), "got=" + got}, "ok crash-consistent", true
	case "readers":
		if c.s == nil {
			return nil, "bad-op", false
		}
		n, _ := strconv.Atoi(get("n"))
		return nil, fmt.Sprintf("ok violations=%d", c.readers(n)), true
	}
	return nil, "bad-op", false
}

// readers: n unlinked nodes each hold one unit of trial credit; a writer links them to a wallet one by one (each
// link is the multi-key migration transaction) while readers take Stats snapshots: the total must be n in every one.
func (c *persistComp) readers(n int) int {
	s := c.s
	for i := 0; i < n; i++ {
		id := store.NodeID(fmt.Sprintf("r%d", i))
		s.SetNode(store.Node{ID: id})
		s.AddNodeBalance(id, big.NewInt(1))
	}
	st0, err := s.Stats()
	if err != nil {
		return -1
	}
	want := new(big.Int).Set(&st0.TotalCredit)
	var violations int32
	stop := make(chan struct{})
	var wg sync.WaitGroup
	for r := 0; r < 4; r++ {
		wg.Add(1)
		go func() {
			defer wg.Done()
			for {
				select {
				case <-stop:
					return
				default:
				}
				st, err := s.Stats()
				if err == nil && st.TotalCredit.Cmp(want) != 0 {
					atomic.AddInt32(&violations, 1)
				}
			}
		}()
	}
	for i := 0; i < n; i++ {
		id := store.NodeID(fmt.Sprintf("r%d", i))
		for try := 0; try < 20; try++ {
			if err := s.AddAccountNode("RW", id); err != badger.ErrConflict {
				break
			}
		}
	}
	close(stop)
	wg.Wait()
	return int(violations)
}

// crashChild: `harness crashchild <dir>`: applies store ops from stdin to the on-disk database, acknowledging each.
func crashChild(args []string) {
	s, err := badgerstore.Open(diskOpts(args[0]))
	if err != nil {
		fmt.Println("OPENERR", err)
		os.Exit(3)
	}
	sc := &storeComp{s: s}
	in := bufio.NewScanner(os.Stdin)
	i := 0
	for in.Scan() {
		toks := strings.Fields(in.Text())
		if len(toks) == 0 {
			continue
		}
		sc.exec(toks)
		i++
		os.Stdout.WriteString(fmt.Sprintf("ACK %d\n", i))
	}
	// keep running: the parent decides when this process dies
	time.Sleep(30 * time.Second)
}

func (c *persistComp) Gen(r *rand.Rand, idx int, emit func(string)) {
	ids := []string{"a", "b", "c", "d", "e"}
	accts := []string{"X", "Y", "Z"}
	encOp := func() string {
		switch r.Intn(6) {
		case 0, 1:
			return fmt.Sprintf("setnode+%s+t:%d+%s+geth+~+%s+%d", pick(r, ids), -int64(r.Intn(300))*sec, B(r.Intn(2) == 0), pick(r, []string{"~", "X"}), r.Intn(9))
		case 2, 3:
			return fmt.Sprintf("addnb+%s+%s", pick(r, ids), pick(r, amounts))
		case 4:
			return fmt.Sprintf("link+%s+%s", pick(r, accts), pick(r, ids))
		default:
			return fmt.Sprintf("addab+%s+%s", pick(r, accts), pick(r, amounts))
		}
	}
	if idx%7 == 5 {
		emit(fmt.Sprintf("golden k=%d", (idx/7)%3))
		for i := 0; i < 3+r.Intn(6); i++ {
			if r.Intn(4) == 0 {
				emit("reopen")
			} else {
				emit("op " + strings.Replace(encOp(), "+", " ", -1))
			}
		}
		emit("reopen")
		emit("dump")
		return
	}
	switch idx % 3 {
	case 0:
		// histories with close/reopen after random prefixes
		emit("prepare version=2 ops=")
		emit("open")
		for i := 0; i < 6+r.Intn(20); i++ {
			switch k := r.Intn(20); {
			case k < 12:
				emit("op " + strings.Replace(encOp(), "+", " ", -1))
			case k < 14:
				emit(fmt.Sprintf("op unp %s %d peers=%s", pick(r, ids), r.Intn(5), JoinC([]string{pick(r, ids), pick(r, ids)})))
			case k < 16:
				emit(fmt.Sprintf("op nonce %s %s", pick(r, []string{"a", "X"}), TTok(int64(r.Intn(5)-2)*sec)))
			case k < 17:
				emit("reopen")
			case k < 18:
				emit(fmt.Sprintf("torn %d", []int{1, 7, 19, 64, 300}[r.Intn(5)]))
			default:
				emit("dump")
			}
		}
		emit("reopen")
		emit("dump")
		emit("version")
	case 1:
		// kill -9 in the middle of a batch of operations, twice
		emit("prepare version=2 ops=" + strings.Join([]string{"setnode+a+t:0+1+geth+~+~+1", "setnode+b+t:0+0+geth+~+~+1", "addnb+b+9"}, ";"))
		emit("open")
		for round := 0; round < 2; round++ {
			n := 6 + r.Intn(10)
			ops := make([]string, n)
			for i := range ops {
				ops[i] = encOp()
			}
			emit(fmt.Sprintf("crash ops=%s killat=%d jitterus=%d", strings.Join(ops, ";"), 1+r.Intn(n), r.Intn(3000)))
			emit("dump")
		}
		emit("readers n=" + strconv.Itoa(20+r.Intn(30)))
	default:
		// databases of other format versions
		v := []int{0, 1, 2, 3, 1, 0}[r.Intn(6)]
		ops := []string{"setnode+a+t:0+1+geth+~+X+4", "setnode+b+t:-1000000000+0+parity+~+~+2", "addnb+a+77", "addnb+b+-5", "link+X+a",
			fmt.Sprintf("nonce+a+t:%d", 5*sec), fmt.Sprintf("nonce+X+t:%d", 7*sec)}
		emit(fmt.Sprintf("prepare version=%d ops=%s", v, strings.Join(ops, ";")))
		emit("open")
		if v > 2 {
			// refused: the files are left as they are
			emit("version")
			return
		}
		emit("dump")
		emit("version")
		// the nonce table: dropped by the 1→2 migration, kept at the current version
		emit(fmt.Sprintf("op nonce a %s", TTok(3*sec)))
		emit(fmt.Sprintf("op nonce X %s", TTok(8*sec)))
		emit("reopen")
		emit("dump")
	}
}
