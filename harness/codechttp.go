package main

import (
	"bytes"
	"context"
	"encoding/json"
	"fmt"
	"io"
	"io/ioutil"
	"math/rand"
	"net/http"
	"net/http/httptest"
	"strconv"
	"strings"
	"sync/atomic"
	"time"

	"github.com/vipnode/vipnode/v2/jsonrpc2"
)

// HTTP transport (jsonrpc2.HTTPServer / jsonrpc2.HTTPService): one message each way per exchange, whatever its size
// and however net/http frames the bodies (announced length, or chunked when the length is not known in advance:
// replies above net/http's 2048-byte buffer, requests streamed by a client).

type HTTPPadRecv struct{}

// Pad answers with s padded to n characters
func (HTTPPadRecv) Pad(ctx context.Context, s string, n int) (string, error) {
	if n > len(s) {
		return s + strings.Repeat("r", n-len(s)), nil
	}
	return s, nil
}

type onlyReader struct{ r io.Reader } // hides the length of the body from net/http: the request goes out chunked

func (o onlyReader) Read(p []byte) (int, error) { return o.r.Read(p) }

// httpExchange: http req=<n> resp=<n> chunked=<0|1> maxs=<n> maxc=<n>
func httpExchange(t []string) (extra []string, out string) {
	geti := func(k string) int { v, _ := FindStr(k, t); n, _ := strconv.Atoi(v); return n }
	reqN, respN, chunked, maxs, maxc := geti("req"), geti("resp"), geti("chunked") == 1, geti("maxs"), geti("maxc")
	hs := &jsonrpc2.HTTPServer{MaxContentLength: int64(maxs)}
	if err := hs.Server.Register("x_", HTTPPadRecv{}); err != nil {
		fatal(err)
	}
	// the number of reply bytes the server produced, reported once its handler is through (the client may have its
	// answer - or have given up on an oversized reply - before that)
	written := make(chan int, 4)
	drop := geti("drop") == 1
	var handled int32
	srv := httptest.NewServer(http.HandlerFunc(func(w http.ResponseWriter, r *http.Request) {
		if drop && atomic.AddInt32(&handled, 1) == 1 {
			// the connection is lost after the server has read and handled the message, before the reply gets out
			rec := httptest.NewRecorder()
			hs.ServeHTTP(rec, r)
			if hj, ok := w.(http.Hijacker); ok {
				if conn, _, err := hj.Hijack(); err == nil {
					conn.Close()
				}
			}
			written <- 0
			return
		}
		cw := &countingWriter{ResponseWriter: w}
		hs.ServeHTTP(cw, r)
		written <- cw.n
	}))
	defer srv.Close()
	payload := strings.Repeat("q", reqN)
	want := payload
	if respN > reqN {
		want = payload + strings.Repeat("r", respN-reqN)
	}
	// the length of the request body as the real client builds it
	cl := &jsonrpc2.Client{}
	m, _ := cl.Request("x_pad", payload, respN)
	body, _ := json.Marshal(m)
	extra = []string{"reqlen=" + strconv.Itoa(len(body))}
	var got string
	var err error
	if chunked {
		var req *http.Request
		req, err = http.NewRequest(http.MethodPost, srv.URL, onlyReader{bytes.NewReader(body)})
		if err == nil {
			req.Header.Set("Content-Type", "application/json")
			var resp *http.Response
			resp, err = http.DefaultClient.Do(req)
			if err == nil {
				raw, _ := ioutil.ReadAll(resp.Body)
				resp.Body.Close()
				var rm jsonrpc2.Message
				if resp.StatusCode != 200 {
					err = fmt.Errorf("status %d", resp.StatusCode)
				} else if err = json.Unmarshal(raw, &rm); err == nil {
					if rm.Response == nil {
						err = fmt.Errorf("no response")
					} else {
						err = rm.Response.UnmarshalResult(&got)
					}
				}
			}
		}
	} else {
		svc := &jsonrpc2.HTTPService{Endpoint: srv.URL, MaxContentLength: int64(maxc)}
		err = svc.Call(context.Background(), &got, "x_pad", payload, respN)
	}
	respLen := -1
	select {
	case respLen = <-written:
	case <-time.After(10 * time.Second):
	}
	if respLen < 0 {
		return extra, "err handler-never-finished"
	}
	if drop {
		// one message was written: it is read and handled exactly once, whatever the client makes of the lost reply
		time.Sleep(30 * time.Millisecond)
		if err == nil {
			return extra, fmt.Sprintf("ok handled=%d", atomic.LoadInt32(&handled))
		}
		return extra, fmt.Sprintf("err handled=%d", atomic.LoadInt32(&handled))
	}
	extra = append(extra, "resplen="+strconv.Itoa(respLen))
	if err != nil {
		return extra, "err"
	}
	if got != want {
		return extra, fmt.Sprintf("ok corrupted got=%d want=%d", len(got), len(want))
	}
	return extra, "ok intact"
}

type countingWriter struct {
	http.ResponseWriter
	n int
}

func (c *countingWriter) Write(p []byte) (int, error) { c.n += len(p); return c.ResponseWriter.Write(p) }

func genHTTP(r *rand.Rand, idx int, emit func(string)) {
	sizes := []int{0, 10, 100, 1000, 1900, 1985, 1990, 1995, 2000, 2048, 2100, 3000, 5000, 70000, 300000}
	limits := []int{0, 0, 0, 512, 4096, 1 << 20}
	for i := 0; i < 6+r.Intn(6); i++ {
		req, resp := sizes[r.Intn(len(sizes))], sizes[r.Intn(len(sizes))]
		if r.Intn(3) > 0 {
			req = sizes[r.Intn(5)]
		}
		maxs, maxc := limits[r.Intn(len(limits))], limits[r.Intn(len(limits))]
		// keep the limits clear of the bodies' lengths (JSON framing adds some 60 bytes): the boundary itself depends
		// on whether net/http announced the length
		for _, n := range []int{req, resp} {
			if maxs > 0 && n+200 > maxs && n < maxs+200 {
				maxs = 0
			}
			if maxc > 0 && n+200 > maxc && n < maxc+200 {
				maxc = 0
			}
		}
		chunked := 0
		if r.Intn(3) == 0 {
			chunked, maxc = 1, 0
		}
		emit(fmt.Sprintf("http req=%d resp=%d chunked=%d maxs=%d maxc=%d", req, resp, chunked, maxs, maxc))
	}
	emit(fmt.Sprintf("http req=%d resp=%d chunked=0 maxs=0 maxc=0 drop=1", sizes[r.Intn(5)], sizes[r.Intn(5)]))
}
