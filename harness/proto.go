package main

import (
	"bufio"
	"fmt"
	"os"
	"sort"
	"strconv"
	"strings"
)

// Tok encodes a string as a protocol token ("~" is the empty string).
func Tok(s string) string {
	if s == "" {
		return "~"
	}
	return s
}

func Untok(s string) string {
	if s == "~" {
		return ""
	}
	return s
}

func TTok(ns int64) string { return "t:" + strconv.FormatInt(ns, 10) }

func B(b bool) string {
	if b {
		return "1"
	}
	return "0"
}

func JoinC(l []string) string {
	out := make([]string, len(l))
	for i, s := range l {
		out[i] = Tok(s)
	}
	return strings.Join(out, ",")
}

func SortedC(l []string) string {
	c := append([]string{}, l...)
	sort.Strings(c)
	return JoinC(c)
}

// ListArg parses key=a,b,c
func ListArg(key, tok string) ([]string, bool) {
	p := key + "="
	if !strings.HasPrefix(tok, p) {
		return nil, false
	}
	r := tok[len(p):]
	if r == "" {
		return []string{}, true
	}
	parts := strings.Split(r, ",")
	for i := range parts {
		parts[i] = Untok(parts[i])
	}
	return parts, true
}

func FindArg(key string, toks []string) ([]string, bool) {
	for _, t := range toks {
		if l, ok := ListArg(key, t); ok {
			return l, true
		}
	}
	return nil, false
}

func FindStr(key string, toks []string) (string, bool) {
	p := key + "="
	for _, t := range toks {
		if strings.HasPrefix(t, p) {
			return Untok(t[len(p):]), true
		}
	}
	return "", false
}

// resolveTimes rewrites every time token (t:<offset>, also inside key=t:<offset>
// and comma lists) from case-relative to absolute nanoseconds.
func resolveTimes(toks []string, base int64) []string {
	out := make([]string, len(toks))
	for i, t := range toks {
		out[i] = resolveTimeTok(t, base)
	}
	return out
}

func resolveTimeTok(t string, base int64) string {
	if i := strings.Index(t, "="); i >= 0 && !strings.HasPrefix(t, "t:") {
		return t[:i+1] + resolveTimeTok(t[i+1:], base)
	}
	if strings.Contains(t, ",") {
		parts := strings.Split(t, ",")
		for i := range parts {
			parts[i] = resolveTimeTok(parts[i], base)
		}
		return strings.Join(parts, ",")
	}
	if strings.HasPrefix(t, "t:") {
		off, err := strconv.ParseInt(t[2:], 10, 64)
		if err != nil {
			return t
		}
		return TTok(satAdd(base, off))
	}
	return t
}

func satAdd(a, b int64) int64 {
	c := a + b
	if (c > a) == (b > 0) {
		return c
	}
	if b > 0 {
		return 1<<63 - 1
	}
	return -1 << 63
}

func parseT(t string) (int64, bool) {
	t = strings.TrimPrefix(t, "t:")
	v, err := strconv.ParseInt(t, 10, 64)
	return v, err == nil
}

// Stats collected during exec and gen, written as JSON by main.
type RunStats struct {
	Ops       map[string]int `json:"ops"`
	Outcomes  map[string]int `json:"outcomes"`
	Cases     int            `json:"cases"`
	Lines     int            `json:"lines"`
	Nontriv   int            `json:"nontrivial_cases"`
	Skipped   int            `json:"skipped_timing"`
	Extra     map[string]int `json:"extra,omitempty"`
}

func NewRunStats() *RunStats {
	return &RunStats{Ops: map[string]int{}, Outcomes: map[string]int{}, Extra: map[string]int{}}
}

type LineWriter struct {
	f *os.File
	w *bufio.Writer
}

func CreateLW(path string) *LineWriter {
	f, err := os.Create(path)
	if err != nil {
		fatal(err)
	}
	return &LineWriter{f, bufio.NewWriterSize(f, 1<<16)}
}

func (lw *LineWriter) Line(s string) { lw.w.WriteString(s); lw.w.WriteByte('\n') }
func (lw *LineWriter) Linef(f string, a ...interface{}) {
	fmt.Fprintf(lw.w, f, a...)
	lw.w.WriteByte('\n')
}
func (lw *LineWriter) Flush() { lw.w.Flush() }
func (lw *LineWriter) Close() { lw.w.Flush(); lw.f.Close() }

func fatal(err interface{}) {
	fmt.Fprintln(os.Stderr, "harness:", err)
	os.Exit(2)
}
