package main

import (
	"bytes"
	"context"
	"encoding/json"
	"errors"
	"fmt"
	"io/ioutil"
	"math/rand"
	"net/http"
	"os"
	"reflect"
	"sort"
	"strings"
	"sync/atomic"
	"unicode"

	"github.com/vipnode/vipnode/v2/jsonrpc2"
	"github.com/vipnode/vipnode/v2/pool"
	"github.com/vipnode/vipnode/v2/pool/payment"
	"github.com/vipnode/vipnode/v2/pool/status"
	"github.com/vipnode/vipnode/v2/pool/store/memory"
)

func init() { components["srv"] = func() Component { return &srvComp{} } }

// ---------------------------------------------------------------- instrumented receivers

var invocations int64

type ReqT struct {
	Name  string `json:"name"`
	Count int    `json:"count"`
}

type RecvA struct{}

func (RecvA) Ping() string                                   { atomic.AddInt64(&invocations, 1); return "pong" }
func (RecvA) Echo(ctx context.Context, s string) (string, error) { atomic.AddInt64(&invocations, 1); return s, nil }
func (RecvA) Add(a int, b int64) int64                       { atomic.AddInt64(&invocations, 1); return int64(a) + b }
func (RecvA) Flag(b bool) bool                               { atomic.AddInt64(&invocations, 1); return b }
func (RecvA) Signed(ctx context.Context, sig string, id string, nonce int64, req ReqT) (*ReqT, error) {
	atomic.AddInt64(&invocations, 1)
	return &req, nil
}
func (RecvA) Opt(s string, p *string) string { atomic.AddInt64(&invocations, 1); return s }
func (RecvA) Boom(s string) error            { atomic.AddInt64(&invocations, 1); return errors.New("boom") }
func (RecvA) CloseThing(x string) error      { atomic.AddInt64(&invocations, 1); return nil } // helper method of the same object
func (RecvA) hidden(x string) string         { atomic.AddInt64(&invocations, 1); return x }   // unexported

// names that contain, start with or end in another method's name: an allow-list entry admits exactly its own name
func (RecvA) Reecho(s string) string  { atomic.AddInt64(&invocations, 1); return s }
func (RecvA) PingAll() string         { atomic.AddInt64(&invocations, 1); return "all" }

type RecvB struct{}

func (*RecvB) Status() map[string]int                  { atomic.AddInt64(&invocations, 1); return map[string]int{"a": 1} }
func (*RecvB) Account(ctx context.Context, w string) (*ReqT, error) {
	atomic.AddInt64(&invocations, 1)
	return &ReqT{Name: w}, nil
}
func (*RecvB) OptObj(r *ReqT) int { atomic.AddInt64(&invocations, 1); return 1 }
func (*RecvB) Restatus() int       { atomic.AddInt64(&invocations, 1); return 2 }

// trailing parameters whose zero value is nil but which are not optional: a missing one is a malformed call
func (*RecvB) Tag(name string, labels []string) int                     { atomic.AddInt64(&invocations, 1); return len(labels) }
func (*RecvB) Annotate(name string, notes map[string]interface{}) int   { atomic.AddInt64(&invocations, 1); return len(notes) }
func (*RecvB) Attach(name string, blob interface{}) int                 { atomic.AddInt64(&invocations, 1); return 1 }
func (*RecvB) Drop(labels []string) int                                 { atomic.AddInt64(&invocations, 1); return len(labels) }
func (*RecvB) StatusAll() int      { atomic.AddInt64(&invocations, 1); return 3 }

var srvReceivers = map[string]interface{}{"A": RecvA{}, "pA": &RecvA{}, "B": &RecvB{}}

func goTypeTok(t reflect.Type) string {
	switch t.Kind() {
	case reflect.String:
		return "str"
	case reflect.Int, reflect.Int64:
		return "int"
	case reflect.Bool:
		return "bool"
	case reflect.Struct:
		return "obj"
	case reflect.Ptr:
		return "p" + goTypeTok(t.Elem())
	case reflect.Slice:
		return "slice"
	case reflect.Map:
		return "anymap"
	case reflect.Interface:
		return "any"
	}
	return "obj" // anything else (interfaces, maps, slices) only ever appears on methods that are not exposed
}

// methodTable renders the receiver's method set as the registry's own reflection sees it.
func methodTable(recv interface{}) []string {
	ms, err := jsonrpc2.Methods(recv)
	if err != nil {
		fatal(err)
	}
	var out []string
	for name, m := range ms {
		var ts []string
		for _, t := range m.ArgTypes {
			ts = append(ts, goTypeTok(t))
		}
		if name == "Boom" {
			name += "!"
		}
		out = append(out, name+":"+strings.Join(ts, "."))
	}
	sort.Strings(out)
	return out
}

type srvComp struct {
	srv *jsonrpc2.Server
}

func (c *srvComp) Close()                                  {}
func (c *srvComp) Reset(opts map[string]string, base int64) { c.srv = &jsonrpc2.Server{} }

var jsonOfKind = map[string]string{"n": "null", "s": `"text"`, "i": "42", "f": "1.5", "b": "true", "a": `["x"]`,
	"o": `{"name":"n","count":3,"extra":true}`, "ob": `{"name":17,"payout":17,"block_number":"x","num":"x","num_hosts":"x","kind":5}`}

func renderParams(tok string) (json.RawMessage, bool) {
	switch tok {
	case "absent":
		return nil, false
	case "null":
		return json.RawMessage("null"), true
	case "nonarray":
		return json.RawMessage(`{"a":1}`), true
	case "[]":
		return json.RawMessage("[]"), true
	}
	var parts []string
	for _, k := range strings.Split(tok, ".") {
		parts = append(parts, jsonOfKind[k])
	}
	return json.RawMessage("[" + strings.Join(parts, ",") + "]"), true
}

func replyClass(resp *jsonrpc2.Message) string {
	if resp == nil || resp.Response == nil {
		return "noreply"
	}
	if resp.Response.Error == nil {
		return "result"
	}
	switch resp.Response.Error.Code {
	case jsonrpc2.ErrCodeMethodNotFound:
		return "err MethodNotFound"
	case jsonrpc2.ErrCodeInvalidParams:
		return "err InvalidParams"
	case jsonrpc2.ErrCodeInternal:
		return "err Internal"
	case jsonrpc2.ErrCodeInvalidRequest:
		return "err InvalidRequest"
	case jsonrpc2.ErrCodeParse:
		return "err Parse"
	}
	return fmt.Sprintf("err Code%d", resp.Response.Error.Code)
}

func (c *srvComp) Exec(t []string) (extra []string, out string, eff bool) {
	switch t[0] {
	case "reg":
		recvName, _ := FindStr("recv", t)
		recv := srvReceivers[recvName]
		allow, _ := FindArg("allow", t)
		var err error
		if len(allow) == 0 {
			err = c.srv.Register(Untok(t[1]), recv)
		} else {
			err = c.srv.Register(Untok(t[1]), recv, allow...)
		}
		if err != nil {
			return nil, "err " + strings.Replace(err.Error(), " ", "_", -1), false
		}
		// the method table the model registers is what the code's own reflection reports
		return []string{"methods=" + strings.Join(methodTable(recv), ",")}, "ok", true
	case "call":
		params, has := renderParams(t[2])
		msg := &jsonrpc2.Message{ID: json.RawMessage("7"), Version: "2.0", Request: &jsonrpc2.Request{Method: Untok(t[1])}}
		if has {
			msg.Request.Params = params
		}
		before := atomic.LoadInt64(&invocations)
		resp := c.srv.Handle(context.Background(), msg)
		inv := atomic.LoadInt64(&invocations) - before
		o := fmt.Sprintf("%s inv=%d", replyClass(resp), inv)
		if resp != nil && string(resp.ID) != "7" {
			o += " wrong-id"
		}
		return nil, o, inv > 0
	case "notrequest":
		before := atomic.LoadInt64(&invocations)
		resp := c.srv.Handle(context.Background(), &jsonrpc2.Message{ID: json.RawMessage("8"), Version: "2.0"})
		return nil, fmt.Sprintf("%s inv=%d", replyClass(resp), atomic.LoadInt64(&invocations)-before), false
	}
	return nil, "bad-op", false
}

func (c *srvComp) Gen(r *rand.Rand, idx int, emit func(string)) {
	recv := pick(r, []string{"A", "pA", "B"})
	pre := pick(r, []string{"a_", "vipnode_", ""})
	allowSets := map[string][][]string{
		"A":  {{}, {"ping", "echo"}, {"add", "closeThing", "nosuch"}, {"Ping"}, {"signed", "opt", "boom", "flag"}},
		"pA": {{}, {"ping", "echo"}, {"signed"}},
		"B":  {{}, {"status"}, {"account", "optObj"}},
	}
	allow := allowSets[recv][r.Intn(len(allowSets[recv]))]
	emit(fmt.Sprintf("reg %s recv=%s allow=%s", Tok(pre), recv, JoinC(allow)))
	names := []string{"ping", "echo", "add", "flag", "signed", "opt", "boom", "closeThing", "hidden", "status", "account", "optObj", "reecho", "pingAll", "restatus", "statusAll", "tag", "annotate", "attach", "drop"}
	own := map[string][]string{
		"A":  {"ping", "echo", "add", "flag", "signed", "opt", "boom", "closeThing", "reecho", "pingAll"},
		"pA": {"ping", "echo", "add", "flag", "signed", "opt", "boom", "closeThing", "reecho", "pingAll"},
		"B":  {"status", "account", "optObj", "restatus", "statusAll", "tag", "annotate", "attach", "drop"},
	}[recv]
	// parameter lists around each method's declared signature (exact, one short, one long, one wrongly typed, nulls)
	near := map[string][]string{
		"ping":       {"absent", "null", "[]", "s", "n"},
		"echo":       {"s", "n", "i", "absent", "[]", "s.s", "o", "null"},
		"add":        {"i.i", "i", "i.i.i", "i.f", "s.i", "n.n", "absent", "f.i", "i.n"},
		"flag":       {"b", "s", "i", "n", "b.b", "[]"},
		"signed":     {"s.s.i.o", "s.s.i.ob", "s.s.i.n", "s.s.i", "s.s.i.o.s", "s.s.f.o", "i.s.i.o", "s.s.i.a", "s.s.s.o", "absent", "null", "nonarray", "s.s.i.s"},
		"opt":        {"s", "s.s", "s.n", "s.i", "s.s.s", "[]", "n", "absent"},
		"boom":       {"s", "i", "[]", "s.s", "n"},
		"closeThing": {"s", "[]", "i"},
		"status":     {"absent", "[]", "s", "null"},
		"account":    {"s", "i", "[]", "s.s", "n", "absent"},
		"optObj":     {"o", "[]", "absent", "n", "ob", "s", "o.o", "null", "a"},
		"hidden":     {"s"},
		"reecho":     {"s", "[]", "s.s"},
		"pingAll":    {"absent", "[]", "s"},
		"restatus":   {"absent", "[]", "s"},
		"statusAll":  {"absent", "[]", "i"},
		"tag":        {"s.a", "s", "s.n", "[]", "absent", "s.a.s", "s.s", "s.o"},
		"annotate":   {"s.o", "s", "s.ob", "s.n", "absent", "s.a", "s.o.o"},
		"attach":     {"s.o", "s.s", "s.i", "s.a", "s.n", "s", "[]", "absent", "s.b.b"},
		"drop":       {"a", "[]", "absent", "null", "n", "s", "a.a"},
	}
	paramToks := []string{"absent", "null", "nonarray", "[]", "s", "i", "b", "n", "f", "a", "o", "ob", "s.s", "i.i", "s.i", "s.s.i.o"}
	for i := 0; i < 15+r.Intn(25); i++ {
		n := pick(r, names)
		if r.Intn(4) != 0 {
			n = pick(r, own)
		}
		full := pre + n
		switch r.Intn(14) {
		case 0:
			full = pre + strings.ToUpper(n[:1]) + n[1:] // the Go method name itself
		case 1:
			full = strings.ToUpper(full)
		case 2:
			full = n // without the prefix
		case 3:
			full = "other_" + n
		case 4:
			full = pre + n + "x"
		}
		ps := pick(r, near[n])
		if r.Intn(6) == 0 {
			ps = pick(r, paramToks)
		}
		emit(fmt.Sprintf("call %s %s", Tok(full), ps))
		if r.Intn(15) == 0 {
			emit("notrequest")
		}
	}
}

// ---------------------------------------------------------------- probing the real pool binary

// candidateRpcNames: every name one could hope to call on the objects behind the pool's RPC
// surface: exported methods by reflection (the helper methods included), known unexported ones,
// with both prefixes and three spellings.
func candidateRpcNames() []string {
	st := memory.New()
	recvs := []interface{}{pool.New(st, nil), &payment.PaymentService{}, &status.PoolStatus{}}
	set := map[string]bool{}
	add := func(m string) {
		for _, pre := range []string{"vipnode_", "pool_", ""} {
			lower := string(unicode.ToLower(rune(m[0]))) + m[1:]
			upper := string(unicode.ToUpper(rune(m[0]))) + m[1:]
			set[pre+lower] = true
			set[pre+upper] = true
			set[pre+strings.ToUpper(m)] = true
		}
	}
	for _, rc := range recvs {
		t := reflect.TypeOf(rc)
		for i := 0; i < t.NumMethod(); i++ {
			add(t.Method(i).Name)
		}
	}
	for _, m := range []string{"verify", "connect", "requestHosts", "disconnectPeers", "disconnect", "withdraw", "whitelist", "status", "stats", "close", "store"} {
		add(m)
	}
	var out []string
	for k := range set {
		out = append(out, k)
	}
	sort.Strings(out)
	return out
}

// probeServed asks a running pool (HTTP endpoint) which candidate names it serves.
func probeServed(addr string) ([]string, error) {
	var served []string
	for _, name := range candidateRpcNames() {
		body, _ := json.Marshal(map[string]interface{}{"jsonrpc": "2.0", "id": 1, "method": name})
		resp, err := http.Post("http://"+addr+"/", "application/json", bytes.NewReader(body))
		if err != nil {
			return nil, err
		}
		raw, _ := ioutil.ReadAll(resp.Body)
		resp.Body.Close()
		var msg jsonrpc2.Message
		if err := json.Unmarshal(raw, &msg); err != nil || msg.Response == nil {
			return nil, fmt.Errorf("unparsable reply for %s: %q", name, string(raw))
		}
		if msg.Response.Error != nil && msg.Response.Error.Code == jsonrpc2.ErrCodeMethodNotFound {
			continue
		}
		served = append(served, name)
	}
	return served, nil
}

func init() {
	factWriters = append(factWriters, func(b *strings.Builder) {
		addr := os.Getenv("VERIF_POOL_ADDR")
		if addr == "" {
			fatal("facts: VERIF_POOL_ADDR (a running `vipnode pool --store=memory`) is required")
		}
		served, err := probeServed(addr)
		if err != nil {
			fatal(err)
		}
		fmt.Fprintf(b, "/-- RPC names the running pool binary answers with anything but method-not-found, out of %d candidates -/\n", len(candidateRpcNames()))
		fmt.Fprintf(b, "def servedRpc : List String := %s\n", leanStrList(served))
	})
}
