package main

import (
	"context"
	"fmt"
	"math/big"
	"math/rand"
	"strings"
	"sync"
	"sync/atomic"
	"time"

	"github.com/vipnode/vipnode/v2/pool"
	"github.com/vipnode/vipnode/v2/pool/balance"
	"github.com/vipnode/vipnode/v2/pool/payment"
	"github.com/vipnode/vipnode/v2/pool/store"
	"github.com/vipnode/vipnode/v2/request"
)

// sigStorm: many identities use the pool's signed endpoints at once.  Whether a request is honoured is a function of
// that request alone (C04): every correctly signed fresh request is accepted and every request whose parameters were
// altered after signing is refused, whatever else is being verified at the same moment.  Each worker owns one
// identity (its requests are sequential, its nonces increase); in every round it sends the genuine request and, at
// the same time, a copy with the same signature and nonce over altered parameters.
func (c *concComp) sigStorm(workers, rounds int) ([]string, string, bool) {
	st := openStore(c.driver)
	defer st.Close()
	mgr := balance.PayPerInterval(st, time.Minute, big.NewInt(1000))
	p := pool.New(st, mgr)
	pay := &payment.PaymentService{NonceStore: st, AccountStore: st, BalanceStore: st}
	ctx := context.Background()
	if workers > len(nodeIdents)+len(walletIdents) {
		workers = len(nodeIdents) + len(walletIdents)
	}
	for _, n := range nodeIdents {
		st.SetNode(store.Node{ID: store.NodeID(n.id), IsHost: true, Kind: "geth", LastSeen: time.Now()})
	}
	var goodRefused, alteredAccepted, other int64
	var firstBad atomic.Value
	isSig := func(err error) bool {
		return err != nil && (strings.Contains(err.Error(), "signature") || strings.Contains(err.Error(), "recover"))
	}
	var wg sync.WaitGroup
	base := time.Now().UnixNano()
	for w := 0; w < workers; w++ {
		w := w
		wg.Add(1)
		go func() {
			defer wg.Done()
			for k := 0; k < rounds; k++ {
				nonce := base + int64(k)*1000 + int64(w)
				var genuine, altered func() error
				if w < len(nodeIdents) {
					who := nodeIdents[w]
					req := pool.UpdateRequest{BlockNumber: uint64(1000 + k)}
					bad := pool.UpdateRequest{BlockNumber: uint64(5000000 + k)}
					sig, _ := request.Sign(who.key, "vipnode_update", who.id, nonce, req)
					genuine = func() error { _, err := p.Update(ctx, sig, who.id, nonce, req); return err }
					altered = func() error { _, err := p.Update(ctx, sig, who.id, nonce, bad); return err }
				} else {
					who := walletIdents[w-len(nodeIdents)]
					node := nodeIdents[k%len(nodeIdents)].id
					other := nodeIdents[(k+1)%len(nodeIdents)].id
					sig, _ := request.Sign(who.key, "pool_addNode", who.id, nonce, node)
					genuine = func() error { return pay.AddNode(ctx, sig, who.id, nonce, node) }
					altered = func() error { return pay.AddNode(ctx, sig, who.id, nonce, other) }
				}
				var inner sync.WaitGroup
				var gerr, aerr error
				inner.Add(2)
				go func() { defer inner.Done(); aerr = altered() }()
				go func() { defer inner.Done(); gerr = genuine() }()
				inner.Wait()
				if aerr == nil {
					atomic.AddInt64(&alteredAccepted, 1)
					firstBad.CompareAndSwap(nil, fmt.Sprintf("worker-%d-round-%d-altered-accepted", w, k))
				} else if isSig(gerr) {
					atomic.AddInt64(&goodRefused, 1)
					firstBad.CompareAndSwap(nil, fmt.Sprintf("worker-%d-round-%d-genuine-refused:%s", w, k, strings.Replace(gerr.Error(), " ", "_", -1)))
				} else if gerr != nil {
					atomic.AddInt64(&other, 1)
					firstBad.CompareAndSwap(nil, fmt.Sprintf("worker-%d-round-%d-genuine-failed:%s", w, k, strings.Replace(gerr.Error(), " ", "_", -1)))
				}
			}
		}()
	}
	wg.Wait()
	out := fmt.Sprintf("ok goodrefused=%d alteredaccepted=%d other=%d", goodRefused, alteredAccepted, other)
	if fb := firstBad.Load(); fb != nil {
		out += " first=" + fb.(string)
	}
	return nil, out, true
}

// generator variant: only signature storms (C04)
type concSigVariant struct{ concComp }

func (v *concSigVariant) Prefix() string { return "conc" }
func (v *concSigVariant) Gen(r *rand.Rand, idx int, emit func(string)) {
	emit(fmt.Sprintf("sigstorm workers=%d rounds=%d", 6+r.Intn(7), 150+r.Intn(150)))
}

func init() { components["conc-sigs"] = func() Component { return &concSigVariant{} } }

// nodeRace: a host re-registers (SetNode with a new address) while its own keep-alive (UpdateNodePeers, with a long
// peer list so that it takes a while) is being processed.  Both are acknowledged; in either serial order the record
// ends up carrying the new address - a keep-alive only refreshes LastSeen and the block number.
func (c *concComp) nodeRace(rounds, npeers int) ([]string, string, bool) {
	s := openStore(c.driver)
	defer s.Close()
	peers := make([]string, npeers)
	for i := range peers {
		peers[i] = fmt.Sprintf("ghost%04d", i)
	}
	stale, failed := 0, 0
	first := ""
	for r := 0; r < rounds; r++ {
		id := store.NodeID(fmt.Sprintf("racer%d", r))
		old := fmt.Sprintf("enode://%s@203.0.113.7:30303", id)
		neu := fmt.Sprintf("enode://%s@198.51.100.%d:30303", id, 1+r%200)
		if err := s.SetNode(store.Node{ID: id, URI: old, IsHost: true, Kind: "geth", LastSeen: time.Now()}); err != nil {
			failed++
			continue
		}
		var wg sync.WaitGroup
		var e1, e2 error
		wg.Add(2)
		go func() { defer wg.Done(); _, e1 = s.UpdateNodePeers(id, peers, 7) }()
		go func() {
			defer wg.Done()
			time.Sleep(time.Duration(r%5) * 200 * time.Microsecond)
			e2 = s.SetNode(store.Node{ID: id, URI: neu, IsHost: true, Kind: "parity", LastSeen: time.Now()})
		}()
		wg.Wait()
		if e1 != nil || e2 != nil {
			failed++
			continue
		}
		n, err := s.GetNode(id)
		if err != nil || n.URI != neu || n.Kind != "parity" {
			stale++
			if first == "" && n != nil {
				first = fmt.Sprintf("round-%d-stored-%s-%s", r, strings.Replace(n.URI[strings.Index(n.URI, "@")+1:], " ", "_", -1), n.Kind)
			}
		}
	}
	out := fmt.Sprintf("ok rounds-with-stale-record=%d failed=%d", stale, failed)
	if first != "" {
		out += " first=" + first
	}
	return nil, out, true
}

type concNodeRaceVariant struct{ concComp }

func (v *concNodeRaceVariant) Prefix() string { return "conc" }
func (v *concNodeRaceVariant) Gen(r *rand.Rand, idx int, emit func(string)) {
	emit(fmt.Sprintf("noderace rounds=%d peers=%d", 60+r.Intn(60), []int{200, 800, 2000}[r.Intn(3)]))
}

func init() { components["conc-noderace"] = func() Component { return &concNodeRaceVariant{} } }

// billRace: several light clients that have been away for different lengths of time send their keep-alive at the same
// moment through one balance manager.  Each is charged its own elapsed time per peer and the host is credited the
// sum, whatever the interleaving (the manager keeps no per-request state).
func (c *concComp) billRace(rounds int, seed int64) ([]string, string, bool) {
	st := openStore(c.driver)
	defer st.Close()
	T := time.Now().Add(time.Hour)
	mgr := balance.PayPerInterval(st, time.Minute, big.NewInt(1000))
	mgr.VerifSetNow(func() time.Time { return T })
	r := rand.New(rand.NewSource(seed))
	nonzero, wrong, failed := 0, 0, 0
	first := ""
	for k := 0; k < rounds; k++ {
		host := store.Node{ID: store.NodeID(fmt.Sprintf("bh%d", k)), IsHost: true, Kind: "geth", LastSeen: time.Now()}
		if err := st.SetNode(host); err != nil {
			failed++
			continue
		}
		n := 2 + r.Intn(3)
		cl := make([]store.Node, n)
		mins := make([]int64, n)
		for i := range cl {
			mins[i] = int64(1 + i*3 + r.Intn(3))
			cl[i] = store.Node{ID: store.NodeID(fmt.Sprintf("bc%d-%d", k, i)), Kind: "geth", LastSeen: T.Add(-time.Duration(mins[i]) * time.Minute)}
			st.SetNode(cl[i])
		}
		var wg sync.WaitGroup
		errs := make([]error, n)
		start := make(chan struct{})
		for i := range cl {
			i := i
			wg.Add(1)
			go func() {
				defer wg.Done()
				<-start
				_, errs[i] = mgr.OnUpdate(cl[i], []store.Node{host})
			}()
		}
		close(start)
		wg.Wait()
		sum := new(big.Int)
		hb, _ := st.GetNodeBalance(host.ID)
		sum.Add(sum, &hb.Credit)
		bad := false
		for i := range cl {
			if errs[i] != nil {
				failed++
			}
			b, _ := st.GetNodeBalance(cl[i].ID)
			sum.Add(sum, &b.Credit)
			if b.Credit.Cmp(big.NewInt(-1000*mins[i])) != 0 {
				bad = true
				if first == "" {
					first = fmt.Sprintf("round-%d-client-away-%d-min-charged-%s", k, mins[i], b.Credit.String())
				}
			}
		}
		if bad {
			wrong++
		}
		if sum.Sign() != 0 {
			nonzero++
		}
	}
	out := fmt.Sprintf("ok rounds-nonzero-sum=%d rounds-wrong-charge=%d failed=%d", nonzero, wrong, failed)
	if first != "" {
		out += " first=" + first
	}
	return nil, out, true
}
