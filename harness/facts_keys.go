package main

import (
	"fmt"
	"go/ast"
	"go/parser"
	"go/token"
	"os"
	"sort"
	"strconv"
	"strings"
)

// Fact: the key spaces of the badger driver, read off its source on every run - every string literal starting with
// `vip:` in the non-test files of pool/store/badger (the `%s` of a key format stripped).
func init() {
	factWriters = append(factWriters, func(b *strings.Builder) {
		repo := os.Getenv("VERIF_REPO")
		if repo == "" {
			repo = "/repo"
		}
		fset := token.NewFileSet()
		pkgs, err := parser.ParseDir(fset, repo+"/pool/store/badger", func(fi os.FileInfo) bool {
			return !strings.HasSuffix(fi.Name(), "_test.go")
		}, 0)
		if err != nil {
			fatal(err)
		}
		set := map[string]bool{}
		for _, pkg := range pkgs {
			for _, f := range pkg.Files {
				ast.Inspect(f, func(n ast.Node) bool {
					if lit, ok := n.(*ast.BasicLit); ok && lit.Kind == token.STRING {
						if s, err := strconv.Unquote(lit.Value); err == nil && strings.HasPrefix(s, "vip:") {
							set[strings.TrimSuffix(s, "%s")] = true
						}
					}
					return true
				})
			}
		}
		var keys []string
		for k := range set {
			keys = append(keys, strconv.Quote(k))
		}
		sort.Strings(keys)
		b.WriteString("/-- key spaces of the badger driver: every string literal starting with `vip:` in pool/store/badger/*.go, the `%s` of the format stripped -/\n")
		fmt.Fprintf(b, "def badgerKeySpaces : List String := [%s]\n", strings.Join(keys, ", "))
	})
}
