package main

import (
	"errors"
	"context"
	"fmt"
	"math/big"
	"math/rand"
	"sort"
	"strconv"
	"strings"
	"sync"
	"sync/atomic"
	"time"

	"github.com/vipnode/vipnode/v2/ethnode"
	"github.com/vipnode/vipnode/v2/pool"
	"github.com/vipnode/vipnode/v2/pool/balance"
	"github.com/vipnode/vipnode/v2/pool/payment"
	"github.com/vipnode/vipnode/v2/pool/store"
	"github.com/vipnode/vipnode/v2/request"
)

// Component `conc` (C10, and the schedule clauses of C01, C05, C07): real goroutines against the real stores and the
// real pool.  Each op is a whole concurrent workload; what the model predicts is what every schedule must produce
// (the order-independent final state), so no schedule needs to be recorded.
func init() { components["conc"] = func() Component { return &concComp{} } }

type concComp struct{ driver string }

func (c *concComp) Close()                                  {}
func (c *concComp) Reset(opts map[string]string, base int64) { c.driver = opts["driver"] }

func (c *concComp) Exec(t []string) (extra []string, out string, eff bool) {
	get := func(k string) string { v, _ := FindStr(k, t); return v }
	atoi := func(k string) int { v, _ := strconv.Atoi(get(k)); return v }
	switch t[0] {
	case "balances":
		return c.balances(atoi("workers"), atoi("each"), int64(atoi("seed")))
	case "nonces":
		return c.nonces(atoi("workers"), atoi("rounds"))
	case "pool":
		return c.poolRun(atoi("clients"), atoi("hosts"), int64(atoi("seed")))
	case "withdraw":
		return c.withdraws(atoi("workers"), int64(atoi("credit")), int64(atoi("fee")), atoi("failfirst"), atoi("stagger"), int64(atoi("seed")), atoi("rounds"))
	case "samenode":
		return c.sameNode(atoi("minutes"))
	case "freshcredit":
		return c.freshCredit(atoi("rounds"), int64(atoi("seed")))
	case "linkrace":
		return c.linkRace(atoi("rounds"), int64(atoi("seed")))
	case "sigstorm":
		return c.sigStorm(atoi("workers"), atoi("rounds"))
	case "noderace":
		return c.nodeRace(atoi("rounds"), atoi("peers"))
	case "billrace":
		return c.billRace(atoi("rounds"), int64(atoi("seed")))
	}
	return nil, "bad-op", false
}

// balances: `workers` goroutines each add `each` random amounts to node balances; some nodes share a wallet, one node
// is linked to its wallet in the middle of the run (trial migration racing with credits).
func (c *concComp) balances(workers, each int, seed int64) ([]string, string, bool) {
	s := openStore(c.driver)
	defer s.Close()
	nodes := []string{"a", "b", "c", "d"}
	for _, n := range nodes {
		s.SetNode(store.Node{ID: store.NodeID(n)})
	}
	s.AddAccountNode("X", "a")
	s.AddAccountNode("X", "b") // a and b share wallet X; c is linked to Y during the run; d stays on trial
	var failed int64
	sums := make([]map[string]*big.Int, workers)
	var wg sync.WaitGroup
	for w := 0; w < workers; w++ {
		wg.Add(1)
		sums[w] = map[string]*big.Int{}
		go func(w int) {
			defer wg.Done()
			r := rand.New(rand.NewSource(seed*131 + int64(w)))
			for i := 0; i < each; i++ {
				n := nodes[r.Intn(len(nodes))]
				amt := big.NewInt(int64(r.Intn(2001) - 1000))
				if r.Intn(10) == 0 {
					amt.Lsh(amt, 70) // multi-word amounts
				}
				var err error
				target := n
				if r.Intn(5) == 0 {
					err = s.AddAccountBalance("X", amt)
					target = "a"
				} else {
					err = s.AddNodeBalance(store.NodeID(n), amt)
				}
				if err != nil {
					atomic.AddInt64(&failed, 1)
					continue
				}
				if sums[w][target] == nil {
					sums[w][target] = new(big.Int)
				}
				sums[w][target].Add(sums[w][target], amt)
				if w == 0 && i == each/2 {
					if err := s.AddAccountNode("Y", "c"); err != nil {
						atomic.AddInt64(&failed, 1)
					}
				}
			}
		}(w)
	}
	wg.Wait()
	// acknowledged deltas per final balance: a,b -> X ; c -> Y ; d -> trial of d
	acked := map[string]*big.Int{"X": new(big.Int), "Y": new(big.Int), "d": new(big.Int)}
	for _, m := range sums {
		for n, v := range m {
			k := map[string]string{"a": "X", "b": "X", "c": "Y", "d": "d"}[n]
			acked[k].Add(acked[k], v)
		}
	}
	bx, _ := s.GetAccountBalance("X")
	by, _ := s.GetAccountBalance("Y")
	bd, _ := s.GetNodeBalance("d")
	st, _ := s.Stats()
	x := []string{fmt.Sprintf("acked=X:%s,Y:%s,d:%s", acked["X"], acked["Y"], acked["d"]),
		fmt.Sprintf("got=X:%s,Y:%s,d:%s", bx.Credit.String(), by.Credit.String(), bd.Credit.String()), "total=" + st.TotalCredit.String()}
	return x, fmt.Sprintf("ok failed=%d", failed), true
}

// nonces: in each round `workers` goroutines submit the same (identity, nonce) at once.
func (c *concComp) nonces(workers, rounds int) ([]string, string, bool) {
	s := openStore(c.driver)
	defer s.Close()
	base := time.Now().UnixNano()
	multi, none, regress := 0, 0, 0
	for r := 0; r < rounds; r++ {
		var accepted int64
		var wg sync.WaitGroup
		start := make(chan struct{})
		// even rounds: every worker submits the same nonce (racing copies of one request); odd rounds: workers submit
		// distinct nonces (racing requests of one identity), after which the highest accepted one must be remembered
		n0 := base + int64(r)*1000
		var maxAcc int64
		for w := 0; w < workers; w++ {
			wg.Add(1)
			n := n0
			if r%2 == 1 {
				n = n0 + int64(w)
			}
			go func() {
				defer wg.Done()
				<-start
				if err := s.CheckAndSaveNonce("ident", n); err == nil {
					atomic.AddInt64(&accepted, 1)
					for {
						m := atomic.LoadInt64(&maxAcc)
						if n <= m || atomic.CompareAndSwapInt64(&maxAcc, m, n) {
							break
						}
					}
				}
			}()
		}
		close(start)
		wg.Wait()
		if r%2 == 0 && accepted > 1 {
			multi++
		}
		if accepted == 0 {
			none++
		}
		if r%2 == 1 && maxAcc > 0 && s.CheckAndSaveNonce("ident", maxAcc) == nil {
			regress++ // the highest honoured nonce was honoured again: the table moved backwards
		}
	}
	return nil, fmt.Sprintf("ok rounds-with-duplicates=%d rounds-with-none=%d rounds-with-regress=%d", multi, none, regress), true
}

// poolRun: hosts and clients registered sequentially; then every client sends one signed keep-alive, hosts send theirs,
// and the hosts' wallets are linked — all at once.  Every schedule must end in the same balances.
func (c *concComp) poolRun(clients, hosts int, seed int64) ([]string, string, bool) {
	st := openStore(c.driver)
	defer st.Close()
	T := time.Now().Add(10 * time.Minute)
	mgr := balance.PayPerInterval(st, time.Minute, big.NewInt(1000))
	mgr.VerifSetNow(func() time.Time { return T })
	p := pool.New(st, mgr)
	pay := &payment.PaymentService{NonceStore: st, AccountStore: st, BalanceStore: st}
	ctx := context.Background()
	nonce := time.Now().UnixNano()
	next := func() int64 { return atomic.AddInt64(&nonce, 1000) }
	if hosts > 4 {
		hosts = 4
	}
	if clients > 4 {
		clients = 4
	}
	hostIDs := nodeIdents[:hosts]
	clientIDs := nodeIdents[4 : 4+clients]
	r := rand.New(rand.NewSource(seed))
	// sequential set-up: register everybody, make every client track some hosts (zero elapsed: nothing billed)
	for _, h := range hostIDs {
		st.SetNode(store.Node{ID: store.NodeID(h.id), IsHost: true, Kind: "geth", LastSeen: time.Now()})
	}
	peersOf := map[string][]string{}
	for _, cl := range clientIDs {
		last := T.Add(-time.Duration(1+r.Intn(9)) * time.Minute)
		st.SetNode(store.Node{ID: store.NodeID(cl.id), Kind: "geth", LastSeen: last})
		var ps []string
		for _, h := range hostIDs {
			if r.Intn(3) > 0 {
				ps = append(ps, h.id)
			}
		}
		peersOf[cl.id] = ps
	}
	var wg sync.WaitGroup
	var failures int64
	run := func(f func() error) {
		wg.Add(1)
		go func() {
			defer wg.Done()
			if err := f(); err != nil {
				atomic.AddInt64(&failures, 1)
			}
		}()
	}
	for _, cl := range clientIDs {
		cl := cl
		run(func() error {
			req := pool.UpdateRequest{BlockNumber: 5}
			for _, pid := range peersOf[cl.id] {
				req.PeerInfo = append(req.PeerInfo, ethnode.PeerInfo{ID: pid})
			}
			n := next()
			sig, _ := request.Sign(cl.key, "vipnode_update", cl.id, n, req)
			_, err := p.Update(ctx, sig, cl.id, n, req)
			return err
		})
	}
	for i, h := range hostIDs {
		h, w := h, walletIdents[i] // one wallet per host: requests of one identity are never concurrent
		run(func() error {
			req := pool.UpdateRequest{BlockNumber: 9}
			n := next()
			sig, _ := request.Sign(h.key, "vipnode_update", h.id, n, req)
			_, err := p.Update(ctx, sig, h.id, n, req)
			return err
		})
		run(func() error {
			n := next()
			sig, _ := request.Sign(w.key, "pool_addNode", w.id, n, h.id)
			return pay.AddNode(ctx, sig, w.id, n, h.id)
		})
	}
	wg.Wait()
	// what every schedule must produce: each client charged elapsed*price/interval per tracked host, hosts credited
	var items []string
	for _, cl := range clientIDs {
		b, _ := st.GetNodeBalance(store.NodeID(cl.id))
		items = append(items, cl.name+"="+b.Credit.String())
	}
	for i := range walletIdents {
		b, _ := st.GetAccountBalance(store.Account(walletIdents[i].id))
		items = append(items, walletIdents[i].name+"="+b.Credit.String())
	}
	stt, _ := st.Stats()
	sort.Strings(items)
	// inputs for the model: per client its elapsed minutes and tracked hosts; host i earns into wallet i%2
	var spec []string
	for _, cl := range clientIDs {
		n, _ := st.GetNode(store.NodeID(cl.id))
		_ = n
		var hs []string
		for _, pid := range peersOf[cl.id] {
			hs = append(hs, canon(pid))
		}
		// elapsed is T - the preset LastSeen; recover it from the billed amount's inputs deterministically
		spec = append(spec, cl.name+":"+strings.Join(hs, "+"))
	}
	elapsed := []string{}
	r2 := rand.New(rand.NewSource(seed))
	for range clientIDs {
		elapsed = append(elapsed, strconv.Itoa(1+r2.Intn(9)))
		for range hostIDs {
			r2.Intn(3)
		}
	}
	x := []string{"spec=" + strings.Join(spec, ","), "minutes=" + strings.Join(elapsed, ","), "got=" + strings.Join(items, ","), "total=" + stt.TotalCredit.String()}
	return x, fmt.Sprintf("ok failed=%d", failures), true
}

// withdraws: `workers` concurrent withdrawals of one wallet holding `credit`; the minimum is 1 so that an emptied wallet
// refuses further withdrawals.
func (c *concComp) withdraws(workers int, credit, fee int64, failFirst int, staggerUs int, seed int64, rounds int) ([]string, string, bool) {
	if rounds < 1 {
		rounds = 1
	}
	var refusedL []string
	succ, maxIn := int64(0), int64(0)
	paidT, leftT := new(big.Int), new(big.Int)
	for k := 0; k < rounds; k++ {
		ok, refused, paid, left, mi := c.withdrawRound(workers, credit, fee, failFirst, staggerUs, seed+int64(k)*7919)
		refusedL = append(refusedL, strconv.FormatInt(refused, 10))
		succ += ok
		paidT.Add(paidT, paid)
		leftT.Add(leftT, left)
		if mi > maxIn {
			maxIn = mi
		}
	}
	return []string{"refused=" + strings.Join(refusedL, ",")}, fmt.Sprintf("ok successes=%d paid=%s left=%s maxinflight=%d", succ, paidT.String(), leftT.String(), maxIn), true
}

func (c *concComp) withdrawRound(workers int, credit, fee int64, failFirst int, staggerUs int, seed int64) (int64, int64, *big.Int, *big.Int, int64) {
	st := openStore(c.driver)
	defer st.Close()
	w := walletIdents[0]
	st.AddAccountBalance(store.Account(w.id), big.NewInt(credit))
	var mu sync.Mutex
	paid := new(big.Int)
	calls := 0
	var inflight, maxInflight int64
	pay := &payment.PaymentService{NonceStore: st, AccountStore: st, BalanceStore: st, WithdrawMin: big.NewInt(1),
		WithdrawFee: func(a *big.Int) *big.Int { return a.Sub(a, big.NewInt(fee)) },
		Settle: func(account store.Account, amount *big.Int, newBalance *big.Int) (string, error) {
			// settlements of one wallet must never overlap: count how many are in flight (the handler itself does
			// not serialise them)
			n := atomic.AddInt64(&inflight, 1)
			defer atomic.AddInt64(&inflight, -1)
			for {
				m := atomic.LoadInt64(&maxInflight)
				if n <= m || atomic.CompareAndSwapInt64(&maxInflight, m, n) {
					break
				}
			}
			mu.Lock()
			calls++
			k := calls
			mu.Unlock()
			time.Sleep(3 * time.Millisecond) // a slow settlement widens the window
			if k <= failFirst {
				return "", errors.New("settlement failed")
			}
			mu.Lock()
			paid.Add(paid, amount)
			mu.Unlock()
			return "tx", nil
		}}
	nonce := time.Now().UnixNano()
	r := rand.New(rand.NewSource(seed))
	var ok, refused int64
	var wg sync.WaitGroup
	start := make(chan struct{})
	// arrival times in nonce order (a request overtaken by a later nonce is refused at authentication and never
	// reaches the withdrawal proper)
	delays := make([]int, workers)
	for i := range delays {
		if staggerUs > 0 {
			delays[i] = r.Intn(staggerUs)
		}
	}
	sort.Ints(delays)
	for i := 0; i < workers; i++ {
		n := nonce + int64(i)*1000
		// arrivals are spread over a few settlement durations, so that some requests arrive while an earlier one
		// is settling, some while others are already queued, and some after a settlement has just finished
		delay := time.Duration(delays[i]) * time.Microsecond
		sig, _ := request.Sign(w.key, "pool_withdraw", w.id, n)
		wg.Add(1)
		go func() {
			defer wg.Done()
			<-start
			time.Sleep(delay)
			err := pay.Withdraw(context.Background(), sig, w.id, n)
			if err == nil {
				atomic.AddInt64(&ok, 1)
			} else if _, isVerify := err.(pool.VerifyFailedError); isVerify {
				// overtaken by a request with a later nonce: refused before it reaches the withdrawal proper
				atomic.AddInt64(&refused, 1)
			}
		}()
	}
	close(start)
	wg.Wait()
	b, _ := st.GetAccountBalance(store.Account(w.id))
	return ok, refused, paid, new(big.Int).Set(&b.Credit), maxInflight
}

func (c *concComp) Gen(r *rand.Rand, idx int, emit func(string)) { c.gen(r, idx, emit, true) }

func (c *concComp) gen(r *rand.Rand, idx int, emit func(string), sameNode bool) {
	switch idx % 10 {
	case 5:
		emit(fmt.Sprintf("noderace rounds=%d peers=%d", 60+r.Intn(60), []int{200, 800, 2000}[r.Intn(3)]))
	case 0:
		emit(fmt.Sprintf("balances workers=%d each=%d seed=%d", 2+r.Intn(7), 20+r.Intn(60), r.Intn(1000)))
	case 1, 6:
		emit(fmt.Sprintf("nonces workers=%d rounds=%d", 6+r.Intn(11), 300+r.Intn(300)))
	case 2:
		emit(fmt.Sprintf("pool clients=%d hosts=%d seed=%d", 1+r.Intn(4), 1+r.Intn(4), r.Intn(1000)))
		emit(fmt.Sprintf("billrace rounds=%d seed=%d", 150+r.Intn(150), r.Intn(1000)))
	case 4:
		emit(fmt.Sprintf("freshcredit rounds=%d seed=%d", 400+r.Intn(400), r.Intn(1000)))
	case 8:
		emit(fmt.Sprintf("linkrace rounds=%d seed=%d", 100+r.Intn(100), r.Intn(1000)))
	case 7:
		if sameNode {
			emit(fmt.Sprintf("samenode minutes=%d", 1+r.Intn(9)))
			return
		}
		fallthrough
	case 9:
		emit(fmt.Sprintf("sigstorm workers=%d rounds=%d", 6+r.Intn(7), 100+r.Intn(100)))
	default: // 3
		emit(fmt.Sprintf("withdraw workers=%d credit=%d fee=%d failfirst=%d stagger=%d seed=%d rounds=%d", 3+r.Intn(10), 1000+r.Intn(9000), r.Intn(200), r.Intn(3), []int{0, 4000, 9000, 15000}[r.Intn(4)], r.Intn(1000), 12+r.Intn(12)))
	}
}

// barrierStore makes two requests of one node overlap deterministically: both read the node record before either
// refreshes it (the schedule the single-request-per-node assumption of C10 excludes).
type barrierStore struct {
	store.Store
	mu      sync.Mutex
	waiting int
	release chan struct{}
	target  store.NodeID
}

func (b *barrierStore) GetNode(id store.NodeID) (*store.Node, error) {
	n, err := b.Store.GetNode(id)
	if id != b.target {
		return n, err
	}
	b.mu.Lock()
	b.waiting++
	if b.waiting == 2 {
		close(b.release)
	}
	ch := b.release
	b.mu.Unlock()
	select {
	case <-ch:
	case <-time.After(2 * time.Second):
	}
	return n, err
}

// sameNode: two keep-alives of the same client in flight at once; a serial execution bills the elapsed stretch once.
func (c *concComp) sameNode(minutes int) ([]string, string, bool) {
	inner := openStore(c.driver)
	defer inner.Close()
	cl, h := nodeIdents[4], nodeIdents[0]
	bs := &barrierStore{Store: inner, release: make(chan struct{}), target: store.NodeID(cl.id)}
	T := time.Now().Add(time.Hour)
	mgr := balance.PayPerInterval(inner, time.Minute, big.NewInt(1000))
	mgr.VerifSetNow(func() time.Time { return T })
	p := pool.New(bs, mgr)
	inner.SetNode(store.Node{ID: store.NodeID(h.id), IsHost: true, LastSeen: time.Now()})
	inner.SetNode(store.Node{ID: store.NodeID(cl.id), LastSeen: T.Add(-time.Duration(minutes) * time.Minute)})
	nonce := time.Now().UnixNano()
	var wg sync.WaitGroup
	for i := 0; i < 2; i++ {
		n := nonce + int64(i)*1000
		wg.Add(1)
		go func() {
			defer wg.Done()
			req := pool.UpdateRequest{PeerInfo: []ethnode.PeerInfo{{ID: h.id}}}
			sig, _ := request.Sign(cl.key, "vipnode_update", cl.id, n, req)
			p.Update(context.Background(), sig, cl.id, n, req)
		}()
		// the request with the lower nonce must have passed verification (it is parked at the barrier) before the
		// second one is sent, otherwise the nonce check refuses one of them
		for k := 0; k < 2000 && i == 0; k++ {
			bs.mu.Lock()
			w := bs.waiting
			bs.mu.Unlock()
			if w >= 1 {
				break
			}
			time.Sleep(200 * time.Microsecond)
		}
	}
	wg.Wait()
	b, _ := inner.GetNodeBalance(store.NodeID(cl.id))
	return nil, "ok billed=" + new(big.Int).Neg(&b.Credit).String(), true
}


// generator variant without the same-node overlap (used by the properties whose quantifier does not include it)
type concCoreVariant struct{ concComp }

func (v *concCoreVariant) Prefix() string { return "conc" }
func (v *concCoreVariant) Gen(r *rand.Rand, idx int, emit func(string)) { v.concComp.gen(r, idx, emit, false) }

func init() { components["conc-core"] = func() Component { return &concCoreVariant{} } }


// freshCredit: the first credits a node ever receives (no balance record yet) race with the node's own keep-alives and
// re-registrations, which rewrite the node record those credit transactions read.
func (c *concComp) freshCredit(rounds int, seed int64) ([]string, string, bool) {
	s := openStore(c.driver)
	defer s.Close()
	r := rand.New(rand.NewSource(seed))
	var failed int64
	var acked, got []string
	total := new(big.Int)
	for round := 0; round < rounds; round++ {
		id := store.NodeID(fmt.Sprintf("f%d", round))
		s.SetNode(store.Node{ID: id, IsHost: true})
		stop := make(chan struct{})
		var bg sync.WaitGroup
		for k := 0; k < 2; k++ {
			bg.Add(1)
			go func(k int) {
				defer bg.Done()
				for {
					select {
					case <-stop:
						return
					default:
					}
					if k == 0 {
						s.UpdateNodePeers(id, nil, uint64(round))
					} else {
						s.SetNode(store.Node{ID: id, IsHost: true, BlockNumber: uint64(round)})
					}
				}
			}(k)
		}
		sum := new(big.Int)
		var mu sync.Mutex
		var wg sync.WaitGroup
		for k := 0; k < 3; k++ {
			amt := big.NewInt(int64(1 + r.Intn(1000)))
			wg.Add(1)
			go func() {
				defer wg.Done()
				if err := s.AddNodeBalance(id, amt); err != nil {
					atomic.AddInt64(&failed, 1)
					return
				}
				mu.Lock()
				sum.Add(sum, amt)
				mu.Unlock()
			}()
		}
		wg.Wait()
		close(stop)
		bg.Wait()
		b, _ := s.GetNodeBalance(id)
		acked = append(acked, fmt.Sprintf("%s:%s", id, sum))
		got = append(got, fmt.Sprintf("%s:%s", id, b.Credit.String()))
		total.Add(total, sum)
	}
	st, _ := s.Stats()
	_ = total
	return []string{"acked=" + strings.Join(acked, ","), "got=" + strings.Join(got, ","), "total=" + st.TotalCredit.String()}, fmt.Sprintf("ok failed=%d", failed), true
}


// linkRace: credits of a node race with the linking of that node to a wallet (the multi-key trial migration): every
// acknowledged credit must end up in the balance the node spends from, and no trial balance may survive the link.
func (c *concComp) linkRace(rounds int, seed int64) ([]string, string, bool) {
	s := openStore(c.driver)
	defer s.Close()
	r := rand.New(rand.NewSource(seed))
	var failed int64
	var acked, got []string
	for round := 0; round < rounds; round++ {
		id := store.NodeID(fmt.Sprintf("l%d", round))
		acct := store.Account(fmt.Sprintf("W%d", round))
		s.SetNode(store.Node{ID: id})
		s.AddNodeBalance(id, big.NewInt(100))
		sum := big.NewInt(100)
		var mu sync.Mutex
		var wg sync.WaitGroup
		start := make(chan struct{})
		for k := 0; k < 8; k++ {
			amt := big.NewInt(int64(1 + r.Intn(50)))
			wg.Add(1)
			go func() {
				defer wg.Done()
				<-start
				if err := s.AddNodeBalance(id, amt); err != nil {
					atomic.AddInt64(&failed, 1)
					return
				}
				mu.Lock()
				sum.Add(sum, amt)
				mu.Unlock()
			}()
		}
		wg.Add(1)
		go func() {
			defer wg.Done()
			<-start
			if err := s.AddAccountNode(acct, id); err != nil {
				atomic.AddInt64(&failed, 1)
			}
		}()
		close(start)
		wg.Wait()
		b, _ := s.GetNodeBalance(id)
		acked = append(acked, fmt.Sprintf("%s:%s", id, sum))
		got = append(got, fmt.Sprintf("%s:%s", id, b.Credit.String()))
	}
	st, _ := s.Stats()
	// every node was linked: no trial balance may be left, and the ledger total is the sum of the balances read back
	return []string{"acked=" + strings.Join(acked, ","), "got=" + strings.Join(got, ","), "total=" + st.TotalCredit.String(),
		fmt.Sprintf("trials=%d", st.NumTrialBalances)}, fmt.Sprintf("ok failed=%d", failed), true
}
