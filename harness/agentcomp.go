package main

import (
	"sync/atomic"
	"context"
	"errors"
	"fmt"
	"math/rand"
	"sort"
	"strconv"
	"strings"
	"sync"
	"time"

	"github.com/ethereum/go-ethereum/accounts/abi/bind"
	"github.com/ethereum/go-ethereum/rpc"
	"github.com/vipnode/vipnode/v2/agent"
	"github.com/vipnode/vipnode/v2/ethnode"
	"github.com/vipnode/vipnode/v2/jsonrpc2"
	"github.com/vipnode/vipnode/v2/pool"
	"github.com/vipnode/vipnode/v2/pool/store"
)

func init() {
	components["agent"] = func() Component { return &agentComp{} }
	components["agentlife"] = func() Component { return &agentLifeComp{} }
}

// ---------------------------------------------------------------- recording node, scripted pool

type recNode struct {
	mu      sync.Mutex
	ua      ethnode.UserAgent
	peers   []ethnode.PeerInfo
	calls   []string
	failAt  int // index (among recorded calls) that fails, -1 for none
	peerErr error
}

func (n *recNode) NodeRPC() *rpc.Client                 { return nil }
func (n *recNode) ContractBackend() bind.ContractBackend { return nil }
func (n *recNode) Kind() ethnode.NodeKind               { return n.ua.Kind }
func (n *recNode) UserAgent() ethnode.UserAgent         { return n.ua }
func (n *recNode) Enode(ctx context.Context) (string, error) {
	return "enode://" + nodeIdents[7].id + "@127.0.0.1:30303", nil
}
func (n *recNode) record(c string) error {
	n.mu.Lock()
	defer n.mu.Unlock()
	idx := len(n.calls)
	n.calls = append(n.calls, c)
	if idx == n.failAt {
		return errors.New("node call failed")
	}
	return nil
}
func (n *recNode) AddTrustedPeer(ctx context.Context, id string) error    { return n.record("at:" + id) }
func (n *recNode) RemoveTrustedPeer(ctx context.Context, id string) error { return n.record("rm:" + id) }
func (n *recNode) ConnectPeer(ctx context.Context, uri string) error     { return n.record("co:" + uri) }
func (n *recNode) DisconnectPeer(ctx context.Context, id string) error   { return n.record("dc:" + id) }
func (n *recNode) Peers(ctx context.Context) ([]ethnode.PeerInfo, error) {
	n.mu.Lock()
	defer n.mu.Unlock()
	return append([]ethnode.PeerInfo{}, n.peers...), n.peerErr
}
func (n *recNode) BlockNumber(ctx context.Context) (uint64, error) { return 7, nil }

type scriptPool struct {
	latencyNs int64 // every keep-alive takes this long to be answered
	mu          sync.Mutex
	connectErr  error
	connectWait time.Duration
	updateErr   error
	updateResp  pool.UpdateResponse
	peerErr     error
	peerResp    pool.PeerResponse
	peerReqs    []pool.PeerRequest
	updates     int
	failUpdates int // number of upcoming updates that fail
	hold        chan struct{} // when set: the next update signals `held` and waits for `hold` before answering
	held        chan struct{}
}

func (p *scriptPool) Host(ctx context.Context, req pool.HostRequest) (*pool.HostResponse, error) {
	return &pool.HostResponse{}, nil
}
func (p *scriptPool) Client(ctx context.Context, req pool.ClientRequest) (*pool.ClientResponse, error) {
	return &pool.ClientResponse{}, nil
}
func (p *scriptPool) Connect(ctx context.Context, req pool.ConnectRequest) (*pool.ConnectResponse, error) {
	if p.connectWait > 0 {
		time.Sleep(p.connectWait)
	}
	if p.connectErr != nil {
		return nil, p.connectErr
	}
	return &pool.ConnectResponse{PoolVersion: "script"}, nil
}
func (p *scriptPool) Update(ctx context.Context, req pool.UpdateRequest) (*pool.UpdateResponse, error) {
	p.mu.Lock()
	hold, held := p.hold, p.held
	p.hold, p.held = nil, nil
	p.mu.Unlock()
	if hold != nil {
		close(held)
		<-hold
	}
	if d := time.Duration(atomic.LoadInt64(&p.latencyNs)); d > 0 {
		time.Sleep(d) // a pool that takes its time to answer
	}
	p.mu.Lock()
	defer p.mu.Unlock()
	p.updates++
	if p.failUpdates > 0 {
		p.failUpdates--
		return nil, errors.New("scripted keep-alive failure")
	}
	if p.updateErr != nil {
		return nil, p.updateErr
	}
	r := p.updateResp
	r.InvalidPeers = append([]string{}, r.InvalidPeers...)
	r.ActivePeers = append([]string{}, r.ActivePeers...)
	if p.updates%2 == 1 {
		// an empty list arrives as nil when the pool omitted the field or sent null: it means the same
		if len(r.InvalidPeers) == 0 {
			r.InvalidPeers = nil
		}
		if len(r.ActivePeers) == 0 {
			r.ActivePeers = nil
		}
	}
	return &r, nil
}
func (p *scriptPool) Peer(ctx context.Context, req pool.PeerRequest) (*pool.PeerResponse, error) {
	p.mu.Lock()
	defer p.mu.Unlock()
	p.peerReqs = append(p.peerReqs, req)
	if p.peerErr != nil {
		return nil, p.peerErr
	}
	r := p.peerResp
	return &r, nil
}
func (p *scriptPool) Withdraw(ctx context.Context) error { return nil }

// ---------------------------------------------------------------- rounds (C18)

type agentComp struct {
	a    *agent.Agent
	node *recNode
	pool *scriptPool
}

func (c *agentComp) Close() {
	if c.a != nil {
		c.a.Stop()
		c.a = nil
	}
}
func (c *agentComp) Reset(opts map[string]string, base int64) { c.Close() }

// spec of a local peer: <name>/<form>/<addr>  form: id|enode ; addr: host:port text
func buildPeerInfo(spec string) ethnode.PeerInfo {
	f := strings.SplitN(spec, "/", 3)
	id := realID(f[0])
	pi := ethnode.PeerInfo{ID: id}
	if f[1] == "enode" && len(id) == 128 {
		pi = ethnode.PeerInfo{ID: "h-" + f[0], Enode: "enode://" + id + "@" + Untok(f[2])}
	}
	pi.Network.RemoteAddress = Untok(f[2])
	return pi
}

func renderURISpec(spec string) string {
	// <name>@<hostport> | <name> | enode://<name> | raw:<text>
	spec = Untok(spec)
	if strings.HasPrefix(spec, "raw:") {
		return spec[4:]
	}
	if strings.HasPrefix(spec, "bare:") {
		return realID(spec[5:])
	}
	if strings.HasPrefix(spec, "nohost:") {
		return "enode://" + realID(spec[7:])
	}
	i := strings.Index(spec, "@")
	if i < 0 {
		return realID(spec)
	}
	return "enode://" + realID(spec[:i]) + "@" + Untok(spec[i+1:])
}

func structuredLocal(pi ethnode.PeerInfo) string {
	id := pi.EnodeID()
	uri, err := ethnode.ParseNodeURI(pi.EnodeURI())
	if err != nil {
		return fmt.Sprintf("%s|~|0|%s", Tok(canon(id)), Tok(canon(pi.EnodeURI())))
	}
	return fmt.Sprintf("%s|%s|1|%s", Tok(canon(id)), Tok(uri.RemoteHost()), Tok(canon(uri.ID())))
}

func (c *agentComp) Exec(t []string) (extra []string, out string, eff bool) {
	get := func(k string) string { v, _ := FindStr(k, t); return v }
	switch t[0] {
	case "setup":
		c.Close()
		target, _ := strconv.Atoi(get("target"))
		c.node = &recNode{failAt: -1, ua: ethnode.UserAgent{Kind: ethnode.ParseNodeKind(get("kind")), IsFullNode: get("full") == "1"}}
		c.pool = &scriptPool{}
		// a quiet first round inside Start: the pool reports `target` active peers and nothing invalid
		for i := 0; i < target; i++ {
			c.pool.updateResp.ActivePeers = append(c.pool.updateResp.ActivePeers, "enode://quiet@10.9.9.9:30303")
		}
		c.a = &agent.Agent{EthNode: c.node, NumHosts: target, StrictPeers: get("strict") == "1", UpdateInterval: time.Hour}
		if err := c.a.Start(c.pool); err != nil {
			return nil, "err start:" + err.Error(), false
		}
		if len(c.node.calls) != 0 || len(c.pool.peerReqs) != 0 {
			return nil, "err noisy-start", false
		}
		return nil, "ok", true
	case "round":
		if c.a == nil {
			return nil, "bad-op", false
		}
		locals, _ := FindArg("local", t)
		actives, _ := FindArg("active", t)
		invalids, _ := FindArg("invalid", t)
		c.node.mu.Lock()
		c.node.peers, c.node.calls, c.node.failAt = nil, nil, -1
		if fa := get("failat"); fa != "" && fa != "-" {
			c.node.failAt, _ = strconv.Atoi(fa)
		}
		var L []string
		for _, sp := range locals {
			pi := buildPeerInfo(sp)
			c.node.peers = append(c.node.peers, pi)
			L = append(L, structuredLocal(pi))
		}
		c.node.mu.Unlock()
		c.pool.mu.Lock()
		c.pool.peerReqs = nil
		c.pool.updateErr, c.pool.peerErr = nil, nil
		c.pool.updateResp = pool.UpdateResponse{InvalidPeers: []string{}, ActivePeers: []string{}}
		var A, I []string
		for _, sp := range actives {
			u := renderURISpec(sp)
			c.pool.updateResp.ActivePeers = append(c.pool.updateResp.ActivePeers, u)
			if p, err := ethnode.ParseNodeURI(u); err != nil {
				A = append(A, "!")
			} else {
				A = append(A, Tok(canon(p.ID()))+"|"+Tok(p.RemoteHost()))
			}
		}
		for _, sp := range invalids {
			u := renderURISpec(sp)
			c.pool.updateResp.InvalidPeers = append(c.pool.updateResp.InvalidPeers, u)
			if p, err := ethnode.ParseNodeURI(u); err != nil {
				I = append(I, Tok(canon(u)))
			} else {
				I = append(I, Tok(canon(p.ID())))
			}
		}
		if get("update") != "ok" {
			c.pool.updateErr = errors.New("scripted update failure")
		}
		peer := get("peer")
		switch {
		case strings.HasPrefix(peer, "hosts:"):
			c.pool.peerResp = pool.PeerResponse{}
			for _, u := range strings.Split(peer[6:], ";") {
				if u != "" {
					c.pool.peerResp.Peers = append(c.pool.peerResp.Peers, store.Node{URI: renderURISpec(u)})
				}
			}
		case peer == "nopeers":
			c.pool.peerErr = &jsonrpc2.ErrResponse{Code: jsonrpc2.ErrCodeInternal, Message: "no available host nodes found after trying 3 nodes"}
		case peer == "nopeers2":
			c.pool.peerErr = &jsonrpc2.ErrResponse{Code: jsonrpc2.ErrCodeInternal, Message: "failed to call \"vipnode_whitelist\" on 2 hosts"}
		default:
			c.pool.peerErr = errors.New("connection reset")
		}
		c.pool.mu.Unlock()
		err := c.a.UpdatePeers(context.Background(), c.pool)
		result := "ok"
		if err != nil {
			msg := err.Error()
			switch {
			case strings.Contains(msg, "Failed during pool update request"):
				result = "updateFailed"
			case strings.Contains(msg, "Failed during pool peer request"):
				result = "peerFailed"
			case strings.Contains(msg, "failed to disconnect from invalid peers"):
				result = "disconnectErrors"
			default:
				result = "nodeCallFailed"
			}
		}
		c.node.mu.Lock()
		calls := canonSlice(c.node.calls)
		c.node.mu.Unlock()
		pr := "none"
		c.pool.mu.Lock()
		if len(c.pool.peerReqs) == 1 {
			pr = fmt.Sprintf("%d/%s", c.pool.peerReqs[0].Num, Tok(c.pool.peerReqs[0].Kind))
		} else if len(c.pool.peerReqs) > 1 {
			pr = fmt.Sprintf("many:%d", len(c.pool.peerReqs))
		}
		c.pool.mu.Unlock()
		// the model's peer outcome carries the rendered URIs
		x := []string{"L=" + strings.Join(L, ";"), "A=" + strings.Join(A, ";"), "I=" + strings.Join(I, ";")}
		if strings.HasPrefix(peer, "hosts:") {
			var us []string
			for _, n := range c.pool.peerResp.Peers {
				us = append(us, canon(n.URI))
			}
			// replace the spec by the rendered URIs for the model
			for i := range t {
				if strings.HasPrefix(t[i], "peer=") {
					t[i] = "peer=hosts:" + strings.Join(us, ";")
				}
			}
		}
		return x, fmt.Sprintf("calls=%s peer=%s result=%s", strings.Join(calls, ","), pr, result), len(calls) > 0
	}
	return nil, "bad-op", false
}

func (c *agentComp) Gen(r *rand.Rand, idx int, emit func(string)) {
	target := []int{0, 1, 2, 3, 5}[r.Intn(5)]
	kind := pick(r, []string{"geth", "parity", "unknown"})
	emit(fmt.Sprintf("setup strict=%s target=%d full=%s kind=%s", B(r.Intn(2) == 0), target, B(r.Intn(3) == 0), kind))
	names := []string{"n0", "n1", "n2", "n3", "n4", "x9"}
	addrs := []string{"1.1.1.1:30303", "2.2.2.2:30303", "1.1.1.1:40404", "127.0.0.1:30303", "[::1]:30303", "0.0.0.0:1", "~", "[2001:db8::5]:30303", "host.example:30303", "%zz"}
	for k := 0; k < 3+r.Intn(6); k++ {
		var locals, actives, invalids []string
		for i := 0; i < r.Intn(5); i++ {
			locals = append(locals, fmt.Sprintf("%s/%s/%s", pick(r, names), pick(r, []string{"id", "enode"}), pick(r, addrs)))
		}
		for i := 0; i < r.Intn(6); i++ {
			n := pick(r, names)
			switch r.Intn(8) {
			case 0:
				actives = append(actives, "bare:"+n)
			case 1:
				actives = append(actives, "nohost:"+n)
			case 2:
				actives = append(actives, "raw:enode://%zz")
			default:
				actives = append(actives, n+"@"+pick(r, addrs[:9]))
			}
		}
		for i := 0; i < r.Intn(4); i++ {
			n := pick(r, names)
			switch r.Intn(4) {
			case 0:
				invalids = append(invalids, n+"@"+pick(r, addrs[:3]))
			case 1:
				invalids = append(invalids, "raw:%zz"+n)
			default:
				invalids = append(invalids, "bare:"+n)
			}
		}
		peer := "nopeers"
		switch r.Intn(6) {
		case 0:
			peer = "fatal"
		case 1:
			peer = "nopeers2"
		case 2, 3, 4:
			var hs []string
			for i := 0; i < r.Intn(4); i++ {
				hs = append(hs, fmt.Sprintf("n%d@5.5.5.%d:30303", 5+r.Intn(3), r.Intn(9)))
			}
			peer = "hosts:" + strings.Join(hs, ";")
		}
		failat := "-"
		if r.Intn(6) == 0 {
			failat = strconv.Itoa(r.Intn(6))
		}
		upd := "ok"
		if r.Intn(7) == 0 {
			upd = "err"
		}
		emit(fmt.Sprintf("round local=%s active=%s invalid=%s update=%s peer=%s failat=%s", strings.Join(locals, ","), strings.Join(actives, ","), strings.Join(invalids, ","), upd, peer, failat))
	}
}

// ---------------------------------------------------------------- life cycle (C20)

// startFault is the pool handed to one Start call that is scripted to fail at connect or at its first update.
type startFault struct {
	*scriptPool
	failConnect, failUpdate bool
}

func (p *startFault) Connect(ctx context.Context, req pool.ConnectRequest) (*pool.ConnectResponse, error) {
	if p.failConnect {
		return nil, errors.New("scripted connect failure")
	}
	return p.scriptPool.Connect(ctx, req)
}

func (p *startFault) Update(ctx context.Context, req pool.UpdateRequest) (*pool.UpdateResponse, error) {
	if p.failUpdate {
		p.failUpdate = false
		return nil, errors.New("scripted keep-alive failure")
	}
	return p.scriptPool.Update(ctx, req)
}

const lifeInterval = 20 * time.Millisecond

type agentLifeComp struct {
	a    *agent.Agent
	pool *scriptPool
	node *recNode
}

func (c *agentLifeComp) Close() {
	if c.a != nil {
		done := make(chan struct{})
		a := c.a
		go func() { a.Stop(); close(done) }()
		select {
		case <-done:
		case <-time.After(300 * time.Millisecond):
		}
		c.a = nil
	}
}

func (c *agentLifeComp) Reset(opts map[string]string, base int64) {
	c.Close()
	c.node = &recNode{failAt: -1, ua: ethnode.UserAgent{Kind: ethnode.Geth}}
	c.pool = &scriptPool{}
	c.pool.updateResp.ActivePeers = []string{"enode://quiet@10.9.9.9:30303"}
	c.a = &agent.Agent{EthNode: c.node, NumHosts: 1, UpdateInterval: lifeInterval}
}

func withWatchdog(f func() string, d time.Duration) string {
	ch := make(chan string, 1)
	go func() { ch <- f() }()
	select {
	case s := <-ch:
		return s
	case <-time.After(d):
		return "blocked"
	}
}

func startResult(err error) string {
	if err == nil {
		return "ok"
	}
	if err == agent.ErrAlreadyStarted {
		return "err AlreadyStarted"
	}
	return "err StartFailed"
}

func (c *agentLifeComp) Exec(t []string) (extra []string, out string, eff bool) {
	switch t[0] {
	case "reset":
		c.Reset(nil, 0)
		return nil, "ok", false
	case "start":
		// the scripted failure belongs to this start attempt only (a refused Start must not leave it behind)
		var p pool.Pool = c.pool
		switch t[1] {
		case "failconnect":
			p = &startFault{scriptPool: c.pool, failConnect: true}
		case "failupdate":
			p = &startFault{scriptPool: c.pool, failUpdate: true}
		}
		return nil, withWatchdog(func() string { return startResult(c.a.Start(p)) }, 3*time.Second), true
	case "start2":
		c.pool.mu.Lock()
		c.pool.connectErr, c.pool.failUpdates, c.pool.connectWait = nil, 0, 20*time.Millisecond
		c.pool.mu.Unlock()
		res := make([]string, 2)
		var wg sync.WaitGroup
		for i := 0; i < 2; i++ {
			wg.Add(1)
			go func(i int) { defer wg.Done(); res[i] = startResult(c.a.Start(c.pool)) }(i)
		}
		wg.Wait()
		c.pool.mu.Lock()
		c.pool.connectWait = 0
		c.pool.mu.Unlock()
		sort.Strings(res)
		return nil, JoinC(res), true
	case "stop":
		return nil, withWatchdog(func() string { c.a.Stop(); return "ok" }, 400*time.Millisecond), true
	case "stop2":
		// two callers stop the agent at once: both return
		res := make([]string, 2)
		var wg sync.WaitGroup
		for i := 0; i < 2; i++ {
			wg.Add(1)
			go func(i int) {
				defer wg.Done()
				res[i] = withWatchdog(func() string { c.a.Stop(); return "ok" }, 600*time.Millisecond)
			}(i)
		}
		wg.Wait()
		sort.Strings(res)
		return nil, JoinC(res), true
	case "stopfail":
		// Stop arrives while a keep-alive is in flight at the pool, and that keep-alive then fails: the loop ends on
		// its own while Stop is pending, and Stop must still return
		hold, held := make(chan struct{}), make(chan struct{})
		c.pool.mu.Lock()
		c.pool.hold, c.pool.held, c.pool.failUpdates = hold, held, 1
		c.pool.mu.Unlock()
		select {
		case <-held:
		case <-time.After(time.Second):
			c.pool.mu.Lock()
			c.pool.hold, c.pool.held, c.pool.failUpdates = nil, nil, 0
			c.pool.mu.Unlock()
			return nil, "no-keepalive", false
		}
		stopped := make(chan string, 1)
		go func() { stopped <- withWatchdog(func() string { c.a.Stop(); return "ok" }, 800*time.Millisecond) }()
		time.Sleep(30 * time.Millisecond) // Stop is now waiting for the loop
		close(hold)                       // the keep-alive fails
		return nil, <-stopped, true
	case "wait":
		return nil, withWatchdog(func() string {
			if err := c.a.Wait(); err != nil {
				return "returned error"
			}
			return "returned clean"
		}, 400*time.Millisecond), false
	case "run":
		if t[1] == "slow" {
			// the pool answers each keep-alive after half an interval: keep-alives still go out every interval (the
			// cadence is what keeps the node inside the pool's expiry window), they do not drift apart
			atomic.StoreInt64(&c.pool.latencyNs, int64(lifeInterval/2))
			c.pool.mu.Lock()
			before := c.pool.updates
			c.pool.mu.Unlock()
			const n = 20
			time.Sleep(n * lifeInterval)
			c.pool.mu.Lock()
			cnt := c.pool.updates - before
			c.pool.mu.Unlock()
			atomic.StoreInt64(&c.pool.latencyNs, 0)
			time.Sleep(lifeInterval)
			switch {
			case cnt == 0:
				return nil, "loops=0", false
			case cnt >= n-3 && cnt <= n+2:
				return []string{fmt.Sprintf("#count=%d", cnt)}, "loops=1 cadence=ok", false
			case cnt < n-3:
				return nil, fmt.Sprintf("loops=1 cadence=drift(%d-of-%d)", cnt, n), false
			}
			return nil, fmt.Sprintf("loops=2(%d)", cnt), false
		}
		// let some intervals elapse and count the keep-alives sent in that window
		c.pool.mu.Lock()
		if t[1] == "fail" {
			c.pool.failUpdates = 1
		}
		before := c.pool.updates
		c.pool.mu.Unlock()
		const n = 10
		time.Sleep(n * lifeInterval)
		c.pool.mu.Lock()
		cnt := c.pool.updates - before
		c.pool.failUpdates = 0
		c.pool.mu.Unlock()
		if t[1] == "fail" {
			// the loop dies on its next keep-alive: one more is sent, then none
			if cnt == 0 {
				return nil, "loops=0", false
			}
			if cnt > 2 {
				return nil, fmt.Sprintf("loops=many(%d)", cnt), false
			}
			return nil, "loops=1", false
		}
		bucket := 0
		switch {
		case cnt == 0:
			bucket = 0
		case float64(cnt) <= 1.5*n:
			bucket = 1
		default:
			bucket = 2
		}
		return []string{fmt.Sprintf("#count=%d", cnt)}, fmt.Sprintf("loops=%d", bucket), false
	}
	return nil, "bad-op", false
}

func (c *agentLifeComp) Gen(r *rand.Rand, idx int, emit func(string)) {
	emit("reset")
	// the generator follows the life-cycle state so that it never parks a goroutine for good: `stop` before any
	// start and `wait` without a buffered result would block forever (as documented) and poison later ops
	ever, loops, results := false, 0, 0
	n := 4 + r.Intn(7)
	runs := 0
	for i := 0; i < n; i++ {
		switch k := r.Intn(20); {
		case k < 7:
			o := pick(r, []string{"ok", "ok", "ok", "failconnect", "failupdate"})
			emit("start " + o)
			if loops == 0 {
				ever = true
				if o == "ok" {
					loops = 1
				}
			}
		case k < 9:
			emit("start2")
			if loops == 0 {
				ever, loops = true, 1
			}
		case k < 12:
			if ever {
				emit(pick(r, []string{"stop", "stop", "stop2"}))
				if loops == 1 {
					loops = 0
					results++
				}
			}
		case k < 13:
			if loops == 1 {
				emit("stopfail")
				loops = 0
				results++
			}
		case k < 16:
			if results > 0 {
				emit("wait")
				results--
			}
		default:
			if runs < 2 {
				runs++
				o := pick(r, []string{"ok", "ok", "fail", "slow"})
				emit("run " + o)
				if o == "fail" && loops == 1 {
					loops = 0
					results++
				}
			}
		}
	}
	emit("run ok")
}
