package main

import (
	"fmt"
	"math/rand"
	"sort"
	"strconv"
	"strings"
	"sync"
	"time"

	badger "github.com/dgraph-io/badger/v2"
	"github.com/vipnode/vipnode/v2/pool/store"
	badgerstore "github.com/vipnode/vipnode/v2/pool/store/badger"
)

// Component `noncettl` (C05): the real badger store with its real time-to-live machinery, a short freshness window
// (verif hook) and the real clock.  Each identity submits one nonce dated before, at or after the store's clock and
// then replays it at instants chosen around the end of the nonce's freshness (`nonce + window`), in particular inside
// the last whole second before it, where an entry that expired too early would re-admit the replay.  The model is the
// table that never forgets, run over the same (identity, nonce, clock reading) history.
func init() { components["noncettl"] = func() Component { return &nonceTtlComp{} } }

type nonceTtlComp struct{}

func (c *nonceTtlComp) Close()                                  {}
func (c *nonceTtlComp) Reset(opts map[string]string, base int64) {}

func (c *nonceTtlComp) Gen(r *rand.Rand, idx int, emit func(string)) {
	emit(fmt.Sprintf("run window_ms=%d ids=%d seed=%d", 1500+500*r.Intn(3), 8+r.Intn(9), r.Intn(100000)))
}

type ttlEvent struct {
	seq     int64
	id      string
	nonce   int64
	now     int64
	verdict bool
}

func (c *nonceTtlComp) Exec(t []string) (extra []string, out string, eff bool) {
	if t[0] != "run" {
		return nil, "bad-op", false
	}
	geti := func(k string) int { v, _ := FindStr(k, t); n, _ := strconv.Atoi(v); return n }
	window := time.Duration(geti("window_ms")) * time.Millisecond
	ids := geti("ids")
	r := rand.New(rand.NewSource(int64(geti("seed"))))
	s, err := badgerstore.Open(badger.DefaultOptions("").WithInMemory(true).WithLogger(nil))
	if err != nil {
		fatal(err)
	}
	defer s.Close()
	s.VerifSetNonceExpire(window)

	var mu sync.Mutex
	var events []ttlEvent
	// one store call, with the clock reading that explains its freshness verdict (the store reads its clock
	// somewhere between `before` and `after`)
	call := func(id string, nonce int64) {
		mu.Lock()
		defer mu.Unlock()
		before := time.Now().UnixNano()
		err := s.CheckAndSaveNonce(id, nonce)
		after := time.Now().UnixNano()
		now := before
		staleBefore := nonce <= before-int64(window)
		staleAfter := nonce <= after-int64(window)
		if staleBefore != staleAfter && err != nil {
			now = after
		}
		events = append(events, ttlEvent{int64(len(events)), id, nonce, now, err == nil})
	}
	var wg sync.WaitGroup
	for i := 0; i < ids; i++ {
		id := fmt.Sprintf("i%d", i)
		// dated from (window - 400ms) in the past to 1.5 s in the future
		off := time.Duration(r.Int63n(int64(window-400*time.Millisecond+1500*time.Millisecond))) - (window - 400*time.Millisecond)
		leads := []time.Duration{900 * time.Millisecond, 600 * time.Millisecond, 350 * time.Millisecond, 150 * time.Millisecond, 40 * time.Millisecond, 4 * time.Millisecond, -60 * time.Millisecond, -1100 * time.Millisecond}
		jitter := time.Duration(r.Intn(30)) * time.Millisecond
		wg.Add(1)
		go func() {
			defer wg.Done()
			nonce := time.Now().Add(off).UnixNano()
			call(id, nonce)
			call(id, nonce) // immediate replay
			end := time.Unix(0, nonce).Add(window)
			for _, lead := range leads {
				at := end.Add(-lead - jitter)
				d := time.Until(at)
				if d < 0 {
					if lead > 0 {
						continue
					}
				} else {
					time.Sleep(d)
				}
				call(id, nonce)
				call(id, nonce-1)
				if lead == -60*time.Millisecond {
					// a nonce above the remembered one that is already older than the window when it arrives (a
					// request held back in transit): stale, whatever is remembered for the identity
					call(id, nonce+int64(20*time.Millisecond))
				}
			}
			call(id, time.Now().UnixNano()) // a later nonce is still welcome
		}()
	}
	wg.Wait()
	sort.Slice(events, func(i, j int) bool { return events[i].seq < events[j].seq })
	evs := make([]string, len(events))
	vs := make([]string, len(events))
	for i, e := range events {
		evs[i] = fmt.Sprintf("%s:%d:%d", e.id, e.nonce, e.now)
		vs[i] = "0"
		if e.verdict {
			vs[i] = "1"
		}
	}
	var _ store.Store = s
	return []string{fmt.Sprintf("window=%d", int64(window)), "ev=" + strings.Join(evs, ",")}, "verdicts=" + strings.Join(vs, ","), true
}
