package main

import (
	"bufio"
	"encoding/base64"
	"encoding/json"
	"fmt"
	"math/big"
	"math/rand"
	"net"
	"strings"
	"sync"
	"time"

	"github.com/vipnode/vipnode/v2/agent"
	"github.com/vipnode/vipnode/v2/ethnode"
	"github.com/vipnode/vipnode/v2/jsonrpc2"
	"github.com/vipnode/vipnode/v2/pool"
	"github.com/vipnode/vipnode/v2/pool/balance"
	"github.com/vipnode/vipnode/v2/pool/payment"
	"github.com/vipnode/vipnode/v2/pool/status"
	"github.com/vipnode/vipnode/v2/pool/store"
	"github.com/vipnode/vipnode/v2/request"
)

// Component `fuzz` (C15): hostile messages against the real services, wired as the pool binary wires them, each
// connection a real Remote over a pipe with the real stream codec.  The harness process is the "child process":
// a panic on a handler goroutine ends it, which ./check reports with the op that was running.
func init() { components["fuzz"] = func() Component { return &fuzzComp{} } }

type rawConn struct {
	c     net.Conn
	lines chan string
	wmu   sync.Mutex
}

func (r *rawConn) send(b []byte) bool {
	r.wmu.Lock()
	defer r.wmu.Unlock()
	r.c.SetWriteDeadline(time.Now().Add(300 * time.Millisecond))
	_, err := r.c.Write(append(b, '\n'))
	return err == nil
}

// next returns the next line written by the server, or "" after the timeout / on close.
func (r *rawConn) next(d time.Duration) (string, bool) {
	select {
	case l, ok := <-r.lines:
		if !ok {
			return "", false
		}
		return l, true
	case <-time.After(d):
		return "", true
	}
}

type fuzzComp struct {
	st     store.Store
	srv    *jsonrpc2.Server
	agsrv  *jsonrpc2.Server
	conns  map[string]*rawConn
	driver string
	nonce  int64
	pool   *pool.VipnodePool
}

func (c *fuzzComp) Close() {
	for _, rc := range c.conns {
		rc.c.Close()
	}
	c.conns = nil
	if c.st != nil {
		c.st.Close()
		c.st = nil
	}
}

func (c *fuzzComp) Reset(opts map[string]string, base int64) {
	c.Close()
	c.driver = opts["driver"]
	c.st = openStore(c.driver)
	mgr := balance.PayPerInterval(c.st, time.Minute, big.NewInt(1000))
	p := pool.New(c.st, mgr)
	c.pool = p
	c.srv = &jsonrpc2.Server{}
	// the registrations of runPool
	if err := c.srv.Register("vipnode_", p, "connect", "disconnect", "ping", "update", "peer", "client", "host"); err != nil {
		fatal(err)
	}
	pay := &payment.PaymentService{NonceStore: c.st, AccountStore: c.st, BalanceStore: c.st, WithdrawMin: big.NewInt(5)}
	if err := c.srv.Register("pool_", pay); err != nil {
		fatal(err)
	}
	dash := &status.PoolStatus{Store: c.st, TimeStarted: time.Now(), Version: "fuzz", CacheDuration: time.Minute}
	if err := c.srv.Register("pool_", dash); err != nil {
		fatal(err)
	}
	// the agent's reverse service, registered as LoadPool does
	c.agsrv = &jsonrpc2.Server{}
	var svc agent.Service = &agent.Agent{EthNode: &recNode{failAt: -1}}
	if err := c.agsrv.RegisterMethod("vipnode_whitelist", svc, "Whitelist"); err != nil {
		fatal(err)
	}
	c.conns = map[string]*rawConn{}
	c.nonce = time.Now().UnixNano()
}

func (c *fuzzComp) conn(name string) *rawConn {
	if rc, ok := c.conns[name]; ok {
		return rc
	}
	a, b := net.Pipe()
	srv := c.srv
	if name == "G" {
		srv = c.agsrv
	}
	remote := &jsonrpc2.Remote{Codec: jsonrpc2.IOCodec(b), Client: &jsonrpc2.Client{}, Server: srv, PendingLimit: 50, PendingDiscard: 10}
	rc := &rawConn{c: a, lines: make(chan string, 64)}
	go func() {
		remote.Serve()
		// as server.go does when a connection's read loop ends
		if name != "G" && c.pool != nil {
			c.pool.CloseRemote(remote)
		}
		b.Close()
	}()
	go func() {
		sc := bufio.NewScanner(a)
		sc.Buffer(make([]byte, 1<<16), 1<<24)
		for sc.Scan() {
			line := sc.Text()
			// the harness plays a well-behaved agent: requests the pool sends to this connection (whitelist,
			// disconnect) are acknowledged and not counted as replies
			var m map[string]json.RawMessage
			if json.Unmarshal([]byte(line), &m) == nil {
				if _, isReq := m["method"]; isReq {
					if id, ok := m["id"]; ok {
						go rc.send([]byte(`{"jsonrpc":"2.0","id":` + string(id) + `,"result":null}`))
					}
					continue
				}
			}
			rc.lines <- line
		}
		close(rc.lines)
	}()
	c.conns[name] = rc
	return rc
}

func (c *fuzzComp) nextNonce() int64 { c.nonce += 1000; return c.nonce }

// hostile parameter values for correctly signed requests
func (c *fuzzComp) signedCall(v int) (string, []interface{}) {
	who := nodeIdents[v%4]
	nonce := c.nextNonce()
	long := strings.Repeat("A", 5000)
	var method string
	var req interface{}
	switch v % 11 {
	case 0:
		method, req = "vipnode_connect", pool.ConnectRequest{NodeInfo: ethnode.UserAgent{Kind: ethnode.NodeKind(99), IsFullNode: true, Network: -5}, NodeURI: "enode://" + long + "@[::1", Payout: long}
	case 1:
		method, req = "vipnode_connect", pool.ConnectRequest{NodeInfo: ethnode.UserAgent{IsFullNode: true}, NodeURI: "enode://" + who.id + "@256.256.256.256:99999999/../?%zz"}
	case 2:
		method, req = "vipnode_connect", pool.ConnectRequest{VipnodeVersion: long, NodeInfo: ethnode.UserAgent{Version: "\x00\xff‮", Kind: ethnode.Geth}}
	case 3:
		method, req = "vipnode_update", pool.UpdateRequest{BlockNumber: 1<<64 - 1, PeerInfo: []ethnode.PeerInfo{{ID: "", Enode: "enode://short"}, {ID: "x", Enode: strings.Repeat("e", 137)},
			{ID: who.id, Enode: "enode://" + strings.Repeat("f", 127) + "@"}, {Enode: strings.Repeat("é", 80)}}, Peers: []string{"", long}}
	case 4:
		method, req = "vipnode_update", pool.UpdateRequest{PeerInfo: nil}
	case 5:
		method, req = "vipnode_peer", pool.PeerRequest{Num: 1 << 40, Kind: long}
	case 6:
		method, req = "vipnode_peer", pool.PeerRequest{Num: -1 << 40, Kind: "geth"}
	case 7:
		method, req = "vipnode_client", pool.ClientRequest{Kind: "\x00", NumHosts: 1<<31 - 1}
	case 8:
		method, req = "vipnode_host", pool.HostRequest{Kind: long, Payout: "0x", NodeURI: "://"}
	case 9:
		method, req = "vipnode_peer", pool.PeerRequest{Num: 3}
	default:
		method, req = "vipnode_connect", pool.ConnectRequest{NodeInfo: ethnode.UserAgent{Kind: ethnode.Parity}}
	}
	sig, _ := request.Sign(who.key, method, who.id, nonce, req)
	return method, []interface{}{sig, who.id, nonce, req}
}

func (c *fuzzComp) walletCall(v int) (string, []interface{}) {
	w := walletIdents[v%2]
	nonce := c.nextNonce()
	switch v % 4 {
	case 0:
		id := []string{"", "short", nodeIdents[0].id, strings.Repeat("z", 300)}[v/4%4]
		sig, _ := request.Sign(w.key, "pool_addNode", w.id, nonce, id)
		return "pool_addNode", []interface{}{sig, w.id, nonce, id}
	case 1:
		sig, _ := request.Sign(w.key, "pool_withdraw", w.id, nonce)
		return "pool_withdraw", []interface{}{sig, w.id, nonce}
	case 2:
		return "pool_account", []interface{}{[]string{"", w.id, "0x", strings.Repeat("q", 1000)}[v/4%4]}
	default:
		return "pool_status", []interface{}{}
	}
}

var badSigs = []string{"", "AAAA", "!!!", base64.StdEncoding.EncodeToString(make([]byte, 63)), base64.StdEncoding.EncodeToString(make([]byte, 64)),
	base64.StdEncoding.EncodeToString(make([]byte, 65)), "0x", "0x00", strings.Repeat("ab", 65), strings.Repeat("ab", 64), "0x" + strings.Repeat("ff", 65), strings.Repeat("=", 9)}

func (c *fuzzComp) buildMessage(tmpl string, v int) ([]byte, string, bool) {
	// returns the bytes, the raw id sent ("" = absent) and whether a reply is due
	idRaw := fmt.Sprintf("%d", 1000+v)
	mk := func(method string, params interface{}, withParams bool) []byte {
		m := map[string]interface{}{"jsonrpc": "2.0", "method": method}
		if idRaw != "" {
			m["id"] = json.RawMessage(idRaw)
		}
		if withParams {
			m["params"] = params
		}
		b, _ := json.Marshal(m)
		return b
	}
	switch tmpl {
	case "signedcall":
		m, p := c.signedCall(v)
		return mk(m, p, true), idRaw, true
	case "wallet":
		m, p := c.walletCall(v)
		return mk(m, p, true), idRaw, true
	case "badsig":
		methods := []string{"vipnode_connect", "vipnode_update", "vipnode_peer", "vipnode_client", "vipnode_host", "pool_addNode", "pool_withdraw"}
		m := methods[v%len(methods)]
		ids := []string{nodeIdents[0].id, walletIdents[0].id, "", "zz", strings.Repeat("0", 128), strings.Repeat("g", 128), "0x" + strings.Repeat("0", 40)}
		params := []interface{}{badSigs[v%len(badSigs)], ids[v/3%len(ids)], c.nextNonce(), map[string]interface{}{}}
		if m == "pool_withdraw" {
			params = params[:3]
		}
		if m == "pool_addNode" {
			params[3] = "node"
		}
		return mk(m, params, true), idRaw, true
	case "arity":
		methods := []string{"vipnode_connect", "vipnode_update", "vipnode_ping", "pool_status", "pool_account", "pool_withdraw", "vipnode_whitelist"}
		shapes := []interface{}{nil, []interface{}{}, []interface{}{1}, []interface{}{"a", "b", "c", "d", "e", "f"}, map[string]int{"a": 1}, "str", 7, []interface{}{nil, nil, nil, nil},
			[]interface{}{[]int{1}, map[string]int{}, 1.5, true}}
		sh := shapes[v%len(shapes)]
		return mk(methods[v/2%len(methods)], sh, v%5 != 0), idRaw, true
	case "unknown":
		names := []string{"vipnode_closeRemote", "vipnode_numRemotes", "", "rpc.discover", strings.Repeat("m", 3000), "vipnode_Ping", "pool_store"}
		return mk(names[v%len(names)], []interface{}{}, true), idRaw, true
	case "ids":
		ids := []string{`"str"`, "null", `{"a":1}`, "", "123456789012345678901234567890", "-1", `[1]`, "1.5", "true"}
		idRaw = ids[v%len(ids)]
		return mk("vipnode_ping", []interface{}{}, true), idRaw, true
	case "regupdate":
		// a registered node's keep-alive describing its peers in every odd way (the pool derives ids from these)
		who := nodeIdents[4+v%2]
		hex128 := strings.Repeat("ab", 64)
		enodes := []string{"abc@1.2.3.4:30303", "@", "a@b", "enode:@x", "enode://@", "enode://" + hex128, strings.Repeat("@", 200), "\x00@",
			"enode://" + hex128[:127] + "@h", strings.Repeat("z", 136), "enode://%zz@[::1", "enode://" + hex128 + "@", "enode://" + hex128 + "@1.2.3.4:30303?discport=0",
			"ENODE://" + hex128 + "@1.2.3.4:1", "enode://" + hex128 + hex128 + "@1.2.3.4:1", "1234567@", "12345678@", "123456789@", ""}
		ids := []string{"", "x", hex128, strings.Repeat("q", 300), who.id}
		var peers []ethnode.PeerInfo
		for k := 0; k < 1+v%3; k++ {
			peers = append(peers, ethnode.PeerInfo{ID: ids[(v/3+k)%len(ids)], Enode: enodes[(v+k*7)%len(enodes)], Name: "n", Caps: []string{"eth/63"}})
		}
		nonce := c.nextNonce()
		req := pool.UpdateRequest{BlockNumber: uint64(v), PeerInfo: peers}
		sig, _ := request.Sign(who.key, "vipnode_update", who.id, nonce, req)
		return mk("vipnode_update", []interface{}{sig, who.id, nonce, req}, true), idRaw, true
	case "whitelist":
		args := []interface{}{[]interface{}{"nodeid"}, []interface{}{}, []interface{}{7}, []interface{}{strings.Repeat("w", 4000)}, []interface{}{"a", "b"}, nil}
		return mk("vipnode_whitelist", args[v%len(args)], true), idRaw, true
	case "reply":
		shapes := []string{`{"jsonrpc":"2.0","id":%s,"result":"x"}`, `{"jsonrpc":"2.0","id":%s}`, `{"jsonrpc":"2.0","id":%s,"error":{"code":1,"message":"m"}}`,
			`{"id":%s,"result":null,"error":null}`, `{"jsonrpc":"2.0","result":1}`, `{}`, `{"jsonrpc":"2.0","id":%s,"error":"notanobject"}`}
		sh := shapes[v%len(shapes)]
		if strings.Contains(sh, "%s") {
			sh = fmt.Sprintf(sh, idRaw)
		}
		return []byte(sh), idRaw, false
	default: // junk
		junks := []string{`{"jsonrpc":"2.0","id":1,"method":"vipnode_ping"`, `[1,2,3]`, `"just a string"`, `42`, "\x00\x01\x02\xff", `{"method":5}`, `{"id":1,"method":"x","params":{`,
			`{"jsonrpc":"2.0","method":["a"]}`, `}{`, strings.Repeat("{", 2000)}
		return []byte(junks[v%len(junks)]), "", false
	}
}

// wedge: a registered host floods its own connection with reply-shaped messages nobody waits for (same id); that
// may stall *its* connection, but a request arriving on another connection that makes the pool call this host must
// still be answered (after the pool's whitelist timeout at the latest).
func (c *fuzzComp) wedge(k, v int) ([]string, string, bool) {
	host, client := nodeIdents[0], nodeIdents[5]
	call := func(rc *rawConn, id string, who *identity, method string, req interface{}, wait time.Duration) (string, bool) {
		nonce := c.nextNonce()
		sig, _ := request.Sign(who.key, method, who.id, nonce, req)
		b, _ := json.Marshal(map[string]interface{}{"jsonrpc": "2.0", "id": json.RawMessage(id), "method": method, "params": []interface{}{sig, who.id, nonce, req}})
		if !rc.send(b) {
			return "", false
		}
		deadline := time.Now().Add(wait)
		for time.Now().Before(deadline) {
			l, open := rc.next(time.Until(deadline))
			if !open {
				return "", false
			}
			if strings.Contains(l, `"id":`+id) {
				return l, true
			}
		}
		return "", false
	}
	a, b := c.conn("A"), c.conn("B")
	if _, ok := call(a, "9001", host, "vipnode_connect", pool.ConnectRequest{NodeInfo: ethnode.UserAgent{Kind: ethnode.Geth, IsFullNode: true}, NodeURI: "enode://" + host.id + "@1.2.3.4:30303"}, 2*time.Second); !ok {
		return nil, "setup-failed host", false
	}
	if _, ok := call(b, "9002", client, "vipnode_connect", pool.ConnectRequest{NodeInfo: ethnode.UserAgent{Kind: ethnode.Geth}}, 2*time.Second); !ok {
		return nil, "setup-failed client", false
	}
	shapes := []string{`{"jsonrpc":"2.0","id":77777,"result":"x"}`, `{"jsonrpc":"2.0","id":77777,"error":{"code":1,"message":"m"}}`, `{"jsonrpc":"2.0","id":"dup","result":null}`}
	for i := 0; i < k; i++ {
		a.send([]byte(shapes[v%len(shapes)]))
	}
	time.Sleep(50 * time.Millisecond)
	t0 := time.Now()
	l, ok := call(b, "9003", client, "vipnode_peer", pool.PeerRequest{Num: 3}, pool.VerifPoolWhitelistTimeout()+2*time.Second)
	a.c.Close()
	delete(c.conns, "A")
	if !ok {
		return nil, fmt.Sprintf("wedged: a peer request on another connection was not answered within %v of %d unsolicited replies on the host's connection", time.Since(t0).Round(time.Second), k), true
	}
	shape := "error"
	if strings.Contains(l, `"result"`) && !strings.Contains(l, `"error"`) {
		shape = "result"
	}
	_ = shape
	return nil, "alive answered=1", true
}

// strayClose: a host registers, sends one reply nobody is waiting for (a late or duplicated answer), and closes its
// connection: the pool notices the end of the connection all the same and forgets the host.
func (c *fuzzComp) strayClose(v int) ([]string, string, bool) {
	host := nodeIdents[1+v%3]
	name := fmt.Sprintf("S%d", v)
	rc := c.conn(name)
	nonce := c.nextNonce()
	req := pool.ConnectRequest{NodeInfo: ethnode.UserAgent{Kind: ethnode.Geth, IsFullNode: true}, NodeURI: "enode://" + host.id + "@1.2.3.4:30303"}
	sig, _ := request.Sign(host.key, "vipnode_connect", host.id, nonce, req)
	b, _ := json.Marshal(map[string]interface{}{"jsonrpc": "2.0", "id": 9100, "method": "vipnode_connect", "params": []interface{}{sig, host.id, nonce, req}})
	if !rc.send(b) {
		return nil, "setup-failed host", false
	}
	if _, open := rc.next(2 * time.Second); !open {
		return nil, "setup-failed host", false
	}
	before := c.pool.NumRemotes()
	// (every stray reply carries its own id: two unsolicited replies under one id are the flood C15 sets aside - the
	// second one parks the connection's read loop for good, see DESIGN section 9)
	shapes := []string{`{"jsonrpc":"2.0","id":424242,"result":null}`, `{"jsonrpc":"2.0","id":424243,"error":{"code":1,"message":"late"}}`, `{"jsonrpc":"2.0","id":"late","result":"x"}`}
	for i := 0; i <= v%2; i++ {
		rc.send([]byte(shapes[(v/2+i)%len(shapes)]))
	}
	time.Sleep(30 * time.Millisecond)
	rc.c.Close()
	delete(c.conns, name)
	after := before
	for i := 0; i < 100; i++ {
		if after = c.pool.NumRemotes(); after < before {
			break
		}
		time.Sleep(10 * time.Millisecond)
	}
	if after >= before {
		return nil, fmt.Sprintf("alive remotes-before=%d remotes-after-close=%d", before, after), true
	}
	return nil, "alive forgotten=1", true
}

// agentReply: a real agent (agent.Agent over pool.Remote over a jsonrpc2.Remote on a pipe) whose pool - played by the
// harness - answers its connect, keep-alive and peer calls with every odd reply shape.  The agent may fail the call, stop
// its loop or carry on; it must not panic (the panic would be on the agent's own goroutines: the process dies).
func (c *fuzzComp) agentReply(v int) ([]string, string, bool) {
	a, b := net.Pipe()
	defer a.Close()
	node := &recNode{failAt: -1, ua: ethnode.UserAgent{Kind: ethnode.Geth}}
	ag := &agent.Agent{EthNode: node, NumHosts: 3, UpdateInterval: 15 * time.Millisecond}
	srv := &jsonrpc2.Server{}
	var svc agent.Service = ag
	srv.RegisterMethod("vipnode_whitelist", svc, "Whitelist")
	remote := &jsonrpc2.Remote{Codec: jsonrpc2.IOCodec(b), Client: &jsonrpc2.Client{}, Server: srv}
	go remote.Serve()
	defer remote.Close()
	shapes := []string{`"result":null`, `"result":null,"error":null`, `"error":null`, `"result":[]`, `"result":"str"`, `"result":42`, `"result":{}`,
		`"result":{"balance":null,"invalid_peers":null,"active_peers":null,"peers":null}`, `"result":{"peers":[null]}`, `"result":{"peers":[{}],"balance":{}}`,
		`"result":{"active_peers":"x","invalid_peers":7}`, `"result":{"balance":{"credit":"NaN","deposit":null}}`, `"result":{"peers":[{"id":"","uri":"://"}]}`,
		`"result":{"invalid_peers":["",null,"@","enode://@"],"active_peers":[null]}`, `"result":true`, `"error":{"code":"x"}`, `"error":"str"`, `"error":{}`,
		"CLOSE", `"result":{"pool_version":7}`, "TRUNCATED"}
	hostile := shapes[v%len(shapes)]
	target := []string{"vipnode_update", "vipnode_peer", "vipnode_connect"}[(v/len(shapes))%3]
	seen := map[string]int{}
	go func() {
		sc := bufio.NewScanner(a)
		sc.Buffer(make([]byte, 1<<16), 1<<22)
		for sc.Scan() {
			var m struct {
				ID     json.RawMessage `json:"id"`
				Method string          `json:"method"`
			}
			if json.Unmarshal(sc.Bytes(), &m) != nil || m.Method == "" {
				continue
			}
			seen[m.Method]++
			body := `"result":{}`
			switch m.Method {
			case "vipnode_connect":
				body = `"result":{"pool_version":"fuzz"}`
			case "vipnode_update":
				// ask for more peers than the node has, so that the agent goes on to vipnode_peer
				body = `"result":{"active_peers":[],"invalid_peers":[],"balance":{"credit":"5","deposit":"0"}}`
			case "vipnode_peer":
				body = `"result":{"peers":[]}`
			}
			// the first call of the targeted method is answered properly (except connect), later ones with the odd shape
			if m.Method == target && (seen[m.Method] > 1 || target == "vipnode_connect") {
				body = hostile
			}
			switch body {
			case "CLOSE":
				// the pool goes away instead of answering
				a.Close()
				return
			case "TRUNCATED":
				a.Write([]byte(`{"jsonrpc":"2.0","id":` + string(m.ID) + `,"result":{"pool_ver`))
				a.Close()
				return
			}
			a.Write([]byte(`{"jsonrpc":"2.0","id":` + string(m.ID) + `,` + body + "}\n"))
		}
	}()
	key := nodeIdents[6].key
	p := pool.Remote(remote, key)
	started := make(chan error, 1)
	go func() { started <- ag.Start(p) }()
	select {
	case err := <-started:
		if err == nil {
			time.Sleep(120 * time.Millisecond) // several keep-alive rounds against the odd replies
			stopped := make(chan struct{})
			go func() { ag.Stop(); close(stopped) }()
			select {
			case <-stopped:
			case <-time.After(2 * time.Second):
				return nil, "wedged: the agent could not be stopped after odd replies from its pool", true
			}
		}
	case <-time.After(3 * time.Second):
		return nil, "wedged: the agent's Start never returned", true
	}
	return []string{"shape=" + strings.Replace(hostile, " ", "", -1), "target=" + target}, "alive", true
}

func (c *fuzzComp) Exec(t []string) (extra []string, out string, eff bool) {
	if t[0] == "agentreply" {
		var v int
		if s, ok := FindStr("v", t); ok {
			fmt.Sscan(s, &v)
		}
		return c.agentReply(v)
	}
	if t[0] == "strayclose" {
		var v int
		if s, ok := FindStr("v", t); ok {
			fmt.Sscan(s, &v)
		}
		return c.strayClose(v)
	}
	if t[0] == "wedge" {
		var k, v int
		if s, ok := FindStr("k", t); ok {
			fmt.Sscan(s, &k)
		}
		if s, ok := FindStr("v", t); ok {
			fmt.Sscan(s, &v)
		}
		return c.wedge(k, v)
	}
	if t[0] != "msg" {
		return nil, "bad-op", false
	}
	connName, _ := FindStr("conn", t)
	tmpl, _ := FindStr("tmpl", t)
	var v int
	if vs, ok := FindStr("v", t); ok {
		fmt.Sscan(vs, &v)
	}
	rc := c.conn(connName)
	if connName == "G" && tmpl != "whitelist" && tmpl != "junk" && tmpl != "reply" && tmpl != "unknown" && tmpl != "ids" {
		tmpl = "whitelist"
	}
	if tmpl == "regupdate" {
		// the sender registers first (any key works), so that its keep-alive is processed in full
		who := nodeIdents[4+v%2]
		nonce := c.nextNonce()
		req := pool.ConnectRequest{NodeInfo: ethnode.UserAgent{Kind: ethnode.Geth}}
		sig, _ := request.Sign(who.key, "vipnode_connect", who.id, nonce, req)
		cm, _ := json.Marshal(map[string]interface{}{"jsonrpc": "2.0", "id": 7001, "method": "vipnode_connect", "params": []interface{}{sig, who.id, nonce, req}})
		if rc.send(cm) {
			rc.next(400 * time.Millisecond)
		}
	}
	b, idRaw, _ := c.buildMessage(tmpl, v)
	// what kind of thing is being sent, judged without the server: a JSON-RPC message that is a request, one that is
	// not (a reply, or nothing recognisable), or bytes that are not a message at all
	shape := "nonmessage"
	var probe jsonrpc2.Message
	if err := json.Unmarshal(b, &probe); err == nil && json.Valid(b) {
		shape = "reply"
		if probe.Request != nil {
			shape = "request"
		}
	}
	sent := rc.send(b)
	reply, idok, sender := "0", "-", "open"
	if sent {
		line, open := rc.next(400 * time.Millisecond)
		if !open {
			sender = "closed"
		} else if line != "" {
			var m map[string]json.RawMessage
			_, hasResult := m["result"]
			if err := json.Unmarshal([]byte(line), &m); err != nil {
				reply = "malformed"
			} else {
				_, hasResult = m["result"]
				_, hasError := m["error"]
				if !hasResult && !hasError {
					reply = "neither"
				} else {
					// a reply carries a result (possibly null) or an error
					reply = "1"
					id := string(m["id"])
					if id == idRaw {
						idok = "1"
					} else {
						idok = "0:" + id
					}
				}
			}
		} else {
			// nothing came back: is the connection still there?
			if _, open := rc.next(20 * time.Millisecond); !open {
				sender = "closed"
			}
		}
	} else {
		sender = "closed"
	}
	if sender == "closed" || shape == "nonmessage" {
		// bytes that are not a message may leave the stream mid-value: always start the next op on a fresh connection
		rc.c.Close()
		delete(c.conns, connName)
	}
	if shape == "nonmessage" {
		sender = "any"
	}
	// every other connection keeps being served
	other := "ok"
	oc := c.conn("B")
	if connName == "B" {
		oc = c.conn("A")
	}
	if !oc.send([]byte(`{"jsonrpc":"2.0","id":"probe","method":"vipnode_ping"}`)) {
		other = "dead"
	} else if l, _ := oc.next(500 * time.Millisecond); !strings.Contains(l, `"pong"`) {
		other = "dead:" + strings.Replace(l, " ", "_", -1)
	}
	return []string{"tmplused=" + tmpl, "shape=" + shape}, fmt.Sprintf("alive reply=%s idok=%s sender=%s other=%s", reply, idok, sender, other), true
}

func (c *fuzzComp) Gen(r *rand.Rand, idx int, emit func(string)) {
	tmpls := []string{"signedcall", "signedcall", "wallet", "badsig", "badsig", "arity", "unknown", "ids", "reply", "junk", "whitelist", "regupdate", "regupdate"}
	for i := 0; i < 25; i++ {
		conn := pick(r, []string{"A", "A", "B", "G"})
		emit(fmt.Sprintf("msg conn=%s tmpl=%s v=%d", conn, pick(r, tmpls), r.Intn(1000)))
	}
	if idx%10 == 9 {
		emit(fmt.Sprintf("wedge k=%d v=%d", 1+r.Intn(4), r.Intn(100)))
	}
	// the other direction: an agent and the replies its pool sends
	for i := 0; i < 3; i++ {
		emit(fmt.Sprintf("agentreply v=%d", r.Intn(63)))
	}
}

// generator variant: registry behaviour over real connections (C09)
type fuzzRegistryVariant struct{ fuzzComp }

func (v *fuzzRegistryVariant) Prefix() string { return "fuzz" }
func (v *fuzzRegistryVariant) Gen(r *rand.Rand, idx int, emit func(string)) {
	for i := 0; i < 3; i++ {
		emit(fmt.Sprintf("strayclose v=%d", r.Intn(60)))
	}
}

func init() { components["fuzz-registry"] = func() Component { return &fuzzRegistryVariant{} } }
