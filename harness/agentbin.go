package main

import (
	"bytes"
	"context"
	"fmt"
	"io/ioutil"
	"os"
	"os/exec"
	"path/filepath"
	"sort"
	"strings"
	"sync"
	"time"

	"github.com/ethereum/go-ethereum/crypto"
)

// probeIntervals runs the built binary (`vipnode agent :memory: --rpc fakenode://… --update-interval X`)
// for every interval of the grid and reports whether the command line accepted it.
func probeIntervals(binary string, grid []time.Duration) (map[time.Duration]bool, error) {
	dir, err := ioutil.TempDir(filepath.Dir(binary), "agentprobe")
	if err != nil {
		return nil, err
	}
	defer os.RemoveAll(dir)
	who := nodeIdents[0]
	keyFile := filepath.Join(dir, "nodekey")
	if err := crypto.SaveECDSA(keyFile, who.key); err != nil {
		return nil, err
	}
	res := map[time.Duration]bool{}
	var mu sync.Mutex
	var wg sync.WaitGroup
	var firstErr error
	for _, iv := range grid {
		wg.Add(1)
		go func(iv time.Duration) {
			defer wg.Done()
			ctx, cancel := context.WithTimeout(context.Background(), 5*time.Second)
			defer cancel()
			cmd := exec.CommandContext(ctx, binary, "-vv", "agent", ":memory:", "--rpc", "fakenode://"+who.id+"?fakepeers=0",
				"--nodekey", keyFile, "--update-interval", iv.String())
			out := &lockedBuffer{}
			cmd.Stdout, cmd.Stderr = out, out
			if err := cmd.Start(); err != nil {
				mu.Lock()
				firstErr = err
				mu.Unlock()
				return
			}
			exited := make(chan struct{})
			go func() { cmd.Wait(); close(exited) }()
			verdict := ""
		poll:
			for {
				s := out.String()
				switch {
				case strings.Contains(s, "update interval too"):
					verdict = "rejected"
					break poll
				case strings.Contains(s, "Registered on pool"):
					verdict = "accepted" // got past configuration and registered
					break poll
				}
				select {
				case <-exited:
					if verdict == "" && !strings.Contains(out.String(), "update interval too") && !strings.Contains(out.String(), "Registered on pool") {
						verdict = "unexpected"
					}
					if verdict != "" {
						break poll
					}
				case <-time.After(10 * time.Millisecond):
				}
			}
			cancel()
			<-exited
			mu.Lock()
			defer mu.Unlock()
			switch verdict {
			case "rejected":
				res[iv] = false
			case "accepted":
				res[iv] = true
			default:
				firstErr = fmt.Errorf("interval probe %s: unexpected output: %s", iv, out.String())
			}
		}(iv)
	}
	wg.Wait()
	return res, firstErr
}

type lockedBuffer struct {
	mu sync.Mutex
	b  bytes.Buffer
}

func (l *lockedBuffer) Write(p []byte) (int, error) {
	l.mu.Lock()
	defer l.mu.Unlock()
	return l.b.Write(p)
}

func (l *lockedBuffer) String() string {
	l.mu.Lock()
	defer l.mu.Unlock()
	return l.b.String()
}

var intervalGrid = []time.Duration{time.Second, 4999 * time.Millisecond, 5 * time.Second, 5001 * time.Millisecond, 60 * time.Second,
	119999 * time.Millisecond, 120 * time.Second, 120001 * time.Millisecond, 10 * time.Minute}

func init() {
	factWriters = append(factWriters, func(b *strings.Builder) {
		binary := os.Getenv("VERIF_POOL_BINARY")
		if binary == "" {
			fatal("facts: VERIF_POOL_BINARY (the built vipnode binary) is required")
		}
		res, err := probeIntervals(binary, intervalGrid)
		if err != nil {
			fatal(err)
		}
		var ks []time.Duration
		for k := range res {
			ks = append(ks, k)
		}
		sort.Slice(ks, func(i, j int) bool { return ks[i] < ks[j] })
		var items []string
		for _, k := range ks {
			items = append(items, fmt.Sprintf("(%d, %v)", int64(k), res[k]))
		}
		fmt.Fprintf(b, "/-- `vipnode agent --update-interval X` probed on the built binary: (X in ns, accepted?) -/\n")
		fmt.Fprintf(b, "def intervalProbe : List (Int × Bool) := [%s]\n", strings.Join(items, ", "))
	})
}
