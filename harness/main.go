// Command harness drives the real vipnode code (built from /repo's working
// tree through the module replace) for the correspondence checks.
//
//   harness gen   <component> <seed> <ncases> <ops-out>
//   harness exec  <component> [-opt k=v ...] <ops-in> <resolved-out> <impl-out> <stats-out>
//   harness facts <Facts.lean>
package main

import (
	"bufio"
	"crypto/sha256"
	"encoding/json"
	"fmt"
	"io/ioutil"
	"math/rand"
	"os"
	"strconv"
	"strings"
	"time"
)

// Component is one correspondence stream: a generator of unresolved op lines
// and an executor that runs them against the real code.
type Component interface {
	// Gen emits the op lines of one case (without the leading component name).
	Gen(r *rand.Rand, caseIdx int, emit func(string))
	// Reset starts a new case.
	Reset(opts map[string]string, caseBase int64)
	// Exec runs one op (tokens after the component name, times already
	// absolute). It returns tokens to append to the resolved line (observed
	// environment values), the canonical output line and whether the op had
	// a visible effect.
	Exec(toks []string) (extra []string, out string, effect bool)
	Close()
}

var components = map[string]func() Component{}

func main() {
	if len(os.Args) < 2 {
		fatal("usage")
	}
	switch os.Args[1] {
	case "gen":
		cmdGen(os.Args[2:])
	case "exec":
		cmdExec(os.Args[2:])
	case "facts":
		cmdFacts(os.Args[2:])
	default:
		if f, ok := extraCommands[os.Args[1]]; ok {
			f(os.Args[2:])
			return
		}
		fatal("unknown command " + os.Args[1])
	}
}

var extraCommands = map[string]func([]string){}

func cmdGen(args []string) {
	if len(args) != 4 {
		fatal("gen <component> <seed> <ncases> <ops-out>")
	}
	mk, ok := components[args[0]]
	if !ok {
		fatal("unknown component " + args[0])
	}
	seed, _ := strconv.ParseInt(args[1], 10, 64)
	n, _ := strconv.Atoi(args[2])
	c := mk()
	defer c.Close()
	w := CreateLW(args[3])
	defer w.Close()
	for i := 0; i < n; i++ {
		// every case has its own PRNG derived from (seed, index): a case replays alone
		r := rand.New(rand.NewSource(seed*1000003 + int64(i)))
		w.Linef("case %d", i)
		prefix := args[0]
		if px, ok := c.(interface{ Prefix() string }); ok {
			prefix = px.Prefix() // generator variants emit ops of their base component
		}
		c.Gen(r, i, func(s string) { w.Line(prefix + " " + s) })
	}
}

func cmdExec(args []string) {
	opts := map[string]string{}
	for len(args) > 1 && args[1] == "-opt" {
		// harness exec comp -opt k=v ...
		kv := strings.SplitN(args[2], "=", 2)
		opts[kv[0]] = kv[1]
		args = append([]string{args[0]}, args[3:]...)
	}
	if len(args) != 5 {
		fatal("exec <component> [-opt k=v]... <ops-in> <resolved-out> <impl-out> <stats-out>")
	}
	name := args[0]
	mk, ok := components[name]
	if !ok {
		fatal("unknown component " + name)
	}
	c := mk()
	defer c.Close()
	prefix := name
	if px, ok := c.(interface{ Prefix() string }); ok {
		prefix = px.Prefix()
	}
	in, err := os.Open(args[1])
	if err != nil {
		fatal(err)
	}
	defer in.Close()
	res := CreateLW(args[2])
	defer res.Close()
	impl := CreateLW(args[3])
	defer impl.Close()
	st := NewRunStats()
	seen := map[[32]byte]bool{}
	var caseLines []string
	caseEffect := false
	inCase := false
	finishCase := func() {
		if !inCase {
			return
		}
		st.Cases++
		h := sha256.Sum256([]byte(strings.Join(caseLines, "\n")))
		if caseEffect && !seen[h] {
			st.Nontriv++
		}
		seen[h] = true
	}
	sc := bufio.NewScanner(in)
	sc.Buffer(make([]byte, 1<<20), 1<<26)
	var caseBase int64
	for sc.Scan() {
		line := strings.TrimSpace(sc.Text())
		if line == "" {
			continue
		}
		toks := strings.Fields(line)
		if toks[0] == "case" {
			finishCase()
			inCase, caseEffect, caseLines = true, false, nil
			caseBase = time.Now().UnixNano()
			c.Reset(opts, caseBase)
			res.Line(line)
			impl.Line(line)
			continue
		}
		if toks[0] != prefix {
			fatal("op for other component: " + line)
		}
		caseLines = append(caseLines, line)
		st.Lines++
		rt := resolveTimes(toks[1:], caseBase)
		extra, out, eff := safeExec(c, rt)
		if eff {
			caseEffect = true
		}
		st.Ops[rt[0]]++
		st.Outcomes[rt[0]+":"+outcomeClass(out)]++
		res.Line(prefix + " " + strings.Join(append(rt, extra...), " "))
		impl.Line(out)
		// flush per line so a crash leaves the prefix behind
		res.Flush()
		impl.Flush()
	}
	finishCase()
	if x, ok := c.(interface{ ExtraStats(map[string]int) }); ok {
		x.ExtraStats(st.Extra)
	}
	b, _ := json.Marshal(st)
	ioutil.WriteFile(args[4], b, 0644)
}

func outcomeClass(out string) string {
	f := strings.Fields(out)
	if len(f) == 0 {
		return "empty"
	}
	if f[0] == "err" && len(f) > 1 {
		return "err-" + f[1]
	}
	return f[0]
}

func safeExec(c Component, toks []string) (extra []string, out string, eff bool) {
	defer func() {
		if r := recover(); r != nil {
			out = "panic " + strings.Replace(strings.Replace(fmt.Sprint(r), " ", "_", -1), "\n", "_", -1)
			extra = append(extra, "panicked=1")
		}
	}()
	return c.Exec(toks)
}
