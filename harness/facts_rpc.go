package main

import (
	"fmt"
	"reflect"
	"sort"
	"strings"
	"unicode"

	"github.com/vipnode/vipnode/v2/jsonrpc2"
	"github.com/vipnode/vipnode/v2/pool"
	"github.com/vipnode/vipnode/v2/pool/payment"
	"github.com/vipnode/vipnode/v2/pool/status"
	"github.com/vipnode/vipnode/v2/pool/store/memory"
)

// rpcSurface lists (rpc name, positional argument type names) for a receiver,
// using the reflection the server's Register itself uses.
func rpcSurface(prefix string, receiver interface{}, only ...string) [][2]string {
	methods, err := jsonrpc2.Methods(receiver)
	if err != nil {
		fatal(err)
	}
	allow := map[string]bool{}
	for _, o := range only {
		allow[o] = true
	}
	var out [][2]string
	for name, m := range methods {
		lower := string(unicode.ToLower(rune(name[0]))) + name[1:]
		if len(only) > 0 && !allow[lower] {
			continue
		}
		var args []string
		for _, t := range m.ArgTypes {
			args = append(args, t.String())
		}
		out = append(out, [2]string{prefix + lower, strings.Join(args, ",")})
	}
	sort.Slice(out, func(i, j int) bool { return out[i][0] < out[j][0] })
	return out
}

// productionSurface mirrors the registrations of runPool (pool.go): checked against the
// real wiring by the C16 stream; here it feeds the generated facts.
func productionSurface() [][2]string {
	st := memory.New()
	p := pool.New(st, nil)
	var out [][2]string
	out = append(out, rpcSurface("vipnode_", p, "connect", "disconnect", "ping", "update", "peer", "client", "host")...)
	out = append(out, rpcSurface("pool_", &payment.PaymentService{})...)
	out = append(out, rpcSurface("pool_", &status.PoolStatus{})...)
	sort.Slice(out, func(i, j int) bool { return out[i][0] < out[j][0] })
	return out
}

func isSigned(args string) bool {
	return strings.HasPrefix(args, "string,string,int64")
}

func leanStrList(l []string) string {
	q := make([]string, len(l))
	for i, s := range l {
		q[i] = fmt.Sprintf("%q", s)
	}
	return "[" + strings.Join(q, ", ") + "]"
}

func init() {
	factWriters = append(factWriters, func(b *strings.Builder) {
		var all, signed []string
		for _, e := range productionSurface() {
			all = append(all, e[0])
			if isSigned(e[1]) {
				signed = append(signed, e[0])
			}
		}
		fmt.Fprintf(b, "/-- RPC names registered by the pool binary's services (reflection over the real receivers) -/\n")
		fmt.Fprintf(b, "def registeredRpc : List String := %s\n", leanStrList(all))
		fmt.Fprintf(b, "/-- those taking (signature, identity, nonce, …) -/\n")
		fmt.Fprintf(b, "def signedEndpoints : List String := %s\n", leanStrList(signed))
		fmt.Fprintf(b, "def defaultRequestNumHosts : Int := %d\n", pool.VerifDefaultRequestNumHosts())
		fmt.Fprintf(b, "def poolWhitelistTimeoutNs : Int := %d\n", int64(pool.VerifPoolWhitelistTimeout()))
	})
	_ = reflect.TypeOf
}
