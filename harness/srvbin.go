package main

import (
	"bytes"
	"context"
	"encoding/json"
	"fmt"
	"io/ioutil"
	"math/rand"
	"net/http"
	"os"
	"strings"
	"time"

	"github.com/vipnode/vipnode/v2/jsonrpc2"
	ws "github.com/vipnode/vipnode/v2/jsonrpc2/ws/gorilla"
	"github.com/vipnode/vipnode/v2/pool"
	"github.com/vipnode/vipnode/v2/pool/payment"
	"github.com/vipnode/vipnode/v2/pool/status"
	"github.com/vipnode/vipnode/v2/pool/store/memory"
)

// Component `srvbin`: the same `srv` op language, executed against the *running pool binary*
// (VERIF_POOL_ADDR) over HTTP or WebSocket.  `reg` lines only tell the model which receivers the
// binary registers (method tables by reflection); calls are limited to ones that cannot have side
// effects (malformed parameters, unknown names, argument-less methods).
func init() { components["srvbin"] = func() Component { return &srvBinComp{} } }

type srvBinComp struct {
	addr      string
	transport string
	remote    *jsonrpc2.Remote
}

func (c *srvBinComp) Prefix() string { return "srv" }
func (c *srvBinComp) Close() {
	if c.remote != nil {
		c.remote.Close()
		c.remote = nil
	}
}

func (c *srvBinComp) Reset(opts map[string]string, base int64) {
	c.Close()
	c.addr = os.Getenv("VERIF_POOL_ADDR")
	c.transport = opts["transport"]
	if c.transport == "ws" {
		codec, err := ws.WebSocketDial(context.Background(), "ws://"+c.addr+"/")
		if err != nil {
			fatal(err)
		}
		c.remote = &jsonrpc2.Remote{Codec: codec, Client: &jsonrpc2.Client{}, Server: &jsonrpc2.Server{}}
		go c.remote.Serve()
	}
}

type rawReply struct {
	Result json.RawMessage       `json:"result"`
	Error  *jsonrpc2.ErrResponse `json:"error"`
	ID     json.RawMessage       `json:"id"`
}

func (c *srvBinComp) call(name string, params json.RawMessage, has bool) string {
	if c.transport == "ws" {
		// through the real client side of the library: params must be a slice; raw shapes go over HTTP only
		var args []interface{}
		if has {
			if err := json.Unmarshal(params, &args); err != nil {
				return "skip"
			}
		}
		ctx, cancel := context.WithTimeout(context.Background(), 3*time.Second)
		defer cancel()
		var res interface{}
		err := c.remote.Call(ctx, &res, name, args...)
		if err == nil {
			return "result"
		}
		if e, ok := err.(interface{ ErrorCode() int }); ok {
			return replyClass(&jsonrpc2.Message{Response: &jsonrpc2.Response{Error: &jsonrpc2.ErrResponse{Code: e.ErrorCode()}}})
		}
		return "err Transport:" + strings.Replace(err.Error(), " ", "_", -1)
	}
	req := map[string]interface{}{"jsonrpc": "2.0", "id": 7, "method": name}
	if has {
		req["params"] = params
	}
	body, _ := json.Marshal(req)
	resp, err := http.Post("http://"+c.addr+"/", "application/json", bytes.NewReader(body))
	if err != nil {
		return "err Transport"
	}
	raw, _ := ioutil.ReadAll(resp.Body)
	resp.Body.Close()
	var r rawReply
	if err := json.Unmarshal(raw, &r); err != nil {
		return "err Unparsable"
	}
	if string(r.ID) != "7" {
		return "wrong-id"
	}
	if r.Error == nil {
		return "result"
	}
	return replyClass(&jsonrpc2.Message{Response: &jsonrpc2.Response{Error: r.Error}})
}

func (c *srvBinComp) Exec(t []string) (extra []string, out string, eff bool) {
	switch t[0] {
	case "reg":
		// nothing to do on the implementation side: the binary registered its services at start-up
		return nil, "ok", false
	case "call":
		params, has := renderParams(t[2])
		if c.transport == "ws" && (t[2] == "absent" || t[2] == "null" || t[2] == "nonarray") {
			// the library client always sends an array; keep the op a no-op on both sides
			return []string{"#skipped"}, "noop", false
		}
		o := c.call(Untok(t[1]), params, has)
		if o == "result" || o == "err Internal" {
			// over the real binary a well-formed call is carried out; whether the service then answers with a result
			// or with an application error (a failed verification, say) is not the RPC layer's business
			o = "ran"
		}
		return []string{"noinv=1"}, o, false
	}
	return nil, "bad-op", false
}

func prodTables() []string {
	st := memory.New()
	var lines []string
	lines = append(lines, fmt.Sprintf("reg vipnode_ recv=prod allow=connect,disconnect,ping,update,peer,client,host methods=%s", strings.Join(methodTable(pool.New(st, nil)), ",")))
	lines = append(lines, fmt.Sprintf("reg pool_ recv=prod allow= methods=%s", strings.Join(methodTable(&payment.PaymentService{}), ",")))
	lines = append(lines, fmt.Sprintf("reg pool_ recv=prod allow= methods=%s", strings.Join(methodTable(&status.PoolStatus{}), ",")))
	return lines
}

func (c *srvBinComp) Gen(r *rand.Rand, idx int, emit func(string)) {
	for _, l := range prodTables() {
		emit(l)
	}
	signed := []string{"vipnode_connect", "vipnode_update", "vipnode_peer", "vipnode_client", "vipnode_host", "pool_addNode", "pool_withdraw"}
	// malformed parameter lists only (a well-formed call would be executed by the pool)
	bad := []string{"absent", "null", "nonarray", "[]", "s", "s.s", "s.s.s", "i.s.i.o", "s.s.f.o", "s.s.i.a", "s.s.i.ob", "s.s.i.o.s", "s.s.i.s", "n.n.n.n.n", "s.i"}
	cands := candidateRpcNames()
	if idx%2 == 0 {
		// every method of the pool object that is not on the allow-list, called the way it would run if it were
		// exposed (right arity, fitting JSON types): on either transport the answer is method-not-found
		allowed := map[string]bool{"Connect": true, "Disconnect": true, "Ping": true, "Update": true, "Peer": true, "Client": true, "Host": true}
		kindOf := map[string]string{"str": "s", "int": "i", "bool": "b", "obj": "o", "slice": "a", "anymap": "o", "any": "n"}
		for _, m := range methodTable(pool.New(memory.New(), nil)) {
			f := strings.SplitN(m, ":", 2)
			if allowed[f[0]] {
				continue
			}
			ps := []string{}
			for _, ty := range strings.Split(f[1], ".") {
				if ty == "" {
					continue
				}
				k := kindOf[ty]
				if k == "" {
					k = "n" // pointers take null
				}
				ps = append(ps, k)
			}
			p := strings.Join(ps, ".")
			if p == "" {
				p = "[]"
			}
			emit(fmt.Sprintf("call vipnode_%s%s %s", strings.ToLower(f[0][:1]), f[0][1:], p))
		}
	}
	for i := 0; i < 25; i++ {
		switch r.Intn(5) {
		case 0, 1:
			n := pick(r, signed)
			ps := pick(r, bad)
			if n == "pool_withdraw" && (ps == "s.s.i.s" || ps == "s.s.i.a" || ps == "s.s.i.ob" || ps == "s.s.i.o.s") {
				ps = "s.s.s" // withdraw takes three parameters: keep the list malformed
			}
			if n == "pool_addNode" && ps == "s.s.i.s" {
				ps = "s.s.i.i"
			}
			emit(fmt.Sprintf("call %s %s", n, ps))
		case 2:
			emit(fmt.Sprintf("call %s %s", pick(r, cands), pick(r, []string{"absent", "[]", "s", "s.s.i.o"})))
		case 3:
			emit(fmt.Sprintf("call %s %s", pick(r, []string{"vipnode_ping", "pool_status"}), pick(r, []string{"absent", "[]", "null", "s", "i.i"})))
		default:
			emit(fmt.Sprintf("call pool_account %s", pick(r, []string{"absent", "[]", "i", "s.s", "o", "null", "s"})))
		}
	}
}
