package main

import (
	"errors"
	"fmt"
	"math/big"
	"math/rand"
	"strconv"
	"time"

	"github.com/vipnode/vipnode/v2/pool/payment"
	"github.com/vipnode/vipnode/v2/pool/store"
)

// cache: the deposit cache of the contract-aware balance store (pool/payment/cache.go) under an injected clock and a
// scripted contract lookup: what Get answers is a still-valid entry or what the contract answers now.

func init() { components["cache"] = func() Component { return &cacheComp{} } }

type cacheComp struct {
	c      *payment.VerifCache
	now    int64
	answer *big.Int // what the scripted lookup answers (nil: it fails)
}

var errLookupDown = errors.New("contract lookup failed")

func (c *cacheComp) Close() {}
func (c *cacheComp) Reset(opts map[string]string, base int64) {
	c.now = 0
	epoch := time.Unix(1000000, 0)
	c.c = payment.VerifNewBalanceCache(0, func() time.Time { return epoch.Add(time.Duration(c.now)) }, func(a store.Account) (*big.Int, error) {
		if c.answer == nil {
			return nil, errLookupDown
		}
		return new(big.Int).Set(c.answer), nil
	})
}

func (c *cacheComp) Exec(t []string) (extra []string, out string, eff bool) {
	switch t[0] {
	case "reset":
		d, _ := strconv.ParseInt(t[1], 10, 64)
		c.c.Reset(time.Duration(d))
		return nil, "ok", true
	case "advance":
		d, _ := strconv.ParseInt(t[1], 10, 64)
		c.now += d
		return nil, "ok", true
	case "set":
		v, _ := new(big.Int).SetString(t[2], 10)
		c.c.Set(store.Account(t[1]), v)
		return nil, "ok", true
	case "get":
		if t[2] == "fail" {
			c.answer = nil
		} else {
			c.answer, _ = new(big.Int).SetString(t[2], 10)
		}
		v, err := c.c.Get(store.Account(t[1]))
		if err != nil {
			return nil, "err lookup", true
		}
		return nil, "ok " + v.String(), true
	}
	return nil, "bad-op", false
}

func (c *cacheComp) Gen(r *rand.Rand, idx int, emit func(string)) {
	accts := []string{"w0", "w1", "w2"}
	exp := []int64{0, 10, 10, 1000}[r.Intn(4)]
	emit(fmt.Sprintf("reset %d", exp))
	for i := 0; i < 10+r.Intn(25); i++ {
		switch k := r.Intn(20); {
		case k < 9:
			g := strconv.Itoa([]int{0, 0, 5, 9000, 700}[r.Intn(5)])
			if r.Intn(3) == 0 {
				g = "fail"
			}
			emit(fmt.Sprintf("get %s %s", pick(r, accts), g))
		case k < 12:
			emit(fmt.Sprintf("set %s %d", pick(r, accts), []int{0, 1, 9000, 42}[r.Intn(4)]))
		case k < 18:
			emit(fmt.Sprintf("advance %d", []int64{0, 1, 5, 9, 10, 11, 999, 1000, 1001}[r.Intn(9)]))
		default:
			emit(fmt.Sprintf("reset %d", []int64{0, 10, 1000}[r.Intn(3)]))
		}
	}
}
